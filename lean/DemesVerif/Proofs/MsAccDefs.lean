/-
  C09, first sentence — acceptance of the `to_ms` output by `from_ms`: shared definitions.

  The acceptance proof has four layers:

  1. the parsers (`MsAccParse.lean`): argparse accepts the printed command and agrees with the parser of the
     ms interpreter (`ArgsAgree`);
  2. progress (`MsAccProgress.lean`): the event loop of `build_graph` never raises on a command the ms
     interpreter accepts;
  3. the invariant `AccInv` of the event loop on the growth-free fragment (`FragCmd`), group by group
     (`GroupFrag`: the conditions on one time group beyond `C08.GoodGroup`);
  4. after the loop: `finishDoc` succeeds and the document it hands to `resolve` is a valid graph
     (`MsAccFill.lean`: `fill` of the document in closed form, then C03's completeness).

  Everything here is about the Model's Builder state (`BState`) and the ms commands (`MsSem.Cmd`).
-/
import DemesVerif.Proofs.FromMsApplyFinal
namespace Demes.Proofs.MsAcc
open Demes Demes.Ms Demes.Spec Demes.Spec.MsSem Demes.Spec.C08 Demes.Proofs.FromMs

/-! ## the commands -/

/-- the options of the growth-free fragment `to_ms` emits, with the signs validity gives them: sizes are
positive, migration entries are not negative, a split keeps a fraction strictly between 0 and 1, and
`-es` / `-ej` happen at positive times -/
def fragCmd : Cmd → Bool
  | .setSize t i x _ => decide (0 ≤ t) && decide (1 ≤ i) && decide (0 < x)
  | .setMigEntry t i j m => decide (0 ≤ t) && decide (1 ≤ i) && decide (1 ≤ j) && decide (0 ≤ m)
  | .split t i p => decide (0 < t) && decide (1 ≤ i) && decide (0 < p) && decide (p < 1)
  | .join t i j => decide (0 < t) && decide (1 ≤ i) && decide (1 ≤ j)
  | _ => false

/-- no size option names a population that is joined in the same time group (the shape of F4: the
joined deme would get an epoch of length zero) -/
def noSizeAtJoinG (cs : List Cmd) : Bool :=
  cs.all (fun c => match c with
    | .join _ i _ => cs.all (fun d => match d with | .setSize _ i' _ _ => i' != i | _ => true)
    | _ => true)

/-- what the acceptance proof needs of one time group beyond `GoodGroup`: only options of the fragment;
no size change of a population joined in the group; no lineage movement from a population to itself
(`n` populations exist before the group; `groupOps` are the movements `(a, h, q)` of the group) -/
def groupFrag (n : Nat) (cs : List Cmd) : Bool :=
  cs.all fragCmd && noSizeAtJoinG cs && (groupOps n cs).all (fun o => o.1 != o.2.1)

/-- every time group satisfies `groupFrag`; `n` populations exist before the first one -/
def groupsFrag : Nat → List (List Cmd) → Bool
  | _, [] => true
  | n, g :: rest => groupFrag n g && groupsFrag (n + (g.filter isSplitC).length) rest

/-! ## the invariant of the event loop -/

/-- sizes and times of the epochs of a Builder deme during the event loop (`epochs[0]` is the open, most
ancient epoch; closed epochs carry their `start_size`); `T` is the time of the last group processed -/
structure EpochsWF (T : Q) (d : BDeme) : Prop where
  ne : d.epochs ≠ []
  sizes : ∀ e ∈ d.epochs, e.endSize.expo = 0 ∧ 0 < e.endSize.coef
  growth : ∀ e ∈ d.epochs, e.growthRate = none ∨ e.growthRate = some 0
  closed : ∀ e r, d.epochs = e :: r → ∀ e' ∈ r, e'.growthRate = none ∧
    ∃ z, e'.startSize = some z ∧ z.expo = 0 ∧ 0 < z.coef
  times : (d.epochs.map (·.endTime)).Pairwise (fun a b => b < a)
  last0 : 0 ≤ bEndTime d
  headLe : ∀ e r, d.epochs = e :: r → e.endTime ≤ T

/-- the ancestry of a joined deme: the ancestors are other demes of the state that exist at the join time
`Tj` and are joined later or never; the proportions are absent (one ancestor) or positive with sum one -/
structure AncWF (s : BState) (j : Nat) (Tj : Q) (d : BDeme) : Prop where
  anc : ∃ as, d.ancestors = some as ∧ as ≠ [] ∧ as.Nodup ∧
    (∀ a ∈ as, ∃ k dk, a = Ms.demeName k ∧ k ≠ j ∧ s.demes[k]? = some dk ∧ bEndTime dk ≤ Tj
        ∧ ETime.fin Tj < dk.startTime) ∧
    ((d.proportions = none ∧ as.length = 1) ∨
      ∃ ps, d.proportions = some ps ∧ ps.length = as.length ∧ (∀ p ∈ ps, 0 < p ∧ p ≤ 1) ∧ qsumS ps = 1)

/-- deme `j` of the state: well-formed epochs; not joined: no start time, no ancestry; joined at `Tj`:
its open epoch ends before `Tj`, or the deme is transient (created and joined at `Tj`), and it has a
well-formed ancestry -/
structure DemeWF (T : Q) (s : BState) (j : Nat) (d : BDeme) : Prop where
  ep : EpochsWF T d
  live : s.joined.contains j = false → d.startTime = .inf ∧ d.ancestors = none ∧ d.proportions = none
  dead : s.joined.contains j = true → ∃ Tj, d.startTime = .fin Tj ∧ 0 < Tj ∧ Tj ≤ T ∧
    ((∀ e r, d.epochs = e :: r → e.endTime < Tj) ∨ (∃ e, d.epochs = [e] ∧ e.endTime = Tj)) ∧ AncWF s j Tj d

/-- a pulse of the state: one source, different from the destination, a proportion in `(0, 1]`, at a
positive time at which both demes exist (the destination strictly before) and after which both are joined
later or never -/
structure PulseWF (T : Q) (s : BState) (p : BPulse) : Prop where
  shape : ∃ j k q dj dk, p.sources = [Ms.demeName k] ∧ p.dest = Ms.demeName j ∧ p.proportions = [q] ∧ k ≠ j
    ∧ 0 < q ∧ q ≤ 1 ∧ 0 < p.time ∧ p.time ≤ T ∧ s.demes[j]? = some dj ∧ s.demes[k]? = some dk
    ∧ bEndTime dj < p.time ∧ bEndTime dk ≤ p.time
    ∧ ETime.fin p.time < dj.startTime ∧ ETime.fin p.time < dk.startTime

/-- **the invariant of the event loop** (demes and pulses) -/
structure AccInv (T : Q) (s : BState) : Prop where
  nonneg : 0 ≤ T
  len : s.demes.length = s.numDemes
  pos : 1 ≤ s.numDemes
  jlt : ∀ j ∈ s.joined, j < s.numDemes
  demes : ∀ j d, s.demes[j]? = some d → DemeWF T s j d
  pulses : ∀ p ∈ s.pulses.getD [], PulseWF T s p

/-! ## the migration-matrix history -/

/-- the rational value of a migration rate of the document (`0` for the IEEE specials, which do not occur
on the fragment) -/
def rateQ : Num → Q
  | .fin q => q
  | _ => 0

/-- the rates (ms units) into deme `j` from the other demes according to the matrix in force at `t` -/
def ingressRow (s : BState) (j : Nat) (t : Q) : List Q :=
  ((List.range s.numDemes).filter (fun k => k != j)).map (fun k =>
    rateQ ((mmRateAt s.mmList s.mmEndTimes j k t).getD (.fin 0)))

/-- **the invariant of the matrix history** (`mm_list`, `mm_end_times`; most ancient matrix first): as many
matrices as end times, all `numDemes × numDemes`, strictly decreasing end times; an off-diagonal entry in
force at `t` is a finite non-negative number, and it is non-zero only while both demes exist (created at
or before `t`, joined after `t` or never) and is at most `4·N0` (a rate of the graph is at most one); the total rate into a deme,
divided by `4·N0`, is at most one up to the tolerance of the validation (`ingressOk`: `≤ 1`, or within
`1e-9` of one — a valid graph may exceed one by that much, so `≤ 4·N0` would be false) -/
structure MigWF (N0 : Q) (s : BState) : Prop where
  len : s.mmList.length = s.mmEndTimes.length
  dims : ∀ m ∈ s.mmList, Dim s.numDemes m
  dec : s.mmEndTimes.Pairwise (fun a b => b < a)
  nonneg : ∀ e ∈ s.mmEndTimes, 0 ≤ e
  fin : ∀ j k t r, j ≠ k → mmRateAt s.mmList s.mmEndTimes j k t = some r → ∃ q, r = .fin q ∧ 0 ≤ q
  alive : ∀ j k t q, j ≠ k → mmRateAt s.mmList s.mmEndTimes j k t = some (.fin q) → q ≠ 0 →
    ∃ dj dk, s.demes[j]? = some dj ∧ s.demes[k]? = some dk
      ∧ bEndTime dj ≤ t ∧ bEndTime dk ≤ t ∧ ETime.fin t < dj.startTime ∧ ETime.fin t < dk.startTime
  le : ∀ j k t q, j ≠ k → mmRateAt s.mmList s.mmEndTimes j k t = some (.fin q) → q ≤ 4 * N0
  ingress : ∀ j t, ingressOk (qsumS (ingressRow s j t) / (4 * N0)) = true

/-! ## the migrations of the document -/

/-- **what the migrations `finishDoc` emits from the matrix history satisfy** (`migs`: after the division of
the rates by `4·N0`): every migration goes between two different demes of the state, over an interval
inside the lifetimes of both, with a rate in `[0, 1]`; two migrations of one ordered pair do not overlap; at
every time the rates into a deme sum to at most one, up to the tolerance of the validation (`ingressOk`) -/
structure DocMigsWF (s : BState) (migs : List BMigration) : Prop where
  shape : ∀ m ∈ migs, ∃ j k q dj dk, m.source = Ms.demeName k ∧ m.dest = Ms.demeName j ∧ j ≠ k
    ∧ m.rate = .fin q ∧ 0 ≤ q ∧ q ≤ 1 ∧ s.demes[j]? = some dj ∧ s.demes[k]? = some dk
    ∧ ETime.fin m.endTime < m.startTime ∧ bEndTime dj ≤ m.endTime ∧ bEndTime dk ≤ m.endTime
    ∧ m.startTime ≤ dj.startTime ∧ m.startTime ≤ dk.startTime
  disjoint : migs.Pairwise (fun a b => a.source = b.source → a.dest = b.dest →
    ¬ (ETime.fin b.endTime < a.startTime ∧ ETime.fin a.endTime < b.startTime))
  ingress : ∀ j t, ingressOk (qsumS ((migs.filter (fun m => decide (m.dest = Ms.demeName j) && covers t m)).map
    (fun m => rateQ m.rate))) = true

end Demes.Proofs.MsAcc
