/-
  Proofs for C06, part 2: generic facts about `Except` loops, and the strict reader
  `Read.graph` applied to `Graph.asdict`.
-/
import DemesVerif.Proofs.AsdictBasic
namespace Demes.Proofs.Asdict
open Demes Demes.Spec Obj Value

theorem bind_ok {α β} (a : α) (f : α → Except Err β) : (Except.ok a >>= f) = f a := rfl
theorem pure_eq_ok {α} (a : α) : (pure a : Except Err α) = .ok a := rfl

/-- `mapM` over a mapped list, when every element is accepted -/
theorem mapM_map_ok {α β γ} (h : α → β) (f : β → Except Err γ) (k : α → γ) :
    ∀ l : List α, (∀ x ∈ l, f (h x) = .ok (k x)) → (l.map h).mapM f = .ok (l.map k) := by
  intro l
  induction l with
  | nil => intro _; rfl
  | cons x xs ih =>
    intro hl
    rw [List.map_cons, List.mapM_cons, hl x List.mem_cons_self, bind_ok,
      ih (fun y hy => hl y (List.mem_cons_of_mem _ hy)), bind_ok]
    rfl

theorem mapM_map_ok_id {α β} (h : α → β) (f : β → Except Err α) (l : List α)
    (hl : ∀ x ∈ l, f (h x) = .ok x) : (l.map h).mapM f = .ok l := by
  have := mapM_map_ok h f id l hl
  rwa [List.map_id] at this

theorem forM_cons' {α} (f : α → Except Err Unit) (x : α) (xs : List α) :
    (x :: xs).forM f = (f x >>= fun _ => xs.forM f) := rfl

theorem forM_ok {α} (f : α → Except Err Unit) :
    ∀ l : List α, (∀ x ∈ l, f x = .ok ()) → l.forM f = .ok () := by
  intro l
  induction l with
  | nil => intro _; rfl
  | cons x xs ih =>
    intro hl
    rw [forM_cons', hl x List.mem_cons_self, bind_ok,
      ih (fun y hy => hl y (List.mem_cons_of_mem _ hy))]

theorem instList_list (xs : List Value) : instList (.list xs) = .ok xs := rfl
theorem instObj_obj (o : Obj) : instObj (.obj o) = .ok o := rfl
theorem instStr_str (s : String) : instStr (.str s) = .ok s := rfl

theorem read_strs (xs : List String) : Read.strs (strsV xs) = .ok xs := by
  unfold Read.strs strsV
  rw [instList_list, bind_ok]
  exact mapM_map_ok_id _ _ _ (fun _ _ => rfl)

theorem read_qs (xs : List Q) : Read.qs (numsV xs) = .ok xs := by
  unfold Read.qs numsV
  rw [instList_list, bind_ok]
  exact mapM_map_ok_id _ _ _ (fun _ _ => rfl)

theorem read_time (t : ETime) : Read.time (timeV t) = .ok t := by cases t <;> rfl

theorem read_epoch (s : ETime) (e : Epoch) (h : e.startTime = s) : Read.epoch s (Epoch.asdict e) = .ok e := by
  subst h; rfl


/-- only the start-time chain of `contiguous` matters to the reader -/
def chained : ETime → List Epoch → Prop
  | _, [] => True
  | s, e :: es => e.startTime = s ∧ chained (.fin e.endTime) es

theorem chained_of_contiguous : ∀ (es : List Epoch) (s : ETime), contiguous s es = true → chained s es
  | [], _, _ => trivial
  | e :: es, s, h => by
    simp only [contiguous, Bool.and_eq_true, beq_iff_eq, decide_eq_true_eq] at h
    exact ⟨h.1.1, chained_of_contiguous es _ h.2⟩

theorem read_epochs : ∀ (es : List Epoch) (s : ETime), chained s es →
    Read.epochs s (es.map Epoch.asdict) = .ok es
  | [], _, _ => rfl
  | e :: es, s, h => by
    rw [List.map_cons, Read.epochs, read_epoch s e h.1, bind_ok, read_epochs es _ h.2, bind_ok]
    rfl

theorem read_deme (d : Deme) (h : chained d.startTime d.epochs) : Read.deme (Deme.asdict d) = .ok d := by
  have h1 : Read.field (demeObj d) "start_time" = .ok (timeV d.startTime) := rfl
  have h2 : Read.field (demeObj d) "name" = .ok (.str d.name) := rfl
  have h3 : Read.field (demeObj d) "description" = .ok (.str d.description) := rfl
  have h4 : Read.field (demeObj d) "ancestors" = .ok (strsV d.ancestors) := rfl
  have h5 : Read.field (demeObj d) "proportions" = .ok (numsV d.proportions) := rfl
  have h6 : Read.field (demeObj d) "epochs" = .ok (.list (d.epochs.map Epoch.asdict)) := rfl
  simp only [deme_asdict, Read.deme, instObj_obj, bind_ok, h1, read_time, h2, h3, h4, read_strs, h5,
    read_qs, h6, instList_list, read_epochs _ _ h, Read.str, instStr_str]
  rfl


theorem read_migration (m : Migration) : Read.migration (Migration.asdict m) = .ok m := by
  have h1 : Read.field (migrationObj m) "source" = .ok (.str m.source) := rfl
  have h2 : Read.field (migrationObj m) "dest" = .ok (.str m.dest) := rfl
  have h3 : Read.field (migrationObj m) "start_time" = .ok (timeV m.startTime) := rfl
  have h4 : Read.field (migrationObj m) "end_time" = .ok (numV m.endTime) := rfl
  have h5 : Read.field (migrationObj m) "rate" = .ok (numV m.rate) := rfl
  have hq : ∀ x : Q, Read.q (numV x) = .ok x := fun _ => rfl
  simp only [migration_asdict, Read.migration, instObj_obj, bind_ok, h1, h2, h3, h4, h5, read_time,
    Read.str, instStr_str, hq]
  rfl

theorem read_pulse (p : Pulse) : Read.pulse (Pulse.asdict p) = .ok p := by
  have h1 : Read.field (pulseObj p) "sources" = .ok (strsV p.sources) := rfl
  have h2 : Read.field (pulseObj p) "dest" = .ok (.str p.dest) := rfl
  have h3 : Read.field (pulseObj p) "time" = .ok (numV p.time) := rfl
  have h4 : Read.field (pulseObj p) "proportions" = .ok (numsV p.proportions) := rfl
  have hq : ∀ x : Q, Read.q (numV x) = .ok x := fun _ => rfl
  simp only [pulse_asdict, Read.pulse, instObj_obj, bind_ok, h1, h2, h3, h4, read_strs, read_qs,
    Read.str, instStr_str, hq]
  rfl

/-- the name index of a deme list -/
def mkIndex (ds : List Deme) : List (String × Nat) := ds.zipIdx.map (fun (dm, i) => (dm.name, i))

theorem index_of_v0 {g : Graph} (h : v0 g = true) : g.index = mkIndex g.demes := by
  unfold v0 at h
  exact beq_iff_eq.1 h

theorem chained_of_v5 {g : Graph} (h : v5 g = true) : ∀ d ∈ g.demes, chained d.startTime d.epochs := by
  intro d hd
  simp only [v5, List.all_eq_true, Bool.and_eq_true] at h
  exact chained_of_contiguous _ _ (h d hd).2

theorem read_asdict (g : Graph) (h0 : v0 g = true) (h5 : v5 g = true) :
    Read.graph (Graph.asdict g) = .ok { g with metadata := coerceO g.metadata } := by
  have f1 : Read.field (graphObj g) "demes" = .ok (.list (g.demes.map Deme.asdict)) := rfl
  have f2 : Read.field (graphObj g) "description" = .ok (.str g.description) := rfl
  have f3 : Read.field (graphObj g) "time_units" = .ok (.str g.timeUnits) := rfl
  have f4 : Read.field (graphObj g) "generation_time" = .ok (numV g.generationTime) := rfl
  have f5 : Read.field (graphObj g) "doi" = .ok (strsV g.doi) := rfl
  have f6 : Read.field (graphObj g) "metadata" = .ok (.obj (coerceO g.metadata)) := rfl
  have f7 : Read.field (graphObj g) "migrations" = .ok (.list (g.migrations.map Migration.asdict)) := rfl
  have f8 : Read.field (graphObj g) "pulses" = .ok (.list (g.pulses.map Pulse.asdict)) := rfl
  have hq : ∀ x : Q, Read.q (numV x) = .ok x := fun _ => rfl
  have hd : (g.demes.map Deme.asdict).mapM Read.deme = .ok g.demes :=
    mapM_map_ok_id _ _ _ (fun d hd => read_deme d (chained_of_v5 h5 d hd))
  have hm : (g.migrations.map Migration.asdict).mapM Read.migration = .ok g.migrations :=
    mapM_map_ok_id _ _ _ (fun m _ => read_migration m)
  have hp : (g.pulses.map Pulse.asdict).mapM Read.pulse = .ok g.pulses :=
    mapM_map_ok_id _ _ _ (fun p _ => read_pulse p)
  simp only [graph_asdict, Read.graph, instObj_obj, bind_ok, f1, f2, f3, f4, f5, f6, f7, f8,
    instList_list, hd, hm, hp, Read.str, instStr_str, hq, read_strs]
  rw [index_of_v0 h0]
  rfl

end Demes.Proofs.Asdict
