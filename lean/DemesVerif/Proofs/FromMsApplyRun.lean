/-
  C08, link C (movements) — through the run: after every time group, the movements the interpreter
  has recorded are the ones `groupMoves` reads off the Builder state at the recorded times, and
  every other event time of the Builder state (a pulse, a deme start) reads back as "no movement".
-/
import DemesVerif.Proofs.FromMsApplyStable
import DemesVerif.Proofs.FromMsMigFold
namespace Demes.Proofs.FromMs
open Demes Demes.Ms Demes.Spec Demes.Spec.MsSem Demes.Spec.C08

/-! ## the interpreter's `moves` -/

theorem step_moves {N0 : Q} {σ σ' : St} {L L' : List (Nat × Row)} {c : Cmd}
    (h : Spec.MsSem.step N0 (σ, L) c = .ok (σ', L')) : σ'.moves = σ.moves := by
  cases c with
  | setSize t i x reset =>
    rw [step_setSize] at h
    obtain ⟨p, _, h⟩ := sbind_ok.1 h
    rw [spure_ok] at h; cases h; rfl
  | setSizeAll t x => rw [step_setSizeAll, spure_ok] at h; cases h; rfl
  | setGrowth t i a =>
    rw [step_setGrowth] at h
    obtain ⟨p, _, h⟩ := sbind_ok.1 h
    rw [spure_ok] at h; cases h; rfl
  | setGrowthAll t a => rw [step_setGrowthAll, spure_ok] at h; cases h; rfl
  | setMigEntry t i j m => exact (step_mig_pops (c := .setMigEntry t i j m) trivial h).2.1
  | setMigAll t x => exact (step_mig_pops (c := .setMigAll t x) trivial h).2.1
  | setMigMatrix t npop entries => exact (step_mig_pops (c := .setMigMatrix t npop entries) trivial h).2.1
  | split t i p => exact (step_split_ok h).2.2.1
  | join t i j =>
    obtain ⟨_, _, _, _, _, hm, _⟩ := step_join_ok h
    exact hm

theorem steps_moves {N0 : Q} : ∀ (cs : List Cmd) {σ σ' : St} {L L' : List (Nat × Row)},
    cs.foldlM (Spec.MsSem.step N0) (σ, L) = .ok (σ', L') → σ'.moves = σ.moves := by
  intro cs
  induction cs with
  | nil => intro σ σ' L L' h; cases h; rfl
  | cons c cs ih =>
    intro σ σ' L L' h
    rw [List.foldlM_cons] at h
    obtain ⟨⟨σ1, L1⟩, h1, h⟩ := sbind_ok.1 h
    rw [ih h, step_moves h1]

/-- what `stepGroup` of the interpreter records -/
theorem stepGroup_moves {N0 : Q} {σ σ' : St} {group : List Cmd} (h : Spec.MsSem.stepGroup N0 σ group = .ok σ') :
    ∃ σ1 L1, group.foldlM (Spec.MsSem.step N0) (σ, initL σ) = .ok (σ1, L1) ∧
      σ'.moves = if group.any isMove && !(canonRows L1).isEmpty
        then σ.moves ++ [{ time := 4 * N0 * ((group.head?.map Cmd.t).getD 0), rows := canonRows L1 }]
        else σ.moves := by
  unfold Spec.MsSem.stepGroup at h
  dsimp only at h
  obtain ⟨⟨σ1, L1⟩, hf, h⟩ := sbind_ok.1 h
  refine ⟨σ1, L1, hf, ?_⟩
  have hm := steps_moves _ hf
  dsimp only at h
  split at h
  · rename_i hany
    rw [spure_ok] at h
    subst h
    rw [hany]
    by_cases he : (canonRows L1).isEmpty = true
    · simp [he, hm]
    · simp [he, hm]
  · rename_i hany
    rw [spure_ok] at h
    subst h
    have : group.any isMove = false := by simpa using hany
    rw [this]
    simp [hm]

/-! ## the invariant of the run -/

/-- a time at which a graph built from the state has something to read: a pulse, or the start of a
deme that `_remove_transient_demes` keeps -/
def EventAt (s : BState) (T0 : Q) : Prop :=
  (∃ p ∈ s.pulses.getD [], p.time = T0) ∨ (∃ d ∈ s.demes, nonTransient d = true ∧ d.startTime = .fin T0)

structure MovesInv (T : Q) (s : BState) (σ : St) : Prop where
  nonneg : 0 ≤ T
  sorted : σ.moves.Pairwise (fun a b => a.time < b.time)
  recd : ∀ m ∈ σ.moves, m.time ≤ T ∧ m.rows ≠ [] ∧
    ∃ L, groupMoves (popNames s.numDemes) m.time s.demes (s.pulses.getD []) = .ok L ∧ canonRows L = m.rows
  ev : ∀ T0, EventAt s T0 → T0 ≤ T ∧
    ∃ L, groupMoves (popNames s.numDemes) T0 s.demes (s.pulses.getD []) = .ok L ∧
      (canonRows L = [] ∨ ({ time := T0, rows := canonRows L } : Move) ∈ σ.moves)
  endLe : ∀ (j : Nat) (d : BDeme), s.demes[j]? = some d → bEndTime d ≤ T
  stLe : ∀ (j : Nat) (d : BDeme), s.demes[j]? = some d → d.startTime = .inf ∨ ∃ t, d.startTime = .fin t ∧ t ≤ T

/-! ### a group without `-es` / `-ej` -/

/-- `nonTransient` on a view -/
def ntV (v : DView) : Bool :=
  match v.startTime with
  | .inf => true
  | .fin st => st = 0 || st ≠ v.endTime

theorem ntV_view (d : BDeme) : ntV (viewB d) = nonTransient d := rfl

theorem filter_views {l l' : List BDeme} (h : l'.map viewB = l.map viewB) :
    (l'.filter nonTransient).map viewB = (l.filter nonTransient).map viewB := by
  have e : ∀ l : List BDeme, (l.filter nonTransient).map viewB = (l.map viewB).filter ntV := by
    intro l; rw [List.filter_map]; rfl
  rw [e, e, h]

theorem mem_views {l l' : List BDeme} (h : l'.map viewB = l.map viewB) {d' : BDeme} (hd : d' ∈ l') :
    ∃ d ∈ l, viewB d = viewB d' := by
  have : viewB d' ∈ l.map viewB := by rw [← h]; exact List.mem_map.mpr ⟨d', hd, rfl⟩
  obtain ⟨d, hd1, hd2⟩ := List.mem_map.mp this
  exact ⟨d, hd1, hd2⟩

theorem view_fields {d d' : BDeme} (h : viewB d = viewB d') :
    d.startTime = d'.startTime ∧ bEndTime d = bEndTime d' ∧ nonTransient d = nonTransient d' := by
  have h1 : (viewB d).startTime = (viewB d').startTime := by rw [h]
  have h2 : (viewB d).endTime = (viewB d').endTime := by rw [h]
  exact ⟨h1, h2, nonTransient_congr h1 h2⟩

/-- a group that moves no lineage keeps the invariant -/
theorem movesInv_nonmove {T T' : Q} {s s' : BState} {σ σ' : St} (h : MovesInv T s σ) (hT : T ≤ T')
    (hnum : s'.numDemes = s.numDemes) (hp : s'.pulses = s.pulses) (hv : s'.demes.map viewB = s.demes.map viewB)
    (hm : σ'.moves = σ.moves) : MovesInv T' s' σ' := by
  have hgm : ∀ T0, groupMoves (popNames s'.numDemes) T0 s'.demes (s'.pulses.getD [])
      = groupMoves (popNames s.numDemes) T0 s.demes (s.pulses.getD []) := by
    intro T0
    rw [groupMoves_view, groupMoves_view, hnum, hp, filter_views hv]
  have hev : ∀ T0, EventAt s' T0 → EventAt s T0 := by
    intro T0 he
    rcases he with ⟨p, hp', ht⟩ | ⟨d', hd', hn, hs⟩
    · left; exact ⟨p, by rw [← hp]; exact hp', ht⟩
    · right
      obtain ⟨d, hd, hvd⟩ := mem_views hv hd'
      obtain ⟨e1, _, e3⟩ := view_fields hvd
      exact ⟨d, hd, by rw [e3]; exact hn, by rw [e1]; exact hs⟩
  have hpos : ∀ (j : Nat) (d' : BDeme), s'.demes[j]? = some d' → ∃ d, s.demes[j]? = some d ∧ viewB d = viewB d' := by
    intro j d' hd'
    have h1 : (s'.demes.map viewB)[j]? = some (viewB d') := by rw [List.getElem?_map, hd']; rfl
    rw [hv, List.getElem?_map] at h1
    cases hd : s.demes[j]? with
    | none => rw [hd] at h1; cases h1
    | some d => rw [hd] at h1; exact ⟨d, rfl, Option.some.inj h1⟩
  refine ⟨Rat.le_trans h.nonneg hT, by rw [hm]; exact h.sorted, ?_, ?_, ?_, ?_⟩
  · intro m hmm
    rw [hm] at hmm
    obtain ⟨a, b, L, hL, c⟩ := h.recd m hmm
    exact ⟨Rat.le_trans a hT, b, L, by rw [hgm]; exact hL, c⟩
  · intro T0 he
    obtain ⟨a, L, hL, c⟩ := h.ev T0 (hev T0 he)
    exact ⟨Rat.le_trans a hT, L, by rw [hgm]; exact hL, by rw [hm]; exact c⟩
  · intro j d' hd'
    obtain ⟨d, hd, hvd⟩ := hpos j d' hd'
    rw [← (view_fields hvd).2.1]
    exact Rat.le_trans (h.endLe j d hd) hT
  · intro j d' hd'
    obtain ⟨d, hd, hvd⟩ := hpos j d' hd'
    rw [← (view_fields hvd).1]
    rcases h.stLe j d hd with h1 | ⟨t, h1, h2⟩
    · exact Or.inl h1
    · exact Or.inr ⟨t, h1, Rat.le_trans h2 hT⟩

/-! ### a good group with `-es` / `-ej`, later than everything so far -/

theorem movesInv_move {T T' : Q} {s : BState} {σ σ' : St} {s1 : BState} {g1 : GState} {L1 : List (Nat × Row)}
    {ops : List MOp} (h : MovesInv T s σ) (hTT : T < T') (hsim : SizeSim T s σ)
    (he : GroupEnd T' s σ s1 g1 L1 ops) (hnames : NameInv s)
    (hjs : ∀ j, s.joined.contains j = true → s1.demes[j]? = s.demes[j]?)
    (hm : σ'.moves = if !(canonRows L1).isEmpty then σ.moves ++ [{ time := T', rows := canonRows L1 }] else σ.moves) :
    MovesInv T' (applyParams T' s1 g1) σ' := by
  have hT0 : T' ≠ 0 := by
    intro e
    rw [e] at hTT
    exact Rat.lt_irrefl (lt_of_le_of_lt h.nonneg hTT)
  have hend : ∀ (j : Nat) (d : BDeme), s.demes[j]? = some d → bEndTime d < T' :=
    fun j d hd => lt_of_le_of_lt (h.endLe j d hd) hTT
  have hst : ∀ (j : Nat) (d : BDeme), s.demes[j]? = some d →
      d.startTime = .inf ∨ ∃ t, d.startTime = .fin t ∧ t < T' := by
    intro j d hd
    rcases h.stLe j d hd with h1 | ⟨t, h1, h2⟩
    · exact Or.inl h1
    · exact Or.inr ⟨t, h1, lt_of_le_of_lt h2 hTT⟩
  have hpul : ∀ p ∈ s.pulses.getD [], p.time ≠ T' := by
    intro p hp e
    have := (h.ev p.time (Or.inl ⟨p, hp, rfl⟩)).1
    rw [e] at this
    exact Rat.lt_irrefl (lt_of_le_of_lt this hTT)
  obtain ⟨L2, hL2, hc2⟩ := applyParams_sem_of_end hsim he hT0 hend hst hpul
  obtain ⟨pw, tl⟩ := group_positions hsim he hnames hjs
  have hsub : ∀ m ∈ σ.moves, m ∈ σ'.moves := by
    intro m hmm
    rw [hm]
    split
    · exact List.mem_append_left _ hmm
    · exact hmm
  have hnew : canonRows L2 = [] ∨ ({ time := T', rows := canonRows L2 } : Move) ∈ σ'.moves := by
    rw [hc2, hm]
    by_cases hemp : (canonRows L1).isEmpty = true
    · left; exact List.isEmpty_iff.mp hemp
    · right
      simp only [hemp, Bool.not_false, if_true, Bool.not_eq_true]
      simp
  have hstable := fun (T0 : Q) (h0 : T0 < T') (L : List (Nat × Row)) hL =>
    group_stable hsim he hnames hjs hend h0 (L := L) hL
  refine ⟨Rat.le_of_lt (lt_of_le_of_lt h.nonneg hTT), ?_, ?_, ?_, ?_, ?_⟩
  · rw [hm]
    split
    · rw [List.pairwise_append]
      refine ⟨h.sorted, List.pairwise_singleton _ _, ?_⟩
      intro a ha b hb
      simp only [List.mem_singleton] at hb
      subst hb
      exact lt_of_le_of_lt (h.recd a ha).1 hTT
    · exact h.sorted
  · intro m hmm
    rw [hm] at hmm
    have hold : ∀ m ∈ σ.moves, m.time ≤ T' ∧ m.rows ≠ [] ∧
        ∃ L, groupMoves (popNames (applyParams T' s1 g1).numDemes) m.time (applyParams T' s1 g1).demes
          ((applyParams T' s1 g1).pulses.getD []) = .ok L ∧ canonRows L = m.rows := by
      intro m hmm
      obtain ⟨a, b, L, hL, c⟩ := h.recd m hmm
      exact ⟨Rat.le_of_lt (lt_of_le_of_lt a hTT), b, L, hstable _ (lt_of_le_of_lt a hTT) L hL, c⟩
    split at hmm
    · rename_i hemp
      rcases List.mem_append.mp hmm with hmm | hmm
      · exact hold m hmm
      · simp only [List.mem_singleton] at hmm
        subst hmm
        refine ⟨Rat.le_refl, ?_, L2, hL2, hc2⟩
        intro e
        dsimp only at e
        rw [e] at hemp
        simp at hemp
    · exact hold m hmm
  · intro T0 hev
    have hold : EventAt s T0 → T0 ≤ T' ∧ ∃ L, groupMoves (popNames (applyParams T' s1 g1).numDemes) T0
        (applyParams T' s1 g1).demes ((applyParams T' s1 g1).pulses.getD []) = .ok L ∧
        (canonRows L = [] ∨ ({ time := T0, rows := canonRows L } : Move) ∈ σ'.moves) := by
      intro hev0
      obtain ⟨a, L, hL, c⟩ := h.ev T0 hev0
      refine ⟨Rat.le_of_lt (lt_of_le_of_lt a hTT), L, hstable _ (lt_of_le_of_lt a hTT) L hL, ?_⟩
      rcases c with c | c
      · exact Or.inl c
      · exact Or.inr (hsub _ c)
    have hnewT : T0 = T' → T0 ≤ T' ∧ ∃ L, groupMoves (popNames (applyParams T' s1 g1).numDemes) T0
        (applyParams T' s1 g1).demes ((applyParams T' s1 g1).pulses.getD []) = .ok L ∧
        (canonRows L = [] ∨ ({ time := T0, rows := canonRows L } : Move) ∈ σ'.moves) := by
      intro e
      subst e
      exact ⟨Rat.le_refl, L2, hL2, hnew⟩
    rcases hev with ⟨p, hp, ht⟩ | ⟨D, hD, hn, hs⟩
    · rw [applyParams_eq, (apFold T' g1 g1.params s1).1, he.pulses] at hp
      rcases List.mem_append.mp hp with hp | hp
      · exact hold (Or.inl ⟨p, hp, ht⟩)
      · obtain ⟨e, _, rfl⟩ := List.mem_map.mp hp
        exact hnewT ht.symm
    · obtain ⟨i, hi⟩ := List.mem_iff_getElem?.mp hD
      by_cases hlt : i < s.demes.length
      · obtain ⟨D', hD', hc⟩ := pw i _ (List.getElem?_eq_getElem hlt)
        rw [hi] at hD'
        cases hD'
        rcases hc with rfl | ⟨_, _, _, hs'⟩
        · exact hold (Or.inr ⟨_, List.getElem_mem hlt, hn, hs⟩)
        · rcases hs' with hs' | hs'
          · rw [hs'] at hs; cases hs
          · rw [hs'] at hs; cases hs; exact hnewT rfl
      · obtain ⟨_, hs'⟩ := tl i D (by omega) hi
        rcases hs' with hs' | hs'
        · rw [hs'] at hs; cases hs
        · rw [hs'] at hs; cases hs; exact hnewT rfl
  · intro j D hD
    by_cases hlt : j < s.demes.length
    · obtain ⟨D', hD', hc⟩ := pw j _ (List.getElem?_eq_getElem hlt)
      rw [hD] at hD'
      cases hD'
      have h0 := h.endLe j _ (List.getElem?_eq_getElem hlt)
      rcases hc with rfl | ⟨_, _, hb, _⟩
      · exact Rat.le_trans h0 (Rat.le_of_lt hTT)
      · rw [hb]; exact Rat.le_trans h0 (Rat.le_of_lt hTT)
    · rw [(tl j D (by omega) hD).1]
  · intro j D hD
    by_cases hlt : j < s.demes.length
    · obtain ⟨D', hD', hc⟩ := pw j _ (List.getElem?_eq_getElem hlt)
      rw [hD] at hD'
      cases hD'
      rcases hc with rfl | ⟨_, _, _, hs'⟩
      · rcases h.stLe j _ (List.getElem?_eq_getElem hlt) with h1 | ⟨t, h1, h2⟩
        · exact Or.inl h1
        · exact Or.inr ⟨t, h1, Rat.le_trans h2 (Rat.le_of_lt hTT)⟩
      · rcases hs' with hs' | hs'
        · exact Or.inl hs'
        · exact Or.inr ⟨T', hs', Rat.le_refl⟩
    · rcases (tl j D (by omega) hD).2 with hs' | hs'
      · exact Or.inl hs'
      · exact Or.inr ⟨T', hs', Rat.le_refl⟩

/-! ## the times of the groups increase strictly -/

/-- the next group is later than the previous one (the first one: not before time 0) -/
def PrevLt : Option Q → Q → Prop
  | none, T' => 0 ≤ T'
  | some T, T' => T < T'

def TimesOK2 (N0 : Q) : Option Q → List (List Cmd) → Prop
  | _, [] => True
  | prev, g :: rest => ∃ T', PrevLt prev T' ∧ (∀ c ∈ g, 4 * N0 * c.t = T') ∧ TimesOK2 N0 (some T') rest

theorem timesOK2_of_sorted {N0 : Q} (hN : 0 < N0) : ∀ (K : List (List Cmd)) (prev : Option Q),
    (∀ g ∈ K, g ≠ [] ∧ ∀ x ∈ g, ∀ y ∈ g, x.t = y.t) → K.flatten.Pairwise (fun a b => a.t ≤ b.t) →
    K.IsChain (fun a b => ∃ ha hb, ((a.getLast ha).t == (b.head hb).t) = false) →
    (∀ g, K.head? = some g → ∀ c ∈ g, PrevLt prev (4 * N0 * c.t)) →
    TimesOK2 N0 prev K := by
  intro K
  induction K with
  | nil => intro prev _ _ _ _; trivial
  | cons g rest ih =>
    intro prev hK hp hch hhead
    obtain ⟨hne, hconst⟩ := hK g (List.mem_cons_self ..)
    cases g with
    | nil => exact absurd rfl hne
    | cons c0 g0 =>
      have h4 : (0 : Q) < 4 * N0 := by linarith
      refine ⟨4 * N0 * c0.t, ?_, ?_, ?_⟩
      · exact hhead _ rfl c0 (List.mem_cons_self ..)
      · intro c hc
        rw [hconst c hc c0 (List.mem_cons_self ..)]
      · rw [List.flatten_cons, List.pairwise_append] at hp
        apply ih (some (4 * N0 * c0.t)) (fun g' hg' => hK g' (List.mem_cons_of_mem _ hg')) hp.2.1
        · cases rest with
          | nil => exact List.isChain_nil
          | cons b rest' => exact (List.isChain_cons_cons.mp hch).2
        · intro b hb c hc
          cases rest with
          | nil => cases hb
          | cons b' rest' =>
            simp only [List.head?_cons, Option.some.injEq] at hb
            subst hb
            obtain ⟨ha, hb', hne'⟩ := (List.isChain_cons_cons.mp hch).1
            obtain ⟨_, hconstb⟩ := hK b' (List.mem_cons_of_mem _ (List.mem_cons_self ..))
            have e1 : ((c0 :: g0).getLast ha).t = c0.t :=
              hconst _ (List.getLast_mem ha) c0 (List.mem_cons_self ..)
            have e2 : (b'.head hb').t = c.t := hconstb _ (List.head_mem hb') c hc
            have hneq : c0.t ≠ c.t := by
              rw [e1, e2] at hne'
              simpa using hne'
            have hle : c0.t ≤ c.t :=
              hp.2.2 c0 (List.mem_cons_self ..) c (List.mem_flatten.mpr ⟨b', List.mem_cons_self .., hc⟩)
            have hlt : c0.t < c.t := lt_of_le_of_ne hle hneq
            show 4 * N0 * c0.t < 4 * N0 * c.t
            exact (Rat.mul_lt_mul_left h4).mpr hlt

/-! ## bookkeeping for one group -/

theorem cmd_kind {e : Event Num} (h : HasCmd e) :
    isSplitC (cmdOfD e) = isSplit e ∧ isMove (cmdOfD e) = (isSplit e || isJoinEv e) := by
  unfold HasCmd at h
  cases e with
  | growthRateChange o t alpha => obtain ⟨_, _, _, _, e⟩ := cmdOf_growthAll h; rw [e]; exact ⟨rfl, rfl⟩
  | popGrowthRateChange o t i alpha => obtain ⟨_, _, _, _, e⟩ := cmdOf_growth h; rw [e]; exact ⟨rfl, rfl⟩
  | sizeChange o t x => obtain ⟨_, _, _, _, e⟩ := cmdOf_sizeAll h; rw [e]; exact ⟨rfl, rfl⟩
  | popSizeChange o t i x => obtain ⟨_, _, _, _, e⟩ := cmdOf_size h; rw [e]; exact ⟨rfl, rfl⟩
  | migRateChange o t x => obtain ⟨_, _, _, _, e⟩ := cmdOf_migAll h; rw [e]; exact ⟨rfl, rfl⟩
  | migEntryChange o t i j r => obtain ⟨_, _, _, _, e⟩ := cmdOf_migEntry h; rw [e]; exact ⟨rfl, rfl⟩
  | migMatrixChange o t npop mm => obtain ⟨_, _, e⟩ := cmdOf_migMatrix h; rw [e]; exact ⟨rfl, rfl⟩
  | split o t i p => obtain ⟨_, _, _, _, e⟩ := cmdOf_split h; rw [e]; exact ⟨rfl, rfl⟩
  | join o t i j => obtain ⟨_, _, e⟩ := cmdOf_join h; rw [e]; exact ⟨rfl, rfl⟩

theorem stepEvent_numDemes {N0 time : Q} {s s' : BState} {g g' : GState} {ev : Event Num}
    (hm : stepEvent N0 time (s, g) ev = .ok (s', g')) :
    s'.numDemes = s.numDemes + (if isSplit ev then 1 else 0) := by
  by_cases hsp : isSplit ev = true
  · cases ev with
    | split o t i p =>
      rw [stepEvent_split] at hm
      obtain ⟨pid, _, hm⟩ := RV.bind_ok.1 hm
      obtain ⟨a', _, hm⟩ := RV.bind_ok.1 hm
      split at hm
      · exact (assertionErr_bind_ok.1 hm).elim
      · cases hm; rfl
    | _ => cases hsp
  · have hsp' : isSplit ev = false := by simpa using hsp
    rw [hsp']
    by_cases hj : isJoinEv ev = true
    · cases ev with
      | join o t i j =>
        rw [stepEvent_join] at hm
        obtain ⟨popI, _, hm⟩ := RV.bind_ok.1 hm
        obtain ⟨popJ, _, hm⟩ := RV.bind_ok.1 hm
        obtain ⟨s1, h1, hm⟩ := RV.bind_ok.1 hm
        cases hm
        obtain ⟨_, _, _, _, rfl⟩ := modifyDeme_ok h1
        show (joinMatrix _ time popI).numDemes = _
        rw [(joinMatrix_frame _ time popI).2.1]; rfl
      | _ => cases hj
    · exact (stepEvent_nonmove hsp' (by simpa using hj) hm).2

theorem events_numDemes {N0 time : Q} : ∀ (evs : List (Event Num)) {s s' : BState} {g g' : GState},
    evs.foldlM (stepEvent N0 time) (s, g) = .ok (s', g') →
    s'.numDemes = s.numDemes + (evs.filter isSplit).length := by
  intro evs
  induction evs with
  | nil => intro s s' g g' h; cases h; rfl
  | cons e evs ih =>
    intro s s' g g' h
    rw [List.foldlM_cons] at h
    obtain ⟨⟨s1, g1⟩, h1, h⟩ := RV.bind_ok.1 h
    rw [ih h, stepEvent_numDemes h1]
    by_cases hs : isSplit e = true
    · rw [List.filter_cons_of_pos hs]; simp [hs]; omega
    · rw [List.filter_cons_of_neg hs]; simp [hs]

theorem splits_cmd (evs : List (Event Num)) (hall : ∀ e ∈ evs, HasCmd e) :
    ((evs.map cmdOfD).filter isSplitC).length = (evs.filter isSplit).length := by
  induction evs with
  | nil => rfl
  | cons e evs ih =>
    have he := (cmd_kind (hall e (List.mem_cons_self ..))).1
    have := ih (fun x hx => hall x (List.mem_cons_of_mem _ hx))
    by_cases hs : isSplit e = true
    · rw [List.map_cons, List.filter_cons_of_pos (by rw [he]; exact hs), List.filter_cons_of_pos hs]
      simp [this]
    · rw [List.map_cons, List.filter_cons_of_neg (by rw [he]; exact hs), List.filter_cons_of_neg hs]
      exact this

/-- the Builder's `stepGroup`, unfolded -/
theorem stepGroup_ok {N0 : Q} {s s' : BState} {evs : List (Event Num)} (h : Ms.stepGroup N0 s evs = .ok s') :
    ∃ t s1 g1, finArg "t" ((evs.head?.map Event.t).getD (.fin 0)) = .ok t ∧
      evs.foldlM (stepEvent N0 (4 * N0 * t)) (s, { lm := initLm s evs, params := [] }) = .ok (s1, g1) ∧
      s' = applyParams (4 * N0 * t) s1 g1 := by
  unfold Ms.stepGroup at h
  obtain ⟨t, ht, h⟩ := RV.bind_ok.1 h
  dsimp only at h
  obtain ⟨⟨s1, g1⟩, hfold, h⟩ := RV.bind_ok.1 h
  cases h
  exact ⟨t, s1, g1, ht, hfold, rfl⟩

/-! ## one group, then all groups -/

theorem head_time {N0 T' : Q} {evs : List (Event Num)} (hall : ∀ e ∈ evs, HasCmd e) (hne : evs ≠ [])
    (htime : ∀ e ∈ evs, 4 * N0 * (cmdOfD e).t = T') :
    (∀ t, finArg "t" ((evs.head?.map Event.t).getD (.fin 0)) = .ok t → 4 * N0 * t = T')
    ∧ 4 * N0 * (((evs.map cmdOfD).head?.map Cmd.t).getD 0) = T' := by
  cases evs with
  | nil => exact absurd rfl hne
  | cons e r =>
    have he := hall e (List.mem_cons_self ..)
    have := cmdOf_t he
    constructor
    · intro t ht
      simp only [List.head?_cons, Option.map_some, Option.getD_some, this] at ht
      cases finArg_ok ht
      exact htime e (List.mem_cons_self ..)
    · simp only [List.map_cons, List.head?_cons, Option.map_some, Option.getD_some]
      exact htime e (List.mem_cons_self ..)

theorem group_movesInv {N0 : Q} (hN : 0 < N0) {prev : Option Q} {T' : Q} {s s' : BState} {σ σ' : St}
    {evs : List (Event Num)}
    (hsim : Sim2 N0 (prev.getD 0) s σ) (hinv : MovesInv (prev.getD 0) s σ) (hnames : NameInv s)
    (hall : ∀ e ∈ evs, HasCmd e) (hne : evs ≠ []) (htime : ∀ e ∈ evs, 4 * N0 * (cmdOfD e).t = T')
    (hprev : PrevLt prev T')
    (hgood : GoodGroup s.numDemes (evs.map cmdOfD) = true)
    (hm : Ms.stepGroup N0 s evs = .ok s') (hs : Spec.MsSem.stepGroup N0 σ (evs.map cmdOfD) = .ok σ') :
    Sim2 N0 T' s' σ' ∧ MovesInv T' s' σ' ∧ NameInv s'
      ∧ s'.numDemes = s.numDemes + ((evs.map cmdOfD).filter isSplitC).length := by
  have hle : prev.getD 0 ≤ T' := by
    cases prev with
    | none => exact hprev
    | some T => exact Rat.le_of_lt hprev
  have hsim' := stepGroup_inv (sim2_inv N0) hsim hle hall htime hm hs
  have hnames' := stepGroup_names hnames hm
  obtain ⟨t, s1, g1, ht, hfold, rfl⟩ := stepGroup_ok hm
  obtain ⟨ht1, ht2⟩ := head_time hall hne htime
  have htT := ht1 t ht
  rw [htT] at hfold hsim' hnames' ⊢
  obtain ⟨σ1, L1, hsfold, hmoves⟩ := stepGroup_moves hs
  rw [ht2] at hmoves
  have hnum : (applyParams T' s1 g1).numDemes = s.numDemes + ((evs.map cmdOfD).filter isSplitC).length := by
    rw [(applyParams_frame T' s1 g1).2, events_numDemes evs hfold, splits_cmd evs hall]
  refine ⟨hsim', ?_, hnames', hnum⟩
  by_cases hmv : (evs.map cmdOfD).any isMove = true
  · -- the group moves lineages
    have hTT : prev.getD 0 < T' := by
      cases prev with
      | some T => exact hprev
      | none =>
        rw [List.any_eq_true] at hmv
        obtain ⟨c, hc, hcm⟩ := hmv
        unfold GoodGroup at hgood
        simp only [Bool.and_eq_true, List.all_eq_true, decide_eq_true_eq] at hgood
        have hpos := hgood.2 c (List.mem_filter.mpr ⟨hc, hcm⟩)
        obtain ⟨e, he, rfl⟩ := List.mem_map.mp hc
        rw [← htime e he]
        show (0 : Q) < 4 * N0 * (cmdOfD e).t
        have h4 : (0 : Q) < 4 * N0 := by linarith
        exact Rat.mul_pos h4 hpos
    obtain ⟨_, he⟩ := group_end hsim.1 hle hall htime hfold hsfold hgood hnames
    have hjs := events_joined evs hsim.1 hle hall htime hfold hsfold
    apply movesInv_move hinv hTT hsim.1 he hnames (fun j hj => (hjs.2 j hj).2)
    rw [hmoves, hmv]
    simp only [Bool.true_and]
  · -- no `-es` / `-ej` in the group
    have hmv' : (evs.map cmdOfD).any isMove = false := by simpa using hmv
    have hnm : ∀ e ∈ evs, isSplit e = false ∧ isJoinEv e = false := by
      intro e he
      have h1 : isMove (cmdOfD e) = false := by
        rw [List.any_eq_false] at hmv'
        simpa using hmv' (cmdOfD e) (List.mem_map.mpr ⟨e, he, rfl⟩)
      rw [(cmd_kind (hall e he)).2] at h1
      simpa using h1
    obtain ⟨e1, e2, e3, e4⟩ := events_nonmove evs hnm hfold
    have hap : applyParams T' s1 g1 = s1 := by
      rw [applyParams_eq, e1]; rfl
    rw [hap]
    apply movesInv_nonmove hinv hle e2 e3 e4
    rw [hmoves, hmv']
    simp

theorem groups_movesInv {N0 : Q} (hN : 0 < N0) : ∀ (groups : List (List (Event Num))) (prev : Option Q)
    {s s' : BState} {σ σ' : St},
    Sim2 N0 (prev.getD 0) s σ → MovesInv (prev.getD 0) s σ → NameInv s →
    (∀ g ∈ groups, g ≠ [] ∧ ∀ e ∈ g, HasCmd e) → TimesOK2 N0 prev (groups.map (List.map cmdOfD)) →
    goodGroups s.numDemes (groups.map (List.map cmdOfD)) = true →
    groups.foldlM (Ms.stepGroup N0) s = .ok s' →
    (groups.map (List.map cmdOfD)).foldlM (Spec.MsSem.stepGroup N0) σ = .ok σ' →
    ∃ T, MovesInv T s' σ' ∧ NameInv s' := by
  intro groups
  induction groups with
  | nil =>
    intro prev s s' σ σ' _ hinv hn _ _ _ hm hs
    cases hm
    cases hs
    exact ⟨_, hinv, hn⟩
  | cons g rest ih =>
    intro prev s s' σ σ' hsim hinv hn hall ht hgood hm hs
    rw [List.foldlM_cons] at hm
    obtain ⟨s1, h1, hm⟩ := RV.bind_ok.1 hm
    rw [List.map_cons, List.foldlM_cons] at hs
    obtain ⟨σ1, hs1, hs⟩ := sbind_ok.1 hs
    obtain ⟨T', hprev, htg, hrest⟩ := ht
    obtain ⟨hne, hcmd⟩ := hall g (List.mem_cons_self ..)
    rw [List.map_cons] at hgood
    simp only [goodGroups, Bool.and_eq_true] at hgood
    obtain ⟨a1, a2, a3, a4⟩ := group_movesInv hN hsim hinv hn hcmd hne
      (fun e he => htg _ (List.mem_map.mpr ⟨e, he, rfl⟩)) hprev hgood.1 h1 hs1
    exact ih (some T') a1 a2 a3 (fun g' hg' => hall g' (List.mem_cons_of_mem _ hg')) hrest
      (by rw [a4]; exact hgood.2) hm hs

/-! ## the whole event loop -/

theorem initial_movesInv (args : Args) (pr : Parsed) (N0 : Q) : MovesInv 0 (initState args N0) (initSt pr N0) := by
  have hd : ∀ (j : Nat) (d : BDeme), (initState args N0).demes[j]? = some d →
      d.startTime = .inf ∧ bEndTime d = 0 := by
    intro j d hd
    unfold initState at hd
    simp only [List.getElem?_map] at hd
    cases hr : (List.range (initPop args).1)[j]? with
    | none => rw [hr] at hd; cases hd
    | some k => rw [hr] at hd; cases hd; exact ⟨rfl, rfl⟩
  refine ⟨Rat.le_refl, List.Pairwise.nil, ?_, ?_, ?_, ?_⟩
  · intro m hm; cases hm
  · intro T0 hev
    rcases hev with ⟨p, hp, _⟩ | ⟨d, hd', _, hs⟩
    · cases hp
    · obtain ⟨j, hj⟩ := List.mem_iff_getElem?.mp hd'
      rw [(hd j d hj).1] at hs
      cases hs
  · intro j d hj
    rw [(hd j d hj).2]
  · intro j d hj
    exact Or.inl (hd j d hj).1

/-- **the event loop, as far as lineage movements are concerned**: on the fragment `Tame'`, at the end
of the event loop the movements the interpreter has recorded are those `groupMoves` reads off the
Builder state, and nothing else in the Builder state reads back as a movement -/
theorem buildState_movesInv {args : Args} {pr : Parsed} {N0 : Q} {s : BState} {σ : St}
    (ha : ArgsAgree args pr) (ht : Tame' pr = true)
    (hm : buildState args N0 = .ok s) (hs : runState pr N0 = .ok σ) : ∃ T, MovesInv T s σ ∧ NameInv s := by
  unfold buildState at hm
  split at hm
  · exact (RV.valueErr_bind_ok.1 hm).elim
  rename_i hN
  have hN : 0 < N0 := by grind
  obtain ⟨_, _, hm⟩ := RV.bind_ok.1 hm
  obtain ⟨hi1, hi2⟩ := agree_list _ _ ha.initial
  obtain ⟨he1, he2⟩ := agree_list _ _ ha.events
  have hall : ∀ e ∈ args.initialState ++ sortBy (fun a b => Num.le a.t b.t) args.demographicEvents, HasCmd e := by
    intro e he
    rcases List.mem_append.mp he with he | he
    · exact hi2 e he
    · exact he2 e ((sortBy_mem _ _ _).mp he)
  have hgroups : cmdGroups pr = (eventGroups args).map (List.map cmdOfD) := by
    unfold cmdGroups eventGroups
    rw [hi1, he1, ← sortBy_cmd _ he2, ← List.map_append]
    exact splitBy_map cmdOfD sameT (fun a b => a.t == b.t) HasCmd (fun x y hx hy => sameT_cmd hx hy) _ hall
  unfold runState at hs
  rw [hgroups] at hs
  have hnum : (initState args N0).numDemes = pr.npop := by
    show (initPop args).1 = _
    rw [initPop_fst]; exact ha.npop
  refine groups_movesInv hN (eventGroups args) none
    ⟨initial_sizeSim args pr N0 ha, initial_migSim args pr N0 ha⟩ (initial_movesInv args pr N0)
    (initState_names args N0) ?_ ?_ ?_ hm hs
  · intro g hg
    refine ⟨List.ne_nil_of_mem_splitBy hg, ?_⟩
    intro e he
    apply hall
    have : e ∈ (eventGroups args).flatten := List.mem_flatten.mpr ⟨g, hg, he⟩
    unfold eventGroups at this
    rwa [List.flatten_splitBy] at this
  · rw [← hgroups]
    unfold cmdGroups
    have hnn : ∀ c ∈ pr.initial ++ pr.events.foldr insertCmd [], 0 ≤ c.t := by
      intro c hc
      rcases List.mem_append.mp hc with hc | hc
      · rw [ha.initial0 c hc]
      · exact ha.nonneg c (sortCmd_mem _ _ hc)
    apply timesOK2_of_sorted hN _ none (splitBy_const _)
    · rw [List.flatten_splitBy, List.pairwise_append]
      refine ⟨?_, sortCmd_sorted _, ?_⟩
      · apply List.pairwise_of_forall_mem_list
        intro a ha' b hb'
        rw [ha.initial0 a ha', ha.initial0 b hb']
      · intro a ha' b hb'
        rw [ha.initial0 a ha']
        exact ha.nonneg b (sortCmd_mem _ _ hb')
    · exact List.isChain_getLast_head_splitBy (fun (a b : Cmd) => a.t == b.t) _
    · intro g hg c hc
      have hcm : c ∈ ((pr.initial ++ pr.events.foldr insertCmd []).splitBy (fun a b => a.t == b.t)).flatten := by
        cases hsp : (pr.initial ++ pr.events.foldr insertCmd []).splitBy (fun a b => a.t == b.t) with
        | nil => rw [hsp] at hg; cases hg
        | cons g' rest =>
          rw [hsp] at hg
          simp only [List.head?_cons, Option.some.injEq] at hg
          subst hg
          exact List.mem_flatten.mpr ⟨g', List.mem_cons_self .., hc⟩
      rw [List.flatten_splitBy] at hcm
      have h4 : (0 : Q) ≤ 4 * N0 := by linarith
      show (0 : Q) ≤ 4 * N0 * c.t
      exact Rat.mul_nonneg h4 (hnn c hcm)
  · rw [← hgroups, hnum]
    exact ht

end Demes.Proofs.FromMs
