/-
  C08: the observable of a valid graph exists as soon as every deme has a population number.
  Hence `resultSem` of every graph `from_ms` returns exists.
-/
import DemesVerif.Proofs.FromMsPostSem
namespace Demes.Proofs.FromMs
open Demes Demes.Ms Demes.Spec Demes.Spec.MsSem Demes.Spec.C08

theorem sbind_error {α β} {x : Except String α} {f : α → Except String β} {e : String}
    (h : (x >>= f) = .error e) : x = .error e ∨ ∃ a, x = .ok a ∧ f a = .error e := by
  cases x with
  | error e' =>
    left
    have : (Except.error e' >>= f) = Except.error e' := rfl
    rw [this] at h
    injection h with h
    rw [h]
  | ok a => exact Or.inr ⟨a, rfl, h⟩

theorem smapM_error {α β} {f : α → Except String β} {e : String} : ∀ {l : List α},
    l.mapM f = .error e → ∃ x ∈ l, f x = .error e
  | [], h => by cases h
  | a :: l, h => by
    rw [List.mapM_cons] at h
    rcases sbind_error h with h | ⟨y, _, h⟩
    · exact ⟨a, List.mem_cons_self .., h⟩
    · rcases sbind_error h with h | ⟨ys, _, h⟩
      · obtain ⟨x, hx, hfx⟩ := smapM_error h
        exact ⟨x, List.mem_cons_of_mem _ hx, hfx⟩
      · cases h

theorem sfoldlM_error {σ α} {f : σ → α → Except String σ} {e : String} : ∀ {l : List α} {s : σ},
    l.foldlM f s = .error e → ∃ s' x, x ∈ l ∧ f s' x = .error e
  | [], s, h => by cases h
  | a :: l, s, h => by
    rw [List.foldlM_cons] at h
    rcases sbind_error h with h | ⟨s1, _, h⟩
    · exact ⟨s, a, List.mem_cons_self .., h⟩
    · obtain ⟨s', x, hx, hfx⟩ := sfoldlM_error h
      exact ⟨s', x, List.mem_cons_of_mem _ hx, hfx⟩

theorem findDeme_name {g : Graph} {nm : String} {d : Deme} (h : findDeme g nm = some d) : d ∈ g.demes ∧ d.name = nm := by
  unfold findDeme at h
  exact ⟨List.mem_of_find?_eq_some h, by simpa using List.find?_some h⟩

/-- **the observable of a valid graph exists** when every deme has a population number -/
theorem graphSemWith_total {sz : Q → Sz} {g : Graph} {names : List String} (hv : validGraph g = true)
    (hnames : ∀ d ∈ g.demes, ∃ k, popId names d.name = .ok k) : ∃ D, graphSemWith sz g (some names) = .ok D := by
  obtain ⟨_, _, _, h3, _, _, _, h8, _, _, h11, _, _⟩ := validGraph_clauses hv
  have hfind : ∀ nm d, findDeme g nm = some d → ∀ e, popId names nm ≠ .error e := by
    intro nm d hd e he
    obtain ⟨hm, hn⟩ := findDeme_name hd
    obtain ⟨k, hk⟩ := hnames d hm
    rw [hn, he] at hk
    cases hk
  have hmig : ∀ m ∈ g.migrations, ∀ e, popId names m.source ≠ .error e ∧ popId names m.dest ≠ .error e := by
    intro m hm e
    unfold v8 at h8
    have := List.all_eq_true.mp h8 m hm
    simp only [Bool.and_eq_true] at this
    have h2 := this.2
    cases hs : findDeme g m.source with
    | none => rw [hs] at h2; cases h2
    | some sd =>
      cases hd : findDeme g m.dest with
      | none => rw [hs, hd] at h2; cases h2
      | some dd => exact ⟨hfind _ _ hs e, hfind _ _ hd e⟩
  have hpulse : ∀ p ∈ g.pulses, ∀ e, popId names p.dest ≠ .error e ∧ ∀ s ∈ p.sources, popId names s ≠ .error e := by
    intro p hp e
    unfold v11 at h11
    have := List.all_eq_true.mp h11 p hp
    simp only [Bool.and_eq_true] at this
    have h2 := this.2
    cases hd : findDeme g p.dest with
    | none => rw [hd] at h2; cases h2
    | some dd =>
      rw [hd] at h2
      simp only [Bool.and_eq_true, List.all_eq_true] at h2
      refine ⟨hfind _ _ hd e, ?_⟩
      intro s hs
      have h3' := h2.2 s hs
      cases hsd : findDeme g s with
      | none => rw [hsd] at h3'; cases h3'
      | some sd => exact hfind _ _ hsd e
  have hanc : ∀ d ∈ g.demes, ∀ a ∈ d.ancestors, ∀ e, popId names a ≠ .error e := by
    intro d hd a ha e
    unfold v3 at h3
    have := List.all_eq_true.mp h3 d hd
    simp only [Bool.and_eq_true, List.all_eq_true] at this
    have h2 := this.1.1 a ha
    cases hf : findDeme g a with
    | none => rw [hf] at h2; cases h2
    | some anc => exact hfind _ _ hf e
  have hdeme : ∀ d ∈ g.demes, ∀ e, popId names d.name ≠ .error e := by
    intro d hd e he
    obtain ⟨k, hk⟩ := hnames d hd
    rw [he] at hk
    cases hk
  cases hres : graphSemWith sz g (some names) with
  | ok D => exact ⟨D, rfl⟩
  | error e =>
    exfalso
    unfold graphSemWith at hres
    simp only [Option.getD_some] at hres
    rcases sbind_error hres with h | ⟨pops, _, hres⟩
    · obtain ⟨d, hd, h⟩ := smapM_error h
      rcases sbind_error h with h | ⟨_, _, h⟩
      · exact hdeme d hd e h
      · cases h
    rcases sbind_error hres with h | ⟨raw, _, hres⟩
    · obtain ⟨m, hm, h⟩ := smapM_error h
      rcases sbind_error h with h | ⟨_, _, h⟩
      · exact (hmig m hm e).2 h
      · rcases sbind_error h with h | ⟨_, _, h⟩
        · exact (hmig m hm e).1 h
        · cases h
    rcases sbind_error hres with h | ⟨moves, _, hres⟩
    · obtain ⟨T, _, h⟩ := smapM_error h
      rcases sbind_error h with h | ⟨L0, _, h⟩
      · obtain ⟨d, hd, h⟩ := smapM_error h
        rcases sbind_error h with h | ⟨_, _, h⟩
        · exact hdeme d (List.mem_filter.mp hd).1 e h
        · cases h
      rcases sbind_error h with h | ⟨L1, _, h⟩
      · obtain ⟨L, p, hp, h⟩ := sfoldlM_error h
        have hp' : p ∈ g.pulses := (List.mem_filter.mp (List.mem_reverse.mp hp)).1
        rcases sbind_error h with h | ⟨_, _, h⟩
        · exact (hpulse p hp' e).1 h
        rcases sbind_error h with h | ⟨_, _, h⟩
        · obtain ⟨s, hs, h⟩ := smapM_error h
          exact (hpulse p hp' e).2 s hs h
        · cases h
      rcases sbind_error h with h | ⟨L2, _, h⟩
      · obtain ⟨L, d, hd, h⟩ := sfoldlM_error h
        have hd' : d ∈ g.demes := (List.mem_filter.mp hd).1
        rcases sbind_error h with h | ⟨_, _, h⟩
        · exact hdeme d hd' e h
        rcases sbind_error h with h | ⟨_, _, h⟩
        · obtain ⟨a, ha, h⟩ := smapM_error h
          exact hanc d hd' a ha e h
        · cases h
      · cases h
    · cases hres

/-- **the observable of every graph `from_ms` returns exists** -/
theorem resultSem_total {c : List String} {N0 : Q} {mg : MsGraph} (h : fromMs c N0 none = .ok mg) :
    ∃ rs, resultSem mg = .ok rs := by
  obtain ⟨ks, ds, hks, _, _, hn, hperm⟩ := fromMs_deme_k_is_population_k h
  apply graphSemWith_total (fromMs_valid h)
  intro d hd
  have : d.name ∈ ks.map Ms.demeName := hperm.mem_iff.mp (List.mem_map.mpr ⟨d, hd, rfl⟩)
  obtain ⟨k, hk, hkn⟩ := List.mem_map.mp this
  have hk' : k < mg.doc.numPops := List.mem_range.mp (hks.subset hk)
  exact ⟨k + 1, by rw [← hkn]; exact popId_popNames hk'⟩


/-- **(5) sizes and migrations, with existence.**  Whenever `from_ms` returns a graph, the command
has a meaning and the two parsers agree on it: the graph has an observable, and its populations
(lifetimes; sizes and growth rates at every cut point) and its migration step function are those
of the command — for every command, tame or not (the known findings concern lineage movements
only; F4 is a rejection). -/
theorem fromMs_sizes_migs_sem_total {c : List String} {N0 : Q} {mg : MsGraph} {sem : DemogSem}
    (h : fromMs c N0 none = .ok mg) (hsem : msSem c N0 = .ok sem) (hp : parsersAgree c = true) :
    ∃ rs, resultSem mg = .ok rs ∧ semEquivSizesMigs sem rs = true := by
  obtain ⟨rs, hrs⟩ := resultSem_total h
  exact ⟨rs, hrs, fromMs_sizes_migs_sem h hsem hp hrs⟩

/-- every deme of the document `from_ms` hands to `resolve` has closed epochs: strictly decreasing
end times, no `growth_rate`, a `start_size` sharing the coefficient of the `end_size` -/
theorem fromMs_doc_closed {c : List String} {N0 : Q} {mg : MsGraph} (h : fromMs c N0 none = .ok mg) :
    ∀ d ∈ mg.doc.demes, EpochsClosed d.epochs := by
  obtain ⟨args, s, _, hs, hf⟩ := fromMs_buildState h
  obtain ⟨demes1, migs0, doc1, hd1, _, hrt, hmgdoc⟩ := finishDoc_ok hf
  have binv := buildState_binv hs
  obtain ⟨hl1, hi1⟩ := mapM_pointwise hd1
  obtain ⟨hsub, _⟩ := removeTransientDemes_ok hrt
  intro d hd
  rw [hmgdoc] at hd
  have hd1' : d ∈ doc1.demes := (sortBy_perm _ doc1.demes).mem_iff.mp hd
  have hd2 : d ∈ demes1 := hsub.subset hd1'
  obtain ⟨k, hk, hdk⟩ := List.mem_iff_getElem.mp hd2
  have hk' : k < s.demes.length := by rw [← hl1]; exact hk
  obtain ⟨d', hd', hf'⟩ := hi1 k s.demes[k] (List.getElem?_eq_getElem hk')
  rw [List.getElem?_eq_getElem hk, hdk] at hd'
  injection hd' with hd'
  subst hd'
  exact (finaliseGrowth_closed hf' (binv.demes _ (List.getElem_mem hk'))).1

/-- **(4) reading the resolved graph back.**  The document `from_ms` assembles is explicit, so
`resolve` infers nothing: the graph's demes are the document's, position by position, with the
document's name, start time and epochs (`epochsOf`: the document's end times and sizes, start times
chained, `size_function` constant iff the two sizes are equal); the graph's migrations are the
document's, with their bounds and (finite) rates; and the symbolic sizes come back through the
placeholder table: `mg.size` of a stored size is the `Sz` of the document, so the segments
`graphSem` shows for a deme are `gsegs` of the document's epochs. -/
theorem resolve_readback_sizes_migs {c : List String} {N0 : Q} {mg : MsGraph} (h : fromMs c N0 none = .ok mg) :
    mg.graph.demes.length = mg.doc.demes.length ∧
    (∀ (i : Nat) (d : BDeme) (D : Deme), mg.doc.demes[i]? = some d → mg.graph.demes[i]? = some D →
        D.name = d.name ∧ D.startTime = d.startTime ∧ D.epochs = epochsOf mg.table d.startTime d.epochs
        ∧ (∀ e ∈ d.epochs, mg.size (szToQ mg.table e.endSize) = e.endSize
            ∧ mg.size (szToQ mg.table (e.startSize.getD e.endSize)) = e.startSize.getD e.endSize)
        ∧ D.epochs.map (epSeg mg.size) = gsegs d.startTime d.epochs) ∧
    mg.graph.migrations.length = mg.doc.migrations.length ∧
    (∀ (i : Nat) (m : BMigration) (M : Migration), mg.doc.migrations[i]? = some m → mg.graph.migrations[i]? = some M →
        M.source = m.source ∧ M.dest = m.dest ∧ M.startTime = m.startTime ∧ M.endTime = m.endTime
        ∧ m.rate = Num.fin M.rate) := by
  obtain ⟨args, _, hb⟩ := fromMs_none_ok h
  obtain ⟨_, htab, hres⟩ := buildGraph_ok hb
  have hcl := fromMs_doc_closed h
  obtain ⟨r1, r2, r3, r4⟩ := resolve_doc_readback hres
    (fun d hd e he' => by
      obtain ⟨z, hz, _⟩ := ((hcl d hd).all e he').ss
      rw [hz]; rfl)
    (fun d hd e he' => ((hcl d hd).all e he').gr)
  refine ⟨r1, ?_, r3, r4⟩
  intro i d D hd hD
  obtain ⟨a1, a2, a3⟩ := r2 i d D hd hD
  have hdm : d ∈ mg.doc.demes := List.mem_of_getElem? hd
  have hdecode : ∀ e ∈ d.epochs, mg.size (szToQ mg.table e.endSize) = e.endSize
      ∧ mg.size (szToQ mg.table (e.startSize.getD e.endSize)) = e.startSize.getD e.endSize := by
    intro e he'
    obtain ⟨m1, m2⟩ := mem_sizes hdm he'
    unfold MsGraph.size
    rw [htab]
    exact ⟨placeholders_roundtrip _ _ m1, placeholders_roundtrip _ _ m2⟩
  refine ⟨a1, a2, a3, hdecode, ?_⟩
  rw [a3]
  exact epochsOf_segs d.epochs d.startTime hdecode

end Demes.Proofs.FromMs
