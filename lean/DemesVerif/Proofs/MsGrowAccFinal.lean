/-
  C09 §8 — acceptance of the `to_ms` output by `from_ms` for graphs with exponential epochs, and the round
  trip without the acceptance hypothesis: assembly.

  parser (`MsGrowParse`, C08's `spec_accepts_model_accepts`) → event loop (`MsAccProgress`, general) → invariant of
  the event loop (`MsGrowAccInv`, with `MsGrowAccFrag` for the conditions on the time groups and `MsGrowAccMig`
  for the matrix history and the growth rates in force at the end) → migrations of the document (`MsAccDocMigs`,
  general) → `finishDoc`, the document and its validity (`MsGrowAccFinish`) → `resolve` (C03) → `from_ms`.
-/
import DemesVerif.Proofs.MsGrowCompose
import DemesVerif.Proofs.MsGrowExact
import DemesVerif.Proofs.MsGrowAccFrag
import DemesVerif.Proofs.MsGrowAccInv
import DemesVerif.Proofs.MsGrowAccMig
import DemesVerif.Proofs.MsGrowAccFinish
import DemesVerif.Proofs.MsAccFinal
namespace Demes.Proofs.MsGrow
open Demes Demes.Ms Demes.Spec Demes.Spec.C07 Demes.Spec.C09
open Demes.Spec.MsSem (parse msSem graphSem St)
open Demes.Spec.C08 (ArgsAgree runState Tame' PlainTokens resultSem semEquiv)
open Demes.Proofs.FromMs (buildState finishDoc NameInv)
open Demes.Proofs.ToMs (headerOf finalEvs clauses_of_valid expr_inGen)

/-- what the ms parser reads off the command `to_ms` prints for `g`, growth rates read through `sa` -/
abbrev prGV (sa : Growth → String) (g : Graph) (N0 : Q) (samples : Option (List Int)) : Demes.Spec.MsSem.Parsed :=
  prOfV (growthVal sa) (headerOf (inGenerations g) samples) (finalEvs (inGenerations g) N0)

/-- **Layer 1 (parser and option validators)**: argparse accepts the printed command and reads what the parser of
the ms interpreter reads -/
theorem toMs_output_parsesV (c : NumCodec) (sa : Growth → String) {g : Graph} (hv : validGraph g = true)
    (hx : MsExpressible g = true) {N0 : Q} (hN : 0 < N0)
    {samples : Option (List Int)} (hs : samplesOk g samples = true) {toks : List (Tok Growth)}
    (htoks : toMs g N0 samples = .ok toks) (hc : CodecCovers c toks) (hsa : GrowthPrinter sa (epochGrowths g N0)) :
    ∃ args, parseKnownArgs (renderG c sa toks) = .ok args ∧ ArgsAgree args (prGV sa g N0 samples)
      ∧ parse (renderG c sa toks) = .ok (prGV sa g N0 samples) := by
  obtain ⟨_, _, b3, b4, _⟩ := toMs_bridgeV c sa hv hx hN hs htoks hc hsa
  obtain ⟨args, h1, h2⟩ := Demes.Proofs.FromMsParse.spec_accepts_model_accepts b3 b4
  exact ⟨args, h1, h2, b4⟩

/-- **Layer 2 (the event loop)** runs to its end on the arguments argparse reads off the printed command -/
theorem toMs_output_buildState_okV (c : NumCodec) (sa : Growth → String) {g : Graph} (hv : validGraph g = true)
    (hx : MsExpressible g = true) {N0 : Q} (hN : 0 < N0)
    {samples : Option (List Int)} (hs : samplesOk g samples = true) {toks : List (Tok Growth)}
    (htoks : toMs g N0 samples = .ok toks) (hc : CodecCovers c toks) (hsa : GrowthPrinter sa (epochGrowths g N0)) :
    ∃ args σ s, parseKnownArgs (renderG c sa toks) = .ok args ∧ ArgsAgree args (prGV sa g N0 samples)
      ∧ runState (prGV sa g N0 samples) N0 = .ok σ ∧ buildState args N0 = .ok s := by
  obtain ⟨args, h1, h2, _⟩ := toMs_output_parsesV c sa hv hx hN hs htoks hc hsa
  have cl := clauses_of_valid (InGen.inGenerations_valid g hv)
  have hx' : MsExpressible (inGenerations g) = true := by rw [expr_inGen]; exact hx
  obtain ⟨sG, h3, _⟩ := runState_finalEvsV cl hx' hN (growthVal sa) hsa.zero samples
  obtain ⟨s, h4⟩ := MsAcc.buildState_progress hN h2 h3
  exact ⟨args, _, s, h1, h2, h3, h4⟩

/-- **Layers 3 and 4 (after the event loop)**: the final state satisfies the invariants, `finishDoc` succeeds,
and `resolve` accepts its document (with the placeholder table of `build_graph`), returning a valid graph -/
theorem toMs_output_finishDoc_okV (c : NumCodec) (sa : Growth → String) {g : Graph} (hv : validGraph g = true)
    (hx : MsExpressible g = true) (hpt : PulsesTame g = true) {N0 : Q} (hN : 0 < N0)
    {samples : Option (List Int)} (hs : samplesOk g samples = true) {toks : List (Tok Growth)}
    (htoks : toMs g N0 samples = .ok toks) (hc : CodecCovers c toks) (hsa : GrowthPrinter sa (epochGrowths g N0)) :
    ∃ args s T doc, parseKnownArgs (renderG c sa toks) = .ok args ∧ buildState args N0 = .ok s
      ∧ AccInvV T s ∧ NameInv s ∧ MsAcc.MigWF N0 s ∧ GrowthClosed s
      ∧ finishDoc N0 s = .ok doc
      ∧ Demes.resolve (doc.toValue (placeholders doc)) = .ok (MsAcc.docGraph (placeholders doc) doc)
      ∧ validGraph (MsAcc.docGraph (placeholders doc) doc) = true := by
  obtain ⟨args, σ, s, hargs, ha, hσ, hb⟩ := toMs_output_buildState_okV c sa hv hx hN hs htoks hc hsa
  have ht : Tame' (prGV sa g N0 samples) = true := tame_toMsV (growthVal sa) hv hx hpt hN samples
  have hf := groupsFrag_toMsV (growthVal sa) hv hx hpt hN samples
  obtain ⟨T, hinv, hn⟩ := buildState_accInvV ha ht hf hb hσ
  have cl := clauses_of_valid (InGen.inGenerations_valid g hv)
  have hx' : MsExpressible (inGenerations g) = true := by rw [expr_inGen]; exact hx
  have hw : MsAcc.MigWF N0 s := migWF_finalEvsV cl hx' hN (growthVal sa) hsa.zero samples ha hb
  have hgc : GrowthClosed s := growthClosed_finalEvsV cl hx' hN (growthVal sa) hsa.zero ha hb
  obtain ⟨migs0, hm⟩ := MsAcc.addMigrations_ok hw hinv.pos _ rfl
  have hmw := MsAcc.docMigsWF_of_migWF hN hw hm
  obtain ⟨doc, hfin, hres, hvalid⟩ := finish_resolvesV hN hinv hn hgc hm hmw
  exact ⟨args, s, T, doc, hargs, hb, hinv, hn, hw, hgc, hfin, hres, hvalid⟩

/-- **Acceptance.**  `from_ms` accepts the command `to_ms` prints for every valid ms-expressible graph whose
pulses are tame (exponential epochs allowed), for every `N0 > 0`, well-formed `samples`, number codec that covers
the numbers of the command, and growth printer; the graph it returns is valid. -/
theorem ms_roundtrip_growth_accepts (c : NumCodec) (sa : Growth → String) {g : Graph} (hv : validGraph g = true)
    (hx : MsExpressible g = true) (hpt : PulsesTame g = true) {N0 : Q} (hN : 0 < N0)
    {samples : Option (List Int)} (hs : samplesOk g samples = true) {toks : List (Tok Growth)}
    (htoks : toMs g N0 samples = .ok toks) (hc : CodecCovers c toks) (hsa : GrowthPrinter sa (epochGrowths g N0)) :
    ∃ mg, fromMs (renderG c sa toks) N0 none = .ok mg ∧ mg.graph = MsAcc.docGraph mg.table mg.doc
      ∧ validGraph mg.graph = true := by
  obtain ⟨args, s, T, doc, hargs, hb, _, _, _, _, hfin, hres, hvalid⟩ :=
    toMs_output_finishDoc_okV c sa hv hx hpt hN hs htoks hc hsa
  exact ⟨_, MsAcc.fromMs_ok_of hargs hb hfin hres, rfl, hvalid⟩

/-- **Graph → ms → graph with exponential epochs**, exact ancestry proportions: `from_ms(to_ms(g, N0), N0)` returns
a graph `mg`; the printed command has a meaning `sem`, equivalent to the observable `rs` of `mg`; both are the
demography of `g` with every growth rate replaced by its printed value (`regrow`), hence the demography of `g`
itself up to the values of the growth rates (`SemRefinesUpToGrowth`). -/
theorem ms_roundtrip_growth_sem (c : NumCodec) (sa : Growth → String) {g : Graph} (hv : validGraph g = true)
    (hx : MsExpressible g = true) (hex : ExactProportions g = true) (hpt : PulsesTame g = true)
    {N0 : Q} (hN : 0 < N0) {samples : Option (List Int)} (hs : samplesOk g samples = true)
    {toks : List (Tok Growth)} (htoks : toMs g N0 samples = .ok toks) (hc : CodecCovers c toks)
    (hsa : GrowthPrinter sa (epochGrowths g N0)) :
    ∃ mg sem rs gs, fromMs (renderG c sa toks) N0 none = .ok mg
      ∧ msSem (renderG c sa toks) N0 = .ok sem ∧ resultSem mg = .ok rs
      ∧ graphSem (inGenerations g) none = .ok gs
      ∧ semEquiv sem rs = true
      ∧ SemRefines sem (regrow (growthVal sa) N0 gs) ∧ SemRefines rs (regrow (growthVal sa) N0 gs)
      ∧ SemRefinesUpToGrowth sem gs ∧ SemRefinesUpToGrowth rs gs := by
  obtain ⟨mg, hfrom, _⟩ := ms_roundtrip_growth_accepts c sa hv hx hpt hN hs htoks hc hsa
  obtain ⟨pr, hpr, ht⟩ := toMs_tameV c sa hv hx hpt hN hs htoks hc hsa
  obtain ⟨sem, rs, gs, h1, h2, h3, h4, h5, h6⟩ :=
    ms_roundtrip_growth_sem_partial c sa hv hx hex hN hs htoks hc hsa hfrom hpr ht
  have htiles := MsRT.Tr.graphSem_tiles (InGen.inGenerations_valid g hv)
    (show Demes.Spec.MsSem.graphSemWith Sz.ofQ (inGenerations g) none = .ok gs from h3)
  exact ⟨mg, sem, rs, gs, hfrom, h1, h2, h3, h4, h5, h6,
    semRefinesUpTo_of_regrow hsa.zero h5 htiles, semRefinesUpTo_of_regrow hsa.zero h6 htiles⟩

theorem epochGrowths_norm (g : Graph) (N0 : Q) : epochGrowths (normalizeProportions g) N0 = epochGrowths g N0 := by
  unfold epochGrowths
  show List.flatMap _ ((normalizeProportions g).demes.map (Deme.scale (normalizeProportions g).generationTime)) = _
  rw [ToMsNorm.norm_demes]
  show List.flatMap _ ((g.demes.map normDeme).map (Deme.scale g.generationTime))
    = List.flatMap _ (g.demes.map (Deme.scale g.generationTime))
  rw [List.map_map, List.flatMap_map, List.flatMap_map]
  rfl

/-- **Graph → ms → graph with exponential epochs, for every valid ms-expressible graph with tame pulses.**  No
hypothesis on the ancestry proportions: the comparison is with `normalizeProportions g` (`g` itself when its
ancestry proportions sum to exactly one), because `to_ms` renormalises. -/
theorem ms_roundtrip_growth_sem_all (c : NumCodec) (sa : Growth → String) {g : Graph} (hv : validGraph g = true)
    (hx : MsExpressible g = true) (hpt : PulsesTame g = true)
    {N0 : Q} (hN : 0 < N0) {samples : Option (List Int)} (hs : samplesOk g samples = true)
    {toks : List (Tok Growth)} (htoks : toMs g N0 samples = .ok toks) (hc : CodecCovers c toks)
    (hsa : GrowthPrinter sa (epochGrowths g N0)) :
    ∃ mg sem rs gs, fromMs (renderG c sa toks) N0 none = .ok mg
      ∧ msSem (renderG c sa toks) N0 = .ok sem ∧ resultSem mg = .ok rs
      ∧ graphSem (inGenerations (normalizeProportions g)) none = .ok gs
      ∧ semEquiv sem rs = true
      ∧ SemRefines sem (regrow (growthVal sa) N0 gs) ∧ SemRefines rs (regrow (growthVal sa) N0 gs)
      ∧ SemRefinesUpToGrowth sem gs ∧ SemRefinesUpToGrowth rs gs :=
  ms_roundtrip_growth_sem c sa (ToMsNorm.validGraph_norm hv) (by rw [ToMsNorm.expr_norm]; exact hx)
    (ToMsNorm.exact_norm (clauses_of_valid hv).h4) (by rw [MsRT.pulsesTame_norm]; exact hpt) hN
    (samples := samples) (by rw [ToMsNorm.samplesOk_norm]; exact hs)
    (by rw [ToMsNorm.toMs_norm hv hx hN hs]; exact htoks) hc (by rw [epochGrowths_norm]; exact hsa)

#print axioms toMs_output_finishDoc_okV
#print axioms ms_roundtrip_growth_accepts
#print axioms ms_roundtrip_growth_sem
#print axioms ms_roundtrip_growth_sem_all

end Demes.Proofs.MsGrow
