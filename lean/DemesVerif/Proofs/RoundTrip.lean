/-
  Proofs for C04 — dump then load reproduces the graph, in every format and style, as a single
  document or inside a multi-document stream, under the explicit laws `Spec.CodecLaws` of the
  text layer.

  Built from: C06 (`Asdict.resolve_asdict`), C05 (`C05.simplify_resolves`), and the C16
  development (`load_dump_json`, `dump_no_null`, `dumpValue_obj`, `TopGood`).
-/
import DemesVerif.Spec.C04
import DemesVerif.Proofs.LoadDump
import DemesVerif.Proofs.SimplifyAssemble
import DemesVerif.Model.ValueEq
namespace Demes.Proofs
open Demes Demes.Spec

/-! ### the YAML dictionary passes `load_asdict` unchanged -/

theorem mapM_ok_self {α} (f : α → Except Err α) (xs : List α) (h : ∀ x ∈ xs, f x = .ok x) :
    xs.mapM f = .ok xs := by
  have := mapM_map_ok_self f id xs h
  rwa [List.map_id] at this

/-- `_unstringify_infinities` leaves an entry of the library's own deme / migration
dictionaries alone: a `start_time` there is a number, never the string "Infinity" -/
theorem unstrStartEntry_good (kv : String × Value) (h : GoodEntry kv) : unstrStartEntry kv = kv := by
  obtain ⟨k, v⟩ := kv
  rcases h with ⟨hk, t, ht⟩ | ⟨hk, _⟩
  · simp only at hk ht
    subst hk ht
    cases t <;> rfl
  · unfold unstrStartEntry
    rw [if_neg (show ¬ (k, v).1 = "start_time" from hk)]

theorem unstringifyStart_good (kvs : Obj) (h : AllP GoodEntry kvs) : unstringifyStart kvs = kvs := by
  rw [unstringifyStart_eq]
  conv => rhs; rw [← List.map_id kvs]
  exact List.map_congr_left (fun kv hkv => unstrStartEntry_good kv (h kv hkv))

theorem unstringifyItems_good (xs : List Value) (h : ∀ x ∈ xs, GoodDict x) :
    unstringifyItems (.list xs) = .ok (.list xs) := by
  simp only [unstringifyItems]
  rw [mapM_ok_self _ xs (fun x hx => by
    obtain ⟨kvs, rfl, hk⟩ := h x hx
    simp only [unstringifyStart_good kvs hk]
    rfl)]
  rfl

theorem unstrEntry_good (kv : String × Value) (h : TopGood kv) : unstrEntry kv = .ok kv := by
  obtain ⟨k, v⟩ := kv
  rcases h with ⟨hk, xs, hv, hx⟩ | hk | ⟨h1, h2, h3, _, _⟩
  · simp only at hk hv
    subst hv
    have hb : ((k, Value.list xs).1 = "demes" || (k, Value.list xs).1 = "migrations") = true := by
      simpa using hk
    unfold unstrEntry
    rw [if_pos hb]
    simp only [unstringifyItems_good xs hx, bind, Except.bind, pure, Except.pure]
  · simp only at hk
    subst hk
    rfl
  · simp only at h1 h2 h3
    have hb : ¬ (((k, v).1 = "demes" || (k, v).1 = "migrations") = true) := by simp [h1, h2]
    unfold unstrEntry
    rw [if_neg hb, if_neg (show ¬ (k, v).1 = "defaults" from h3)]
    rfl

theorem unstringify_yaml (kvs : Obj) (h : AllP TopGood kvs) (hd : Obj.contains "demes" kvs = true) :
    unstringifyInfinities kvs = .ok kvs := by
  rw [unstringifyInfinities_eq, if_pos hd]
  exact mapM_ok_self _ _ (fun kv hkv => unstrEntry_good kv (h kv hkv))

/-- `load_asdict` applied to the dictionary written as YAML returns that dictionary: it holds no
null outside `metadata`, and no "Infinity" string at a start-time position -/
theorem load_dump_yaml (g : Graph) (simplified : Bool) :
    loadAsdictValue (dumpValue .yaml simplified g) = .ok (dumpValue .yaml simplified g) := by
  obtain ⟨kvs, hy, _, _, h1, h2⟩ := dumpValue_obj simplified g
  obtain ⟨kvs', hy', _, hn, _⟩ := dump_no_null g simplified .yaml
  rw [hy] at hy'
  cases hy'
  rw [hy, loadAsdictValue_obj, hn, unstringify_yaml kvs h1 h2]

/-! ### `sameModel` -/

theorem sameModel_iff (g g' : Graph) :
    sameModel g g' ↔
      g'.description = g.description ∧ g'.timeUnits = g.timeUnits
        ∧ g'.generationTime = g.generationTime ∧ g'.doi = g.doi
        ∧ g'.metadata = coerceO g.metadata ∧ g'.demes = g.demes
        ∧ g'.migrations.Perm g.migrations ∧ g'.pulses = g.pulses ∧ g'.index = g.index := by
  constructor
  · rintro ⟨ms, hp, rfl⟩
    exact ⟨rfl, rfl, rfl, rfl, rfl, rfl, hp, rfl, rfl⟩
  · rintro ⟨h1, h2, h3, h4, h5, h6, h7, h8, h9⟩
    refine ⟨g'.migrations, h7, ?_⟩
    obtain ⟨a1, a2, a3, a4, a5, a6, a7, a8, a9⟩ := g'
    simp only at h1 h2 h3 h4 h5 h6 h8 h9
    subst h1 h2 h3 h4 h5 h6 h8 h9
    rfl

/-- the fully-resolved dictionaries are identical once the migrations are listed in the same
order -/
theorem sameModel_asdict {g g' : Graph} (h : sameModel g g') :
    Graph.asdict { g' with migrations := g.migrations } = Graph.asdict g := by
  obtain ⟨ms, _, rfl⟩ := h
  simp only [Graph.asdict, Asdict.coerceO_idem]

/-- a graph with `bool`-free metadata is the same model as itself; in general as its coerced self -/
theorem sameModel_refl (g : Graph) (hm : Value.plainO g.metadata = true) : sameModel g g :=
  ⟨g.migrations, List.Perm.refl _, by rw [Asdict.coerceO_of_plain _ hm]⟩

theorem sameModel_valid {g g' : Graph} (h : sameModel g g') (hv : validGraph g = true) :
    validGraph g' = true := by
  obtain ⟨ms, hp, rfl⟩ := h
  obtain ⟨h0, h1, h2, h3, h4, h5, h6, h8, h9, h10, h11, h12, h13⟩ := Asdict.clauses_of_valid hv
  have e8 := (C05.v8_perm hp).trans h8
  have e9 := (C05.v9_perm hp).trans h9
  have e10 := (C05.v10_perm hp).trans h10
  simp only [validGraph, validData, Bool.and_eq_true]
  exact ⟨h0, ⟨⟨⟨⟨⟨⟨⟨⟨⟨⟨⟨h1, h2⟩, h3⟩, h4⟩, h5⟩, h6⟩, e8⟩, e9⟩, e10⟩, h11⟩, h12⟩, h13⟩⟩

/-! ### resolving the dictionary handed to the YAML serialiser -/

theorem resolve_dump_yaml (g : Graph) (hv : validGraph g = true) (simplified : Bool) :
    ∃ g', resolve (dumpValue .yaml simplified g) = .ok g' ∧ sameModel g g' := by
  cases simplified
  · refine ⟨_, ?_, g.migrations, List.Perm.refl _, rfl⟩
    have : dumpValue .yaml false g = g.asdict := rfl
    rw [this]
    exact Asdict.resolve_asdict g hv
  · obtain ⟨ms, hp, h⟩ := C05.simplify_resolves g hv
    have e : dumpValue .yaml true g = g.asdictSimplified := by
      simp only [dumpValue, if_true]
    rw [e]
    exact ⟨_, h, ms, hp, rfl⟩

/-- loading what `load_asdict` got from either parser -/
theorem load_value_yaml (g : Graph) (hv : validGraph g = true) (simplified : Bool) :
    ∃ g', (do let v' ← loadAsdictValue (dumpValue .yaml simplified g); resolve v') = .ok g'
      ∧ sameModel g g' := by
  obtain ⟨g', h, hs⟩ := resolve_dump_yaml g hv simplified
  refine ⟨g', ?_, hs⟩
  rw [load_dump_yaml]
  exact h

/-! ### the domain of the codec laws -/

theorem asdict_in_codec_domain (g : Graph) (hv : validGraph g = true) (fmt : Format)
    (simplified : Bool) (hj : fmt = .json → jsonSafe g = true) :
    InCodecDomain fmt (dumpValue fmt simplified g) :=
  ⟨simplified, g, hv, hj, rfl⟩

theorem yaml_in_codec_domain (g : Graph) (hv : validGraph g = true) (simplified : Bool) :
    InCodecDomain .yaml (dumpValue .yaml simplified g) :=
  asdict_in_codec_domain g hv .yaml simplified (fun h => by cases h)

/-! ### the round trips -/

theorem roundtrip {Text} (c : Codec Text) (hc : CodecLaws c) (g : Graph) (hv : validGraph g = true)
    (fmt : Format) (simplified : Bool) (hj : fmt = .json → jsonSafe g = true) :
    ∃ t g', dump c fmt simplified g = some t ∧ load c fmt t = .ok g' ∧ sameModel g g' := by
  obtain ⟨t, hs, hp⟩ := hc.par_ser fmt _ (asdict_in_codec_domain g hv fmt simplified hj)
  obtain ⟨g', hr, hsm⟩ := resolve_dump_yaml g hv simplified
  refine ⟨t, g', hs, ?_, hsm⟩
  cases fmt
  · simp only [load, loadAsdict, hp, load_dump_yaml, bind, Except.bind]
    exact hr
  · rw [load_dump_json_graph c .json t g simplified hp]
    exact hr

/-- the YAML round trip needs nothing of the metadata -/
theorem roundtrip_yaml {Text} (c : Codec Text) (hc : CodecLaws c) (g : Graph) (hv : validGraph g = true)
    (simplified : Bool) :
    ∃ t g', dump c .yaml simplified g = some t ∧ load c .yaml t = .ok g' ∧ sameModel g g' :=
  roundtrip c hc g hv .yaml simplified (fun h => by cases h)

theorem mapM_load_values (simplified : Bool) :
    ∀ gs : List Graph, (∀ g ∈ gs, validGraph g = true) →
      ∃ gs', (gs.map (dumpValue .yaml simplified)).mapM
          (fun v => do let v' ← loadAsdictValue v; resolve v') = .ok gs'
        ∧ List.Forall₂ sameModel gs gs' := by
  intro gs
  induction gs with
  | nil => intro _; exact ⟨[], rfl, List.Forall₂.nil⟩
  | cons g gs ih =>
    intro h
    obtain ⟨g', hg, hs⟩ := load_value_yaml g (h g List.mem_cons_self) simplified
    obtain ⟨gs', hgs, hss⟩ := ih (fun x hx => h x (List.mem_cons_of_mem _ hx))
    refine ⟨g' :: gs', ?_, List.Forall₂.cons hs hss⟩
    rw [List.map_cons, List.mapM_cons, hg, hgs]
    rfl

theorem roundtrip_all {Text} (c : Codec Text) (hc : CodecLaws c) (simplified : Bool)
    (gs : List Graph) (hv : ∀ g ∈ gs, validGraph g = true) :
    ∃ t gs', dumpAll c simplified gs = some t ∧ loadAll c t = .ok gs'
      ∧ List.Forall₂ sameModel gs gs' := by
  obtain ⟨t, hs, hp⟩ := hc.parAll_serAll (gs.map (dumpValue .yaml simplified)) (by
    intro v hm
    obtain ⟨g, hg, rfl⟩ := List.mem_map.1 hm
    exact yaml_in_codec_domain g (hv g hg) simplified)
  obtain ⟨gs', hl, hss⟩ := mapM_load_values simplified gs hv
  refine ⟨t, gs', hs, ?_, hss⟩
  simp only [loadAll, hp]
  exact hl

theorem roundtrip_json_via_yaml {Text} (c : Codec Text) (hc : CodecLaws c) (g : Graph)
    (hv : validGraph g = true) (simplified : Bool) (hj : jsonSafe g = true) :
    ∃ t g', dump c .json simplified g = some t ∧ load c .yaml t = .ok g' ∧ sameModel g g'
      ∧ load c .json t = .ok g' := by
  have hdom := asdict_in_codec_domain g hv .json simplified (fun _ => hj)
  obtain ⟨t, hs, hp⟩ := hc.par_ser .json _ hdom
  have hy := hc.yaml_reads_json _ t hdom hs
  obtain ⟨g', hr, hsm⟩ := resolve_dump_yaml g hv simplified
  refine ⟨t, g', hs, ?_, hsm, ?_⟩
  · rw [load_dump_json_graph c .yaml t g simplified hy]; exact hr
  · rw [load_dump_json_graph c .json t g simplified hp]; exact hr

/-! ### every dictionary handed to the serialiser is plain (no `bool` anywhere) -/

theorem plainO_iff (kvs : List (String × Value)) :
    Value.plainO kvs = true ↔ AllP (fun kv : String × Value => kv.2.plain = true) kvs := by
  induction kvs with
  | nil => simp [Value.plainO, AllP]
  | cons kv r ih =>
    obtain ⟨k, v⟩ := kv
    simp only [Value.plainO, Bool.and_eq_true, ih, allP_cons]

theorem plainL_iff (xs : List Value) : Value.plainL xs = true ↔ ∀ x ∈ xs, x.plain = true := by
  induction xs with
  | nil => simp [Value.plainL]
  | cons x r ih => simp only [Value.plainL, Bool.and_eq_true, ih, List.forall_mem_cons]

theorem plain_obj (kvs : Obj) (h : AllP (fun kv : String × Value => kv.2.plain = true) kvs) :
    (Value.obj kvs).plain = true := by
  simp only [Value.plain]; exact (plainO_iff kvs).2 h

theorem plain_list_map {α} (f : α → Value) (xs : List α) (h : ∀ a, (f a).plain = true) :
    (Value.list (xs.map f)).plain = true := by
  simp only [Value.plain]
  rw [plainL_iff]
  intro x hx
  obtain ⟨a, _, rfl⟩ := List.mem_map.1 hx
  exact h a

theorem plain_numV (q : Q) : (numV q).plain = true := rfl
theorem plain_timeV (t : ETime) : (timeV t).plain = true := by cases t <;> rfl
theorem plain_str (s : String) : (Value.str s).plain = true := rfl
theorem plain_strsV (xs : List String) : (strsV xs).plain = true := plain_list_map _ _ plain_str
theorem plain_numsV (xs : List Q) : (numsV xs).plain = true := plain_list_map _ _ plain_numV

macro "plain_entries" : tactic =>
  `(tactic| (allp <;> intros <;> first
      | trivial
      | exact plain_numV _
      | exact plain_timeV _
      | exact plain_str _
      | exact plain_strsV _
      | exact plain_numsV _))

theorem plain_epoch_simplified (e : Epoch) : (Epoch.simplified e).plain = true := by
  apply plain_obj
  plain_entries

theorem plain_deme_simplified (g : Graph) (d : Deme) : (Deme.simplified g d).plain = true := by
  apply plain_obj
  allp <;> intros <;> first
    | trivial
    | exact plain_timeV _
    | exact plain_str _
    | exact plain_strsV _
    | exact plain_numsV _
    | exact plain_list_map _ _ plain_epoch_simplified

theorem plain_smig (m : SMig) : m.asdict.plain = true := by
  apply plain_obj
  plain_entries

theorem plain_amig (m : AMig) : m.asdict.plain = true := by
  apply plain_obj
  plain_entries

theorem plain_pulse (p : Pulse) : (Pulse.asdict p).plain = true :=
  Asdict.plain_of_plainStd _ (Asdict.pulse_plainStd p)

theorem plain_asdictSimplified (g : Graph) : g.asdictSimplified.plain = true := by
  rw [C05.asdictSimplified_eq]
  apply plain_obj
  unfold C05.simpTopObj
  allp <;> intros <;> first
    | trivial
    | exact plain_numV _
    | exact plain_str _
    | exact plain_strsV _
    | exact plain_list_map _ _ (plain_deme_simplified g)
    | exact plain_list_map _ _ plain_pulse
    | (simp only [Value.plain]; exact Asdict.coerceO_plain _)
    | (simp only [Value.plain]
       rw [plainL_iff]
       intro x hx
       rcases List.mem_append.1 hx with hx | hx
       · obtain ⟨a, _, rfl⟩ := List.mem_map.1 hx; exact plain_smig a
       · obtain ⟨a, _, rfl⟩ := List.mem_map.1 hx; exact plain_amig a)

theorem plain_strStartEntry (kv : String × Value) (h : kv.2.plain = true) :
    (strStartEntry kv).2.plain = true := by
  unfold strStartEntry
  split
  · split
    · split
      · rfl
      · exact h
    · exact h
  · exact h

theorem plain_strItem (x : Value) (h : x.plain = true) : (strItem x).plain = true := by
  unfold strItem
  split
  · rename_i kvs
    simp only [Value.plain] at h ⊢
    rw [plainO_iff] at h ⊢
    rw [stringifyStart_eq]
    intro kv hkv
    obtain ⟨kv0, h0, rfl⟩ := List.mem_map.1 hkv
    exact plain_strStartEntry kv0 (h kv0 h0)
  · exact h

theorem plain_strEntry (kv : String × Value) (h : kv.2.plain = true) : (strEntry kv).2.plain = true := by
  unfold strEntry
  split
  · show (stringifyItems kv.2).plain = true
    unfold stringifyItems
    split
    · rename_i xs heq
      rw [heq] at h
      simp only [Value.plain] at h ⊢
      rw [plainL_iff] at h ⊢
      intro y hy
      obtain ⟨x, hx, rfl⟩ := List.mem_map.1 hy
      exact plain_strItem x (h x hx)
    · exact h
  · exact h

/-- neither `asdict`, `asdict_simplified` nor `_stringify_infinities` ever produce a `bool` -/
theorem dump_plain (g : Graph) (fmt : Format) (simplified : Bool) :
    (dumpValue fmt simplified g).plain = true := by
  obtain ⟨kvs, hy, hjs, hk, _, _⟩ := dumpValue_obj simplified g
  have hp : (Value.obj kvs).plain = true := by
    rw [← hk]
    cases simplified
    · exact Asdict.asdict_plain g
    · exact plain_asdictSimplified g
  cases fmt
  · rw [hy]; exact hp
  · rw [hjs]
    simp only [Value.plain] at hp ⊢
    rw [plainO_iff] at hp ⊢
    rw [stringifyInfinities_eq]
    intro kv hkv
    obtain ⟨kv0, h0, rfl⟩ := List.mem_map.1 hkv
    exact plain_strEntry kv0 (hp kv0 h0)

/-! ### the shape of the domain: what the text layer has to cope with -/

mutual
theorem hasNonFinite_coerceV : ∀ v : Value, hasNonFinite (coerceV v) = hasNonFinite v
  | .null => rfl
  | .bool b => by cases b <;> rfl
  | .num _ => rfl
  | .str _ => rfl
  | .list xs => by simp only [coerceV, hasNonFinite]; exact hasNonFinite_coerceL xs
  | .obj kvs => by simp only [coerceV, hasNonFinite]; exact hasNonFinite_coerceO kvs
theorem hasNonFinite_coerceL : ∀ xs : List Value, hasNonFiniteL (coerceL xs) = hasNonFiniteL xs
  | [] => rfl
  | x :: xs => by simp only [coerceL, hasNonFiniteL, hasNonFinite_coerceV x, hasNonFinite_coerceL xs]
theorem hasNonFinite_coerceO : ∀ kvs : List (String × Value), hasNonFiniteO (coerceO kvs) = hasNonFiniteO kvs
  | [] => rfl
  | (k, v) :: r => by simp only [coerceO, hasNonFiniteO, hasNonFinite_coerceV v, hasNonFinite_coerceO r]
end

/-- in both forms the only top-level `metadata` entry is the coerced metadata of the graph -/
theorem metadata_entry (g : Graph) (simplified : Bool) (kvs : Obj)
    (h : (if simplified then g.asdictSimplified else g.asdict) = .obj kvs) (v : Value)
    (hm : ("metadata", v) ∈ kvs) : v = .obj (coerceO g.metadata) := by
  cases simplified
  · simp only [Bool.false_eq_true, if_false, Asdict.graph_asdict, Value.obj.injEq] at h
    subst h
    simp only [Asdict.graphObj, List.mem_cons, Prod.mk.injEq, List.not_mem_nil, or_false] at hm
    rcases hm with ⟨h, _⟩ | ⟨h, _⟩ | ⟨h, _⟩ | ⟨h, _⟩ | ⟨_, h⟩ | ⟨h, _⟩ | ⟨h, _⟩ | ⟨h, _⟩ <;>
      first | exact h | exact absurd h (by decide)
  · simp only [if_true, C05.asdictSimplified_eq, Value.obj.injEq] at h
    subst h
    simp only [C05.simpTopObj, List.mem_append, List.mem_cons, List.mem_ite_nil_left,
      List.not_mem_nil, or_false, Prod.mk.injEq] at hm
    rcases hm with (((((⟨_, h, _⟩ | ⟨h, _⟩ | ⟨h, _⟩) | ⟨_, h, _⟩) | ⟨_, _, h⟩) | ⟨h, _⟩) | ⟨_, h, _⟩) | ⟨_, h, _⟩ <;>
      first | exact h | exact absurd h (by decide)

/-- with JSON-safe metadata the whole JSON dictionary is strict: no `inf`, `-inf`, `nan` -/
theorem dump_json_strict (g : Graph) (simplified : Bool) (hj : jsonSafe g = true) :
    hasNonFinite (dumpValue .json simplified g) = false := by
  obtain ⟨kvs, _, hjs, hk, _, _⟩ := dumpValue_obj simplified g
  obtain ⟨kvs', hjs', hent⟩ := stringify_no_inf_entries g simplified
  rw [hjs] at hjs'
  cases hjs'
  rw [hjs, hasNonFinite_obj, List.any_eq_false]
  intro kv hkv
  obtain ⟨k, v⟩ := kv
  by_cases hm : k = "metadata"
  · subst hm
    rw [stringifyInfinities_eq] at hkv
    obtain ⟨kv0, h0, he⟩ := List.mem_map.1 hkv
    have hk0 : kv0.1 = "metadata" := by rw [← strEntry_key kv0, he]
    have hs : strEntry kv0 = kv0 := by
      unfold strEntry
      rw [if_neg (by rw [hk0]; decide)]
    rw [hs] at he
    subst he
    have := metadata_entry g simplified kvs hk v h0
    subst this
    simp only [jsonSafe, Bool.not_eq_true', hasNonFinite] at hj
    simp only [hasNonFinite, hasNonFinite_coerceO, hj, Bool.false_eq_true, not_false_eq_true]
  · simp only [hent k v hkv hm, Bool.false_eq_true, not_false_eq_true]

/-- what the text layer is asked to handle: a mapping, with no null outside `metadata`, built
from null, numbers, strings, lists and mappings only (no `bool`); for JSON moreover no `inf`,
`-inf` or `nan` anywhere -/
theorem codec_domain_shape (fmt : Format) (v : Value) (h : InCodecDomain fmt v) :
    ∃ kvs, v = .obj kvs ∧ Obj.contains "demes" kvs = true
      ∧ noNullObj (kvs.filter (fun kv => kv.1 ≠ "metadata")) = true
      ∧ (fmt = .json → hasNonFinite v = false) ∧ v.plain = true := by
  obtain ⟨s, g, _, hj, rfl⟩ := h
  obtain ⟨kvs, hv, hn, _, _⟩ := dump_no_null g s fmt
  obtain ⟨kvs0, hy, hjs, _, _, hd⟩ := dumpValue_obj s g
  refine ⟨kvs, hv, ?_, hn, ?_, dump_plain g fmt s⟩
  · cases fmt
    · rw [hy] at hv; cases hv; exact hd
    · rw [hjs] at hv; cases hv; exact contains_stringify _ _ hd
  · intro hf
    subst hf
    exact dump_json_strict g s (hj rfl)

/-! ### codecs satisfying the laws (non-vacuity of `CodecLaws`) -/

/-- the identity codec: a text is the list of its documents -/
def idCodec : Codec (List Value) where
  ser _ v := some [v]
  par _ t := match t with
    | [v] => some v
    | _ => none
  serAll vs := some vs
  parAll t := some t

theorem idCodec_laws : CodecLaws idCodec where
  par_ser _ v _ := ⟨[v], rfl, rfl⟩
  parAll_serAll vs _ := ⟨vs, rfl, rfl⟩
  yaml_reads_json v t _ h := by cases h; rfl

/-- a codec whose JSON writer refuses non-finite numbers, as `json.dump(..., allow_nan=False)` -/
def strictCodec : Codec (List Value) where
  ser fmt v := match fmt with
    | .json => if hasNonFinite v then none else some [v]
    | .yaml => some [v]
  par _ t := match t with
    | [v] => some v
    | _ => none
  serAll vs := some vs
  parAll t := some t

theorem strictCodec_laws : CodecLaws strictCodec where
  par_ser fmt v h := by
    cases fmt
    · exact ⟨[v], rfl, rfl⟩
    · obtain ⟨_, _, _, _, hs, _⟩ := codec_domain_shape .json v h
      exact ⟨[v], by simp only [strictCodec, hs rfl, Bool.false_eq_true, if_false], rfl⟩
  parAll_serAll vs _ := ⟨vs, rfl, rfl⟩
  yaml_reads_json v t h hs := by
    obtain ⟨_, _, _, _, hf, _⟩ := codec_domain_shape .json v h
    simp only [strictCodec, hf rfl, Bool.false_eq_true, if_false, Option.some.injEq] at hs
    subst hs
    rfl

/-- The hypothesis `jsonSafe g` of the JSON round trip cannot be dropped: a codec satisfying the
laws may — like the real `json.dump(..., allow_nan=False)` — refuse to write a valid graph whose
`metadata` holds an infinite number. -/
theorem roundtrip_counterexample :
    CodecLaws strictCodec ∧ validGraph c16Graph = true ∧ jsonSafe c16Graph = false
      ∧ dump strictCodec .json false c16Graph = none
      ∧ dump strictCodec .json true c16Graph = none :=
  ⟨strictCodec_laws, by decide +kernel, by decide +kernel, by decide +kernel, by decide +kernel⟩

/-! ### a Boolean form of `sameModel`, for the closed examples -/

def sameModelB (g g' : Graph) : Bool :=
  g'.description == g.description && g'.timeUnits == g.timeUnits
    && g'.generationTime == g.generationTime && g'.doi == g.doi
    && decide (g'.metadata = coerceO g.metadata) && g'.demes == g.demes
    && g'.migrations.isPerm g.migrations && g'.pulses == g.pulses && g'.index == g.index

theorem sameModelB_iff (g g' : Graph) : sameModelB g g' = true ↔ sameModel g g' := by
  rw [sameModel_iff]
  simp only [sameModelB, Bool.and_eq_true, beq_iff_eq, decide_eq_true_eq, List.isPerm_iff]
  tauto

end Demes.Proofs
