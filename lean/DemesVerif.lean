import DemesVerif.Model.Num
import DemesVerif.Model.Value
import DemesVerif.Model.Graph
import DemesVerif.Model.Matrices
import DemesVerif.Model.Resolve
import DemesVerif.Model.Dict
import DemesVerif.Wire
import DemesVerif.Ops
