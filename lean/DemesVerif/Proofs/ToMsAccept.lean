/-
  C07 — `toMs` in closed form on valid ms-expressible graphs (`toMs_ok_eq`), acceptance
  and rejection.
-/
import DemesVerif.Proofs.ToMsValid
set_option linter.unusedSimpArgs false
set_option linter.unusedVariables false
namespace Demes.Proofs.ToMs
open Demes Demes.Ms Demes.Spec Demes.Spec.C07 Demes.Proofs.RV

/-! ### the class is invariant under `inGenerations` -/

theorem expr_inGen (g : Graph) : MsExpressible (inGenerations g) = MsExpressible g := by
  simp [MsExpressible, List.all_map, Function.comp_def]
  rfl

theorem samplesOk_inGen (g : Graph) (s : Option (List Int)) : samplesOk (inGenerations g) s = samplesOk g s := by
  cases s <;> simp [samplesOk]

/-! ### the events every generator emits: finite non-negative times, printable kinds -/

def kindOk : Event Growth → Bool
  | .popSizeChange .. => true
  | .popGrowthRateChange .. => true
  | .migEntryChange .. => true
  | .split .. => true
  | .join .. => true
  | _ => false

def evOpt : Event Growth → String
  | .growthRateChange o .. => o | .popGrowthRateChange o .. => o | .sizeChange o .. => o
  | .popSizeChange o .. => o | .migRateChange o .. => o | .migEntryChange o .. => o
  | .migMatrixChange o .. => o | .split o .. => o | .join o .. => o

structure EvGood (e : Event Growth) : Prop where
  time : ∃ q, e.t = .fin q ∧ 0 ≤ q
  kind : kindOk e = true
  opt : evOpt e = ""

theorem mem_sizeEvs {N0 : Q} {j : Int} {ev : Event Growth} :
    ∀ (es : List Epoch) (size : Q) (growth : Growth), ev ∈ sizeEvs N0 j size growth es →
      ∃ e ∈ es, ev = .popSizeChange "" (.fin e.endTime) j (.fin (e.endSize / N0))
        ∨ ev = .popGrowthRateChange "" (.fin e.endTime) j (growthOf N0 e)
  | [], _, _, h => by simp [sizeEvs] at h
  | e :: es, size, growth, h => by
    simp only [sizeEvs, List.mem_append] at h
    generalize hg1 : (if size ≠ e.endSize then Growth.zero else growth) = g1 at h
    rcases h with (h | h) | h
    · by_cases h1 : size = e.endSize
      · simp [h1] at h
      · simp only [ne_eq, h1, not_false_eq_true, if_true, List.mem_singleton] at h
        exact ⟨e, List.mem_cons_self, Or.inl h⟩
    · split at h
      · simp only [List.mem_singleton] at h; exact ⟨e, List.mem_cons_self, Or.inr h⟩
      · cases h
    · obtain ⟨e', he', h'⟩ := mem_sizeEvs es _ _ h
      exact ⟨e', List.mem_cons_of_mem _ he', h'⟩

theorem mem_sizeEvsAll {N0 : Q} {ds : List (Deme × Nat)} {ev : Event Growth} (h : ev ∈ sizeEvsAll N0 ds) :
    ∃ dj ∈ ds, ∃ e ∈ dj.1.epochs, ev = .popSizeChange "" (.fin e.endTime) ((dj.2 + 1 : Nat) : Int) (.fin (e.endSize / N0))
        ∨ ev = .popGrowthRateChange "" (.fin e.endTime) ((dj.2 + 1 : Nat) : Int) (growthOf N0 e) := by
  simp only [sizeEvsAll, List.mem_flatMap] at h
  obtain ⟨dj, hdj, h⟩ := h
  obtain ⟨e, he, h'⟩ := mem_sizeEvs _ _ _ h
  exact ⟨dj, hdj, e, List.mem_reverse.1 he, h'⟩

theorem mem_ancDemeEvs {g : Graph} {d : Deme} {ev : Event Growth} :
    ∀ (aks : List (String × Nat)) (n : Nat), ev ∈ ancDemeEvs g d n aks →
      (∃ k, ev = .split "" (Num.ofETime d.startTime) (idOf g d.name) (.fin (1 - tailProp d k)))
      ∨ (∃ i j, ev = .join "" (Num.ofETime d.startTime) i j ∧ 0 < i ∧ 0 < j)
  | [], _, h => by simp [ancDemeEvs] at h
  | (a, k) :: r, n, h => by
    simp only [ancDemeEvs] at h
    split at h
    · rcases List.mem_cons.1 h with h | h
      · exact Or.inr ⟨_, _, h, idOf_pos _ _, idOf_pos _ _⟩
      · exact mem_ancDemeEvs r n h
    · rcases List.mem_cons.1 h with h | h
      · exact Or.inl ⟨k, h⟩
      · rcases List.mem_cons.1 h with h | h
        · exact Or.inr ⟨_, _, h, by omega, idOf_pos _ _⟩
        · exact mem_ancDemeEvs r (n + 1) h

theorem ancDemeEvs_nil (g : Graph) (d : Deme) (n : Nat) : ancDemeEvs g d n [] = [] := rfl

theorem evGood_ancDemeEvs {g : Graph} {d : Deme} (h : DemeAncOk g d) {ev : Event Growth} {n : Nat}
    (hev : ev ∈ ancDemeEvs g d n d.ancestors.zipIdx) : EvGood ev := by
  have hne : d.ancestors ≠ [] := by
    intro h0; rw [h0] at hev; simp [ancDemeEvs] at hev
  obtain ⟨t, hst, ht⟩ := h.start hne
  rcases mem_ancDemeEvs _ _ hev with ⟨k, rfl⟩ | ⟨i, j, rfl, _, _⟩
  · exact ⟨⟨t, by simp [Event.t, hst, Num.ofETime], ht⟩, rfl, rfl⟩
  · exact ⟨⟨t, by simp [Event.t, hst, Num.ofETime], ht⟩, rfl, rfl⟩

theorem evGood_ancEvs {g : Graph} {ev : Event Growth} :
    ∀ (xs : List DemeOrPulse) (n : Nat), (∀ x ∈ xs, DpOk g x) → ev ∈ ancEvs g n xs → EvGood ev
  | [], _, _, h => by simp [ancEvs] at h
  | .deme d :: r, n, hok, h => by
    simp only [ancEvs, List.mem_append] at h
    rcases h with h | h
    · exact evGood_ancDemeEvs (hok _ List.mem_cons_self) h
    · exact evGood_ancEvs r _ (fun x hx => hok x (List.mem_cons_of_mem _ hx)) h
  | .pulse p :: r, n, hok, h => by
    simp only [ancEvs, List.mem_append] at h
    rcases h with h | h
    · have hp : PulseOk g p := hok _ List.mem_cons_self
      simp only [pulseEvs, List.mem_cons, List.not_mem_nil, or_false] at h
      rcases h with rfl | rfl
      · exact ⟨⟨p.time, rfl, hp.time⟩, rfl, rfl⟩
      · exact ⟨⟨p.time, rfl, hp.time⟩, rfl, rfl⟩
    · exact evGood_ancEvs r _ (fun x hx => hok x (List.mem_cons_of_mem _ hx)) h

theorem evGood_migEvs {N0 : Q} {g : Graph} (hok : ∀ m ∈ g.migrations, MigOk g m) {ev : Event Growth}
    (h : ev ∈ migEvs N0 g) : EvGood ev := by
  simp only [migEvs, List.mem_append, migOffs, migOns, List.mem_map, List.mem_filter] at h
  rcases h with ⟨m, ⟨hm, hc⟩, rfl⟩ | ⟨m, hm, rfl⟩
  · cases hst : m.startTime with
    | inf => simp [offCond, hst, ETime.isInf] at hc
    | fin t => exact ⟨⟨t, by simp [migOff, Event.t, hst, Num.ofETime], (hok m hm).start t hst⟩, rfl, rfl⟩
  · exact ⟨⟨m.endTime, rfl, (hok m hm).endTime⟩, rfl, rfl⟩

/-! ### the closed form -/

/-- the options of `toMs` before sorting, times in generations -/
def rawEvs (g : Graph) (N0 : Q) : List (Event Growth) :=
  sizeEvsAll N0 g.demes.zipIdx ++ ancEvs g g.demes.length (dps g) ++ migEvs N0 g

def scaleEv (N0 : Q) (e : Event Growth) : Event Growth := e.setT (numDivQ e.t (4 * N0))

/-- the options of `toMs` in command-line order, times in ms units -/
def finalEvs (g : Graph) (N0 : Q) : List (Event Growth) := (sortBy byT (rawEvs g N0)).map (scaleEv N0)

def printEv (e : Event Growth) : List (Tok Growth) :=
  match e with
  | .popGrowthRateChange _ t i a => (if numPos t then [.flag "-eg", .num t] else [.flag "-g"]) ++ [.int i, .alpha a]
  | .popSizeChange _ t i x => (if numPos t then [.flag "-en", .num t] else [.flag "-n"]) ++ [.int i, .num x]
  | .migEntryChange _ t i j r => (if numPos t then [.flag "-em", .num t] else [.flag "-m"]) ++ [.int i, .int j, .num r]
  | .split _ t i p => [.flag "-es", .num t, .int i, .num p]
  | .join _ t i j => [.flag "-ej", .num t, .int i, .int j]
  | _ => []

def headerToks (n : Nat) (samples : Option (List Int)) : List (Tok Growth) :=
  if n > 1 then [.flag "-I", .int (n : Int)] ++ ((samples.getD (List.replicate n 0)).map (fun i => Tok.raw (toString i)))
  else []

theorem print_ok {e : Event Growth} (h : kindOk e = true) : e.print = .ok (printEv e) := by
  cases e <;> simp [kindOk] at h <;> rfl

theorem mapM_print_ok : ∀ (evs : List (Event Growth)), (∀ e ∈ evs, kindOk e = true) →
    evs.mapM Event.print = .ok (evs.map printEv)
  | [], _ => rfl
  | e :: evs, h => by
    rw [List.mapM_cons, print_ok (h e List.mem_cons_self),
      mapM_print_ok evs (fun x hx => h x (List.mem_cons_of_mem _ hx))]
    rfl

theorem kindOk_setT (e : Event Growth) (t : Num) : kindOk (e.setT t) = kindOk e := by
  cases e <;> rfl

theorem scaleM_ok {N0 : Q} (hN : 0 < N0) : ∀ (evs : List (Event Growth)), (∀ e ∈ evs, EvGood e) →
    scaleM N0 evs = .ok (evs.map (scaleEv N0))
  | [], _ => rfl
  | e :: evs, h => by
    have ih := scaleM_ok hN evs (fun x hx => h x (List.mem_cons_of_mem _ hx))
    unfold scaleM at ih ⊢
    obtain ⟨q, hq, hq0⟩ := (h e List.mem_cons_self).time
    have h4 : (0 : Q) < 4 * N0 := by grind
    have hd : 0 ≤ q / (4 * N0) := (InGen.div_nonneg h4).2 hq0
    rw [List.mapM_cons, ih]
    simp [hq, numDivQ, vT_fin hd, bind, Except.bind, pure, Except.pure, scaleEv]

theorem mkStructure_ok {n : Nat} (hn : 0 < n) {l : List String} (hl : l.length = n) :
    mkStructure (n : Int) l (.fin 0) = .ok ⟨(n : Int), l, .fin 0⟩ := by
  have hpos : (0 : Int) < (n : Int) := by omega
  have : ¬ ((l.length : Int) ≠ (n : Int)) := by rw [hl]; simp
  simp only [mkStructure, vPosInt_ok hpos, vNonNeg_fin (t := 0) (by grind), this, if_false]
  rfl

theorem headerM_ok {n : Nat} {samples : Option (List Int)} (h : ∀ s, samples = some s → s.length = n) :
    headerM n samples = .ok (headerToks n samples) := by
  unfold headerM headerToks
  by_cases hn : n > 1
  · have hlen : ((samples.getD (List.replicate n 0)).map toString).length = n := by
      cases samples with
      | none => simp
      | some s => simp [h s rfl]
    simp only [hn, if_true, mkStructure_ok (by omega : 0 < n) hlen]
    simp [bind, Except.bind, pure, Except.pure, Structure.print, numPos, Num.lt, Num.zero]
  · simp [hn, pure, Except.pure]

theorem evGood_rawEvs {g : Graph} (c : Clauses g) (hx : MsExpressible g = true) {N0 : Q} {ev : Event Growth}
    (h : ev ∈ rawEvs g N0) : EvGood ev := by
  simp only [rawEvs, List.mem_append] at h
  rcases h with (h | h) | h
  · obtain ⟨dj, hdj, e, he, h'⟩ := mem_sizeEvsAll h
    have hm : dj.1 ∈ g.demes := by
      have := List.mem_zipIdx hdj
      simp only [Nat.zero_add] at this
      obtain ⟨_, _, h3⟩ := this
      rw [h3]; exact List.getElem_mem _
    have hok := epochOk_of_valid c hx hm he
    rcases h' with rfl | rfl
    · exact ⟨⟨e.endTime, rfl, hok.endTime⟩, rfl, rfl⟩
    · exact ⟨⟨e.endTime, rfl, hok.endTime⟩, rfl, rfl⟩
  · exact evGood_ancEvs _ _ (dpOk_of_valid c hx) h
  · exact evGood_migEvs (fun m hm => migOk_of_valid c hm) h

/-- the command `toMs` emits -/
def cmdOf (g : Graph) (N0 : Q) (samples : Option (List Int)) : List (Tok Growth) :=
  headerToks g.demes.length samples ++ ((finalEvs g N0).map printEv).flatten

/-- on a valid ms-expressible graph in generations `toMs` is its closed form -/
theorem tailM_ok {g : Graph} (c : Clauses g) (hx : MsExpressible g = true) {N0 : Q} (hN : 0 < N0)
    (cmd : List (Tok Growth)) :
    tailM g N0 cmd = .ok (cmd ++ ((finalEvs g N0).map printEv).flatten) := by
  have hN0 : N0 ≠ 0 := by grind
  have hgood : ∀ e ∈ sortBy byT (rawEvs g N0), EvGood e := fun e he =>
    evGood_rawEvs c hx ((mem_sortBy _).1 he)
  unfold tailM
  rw [sizeEvsM_ok hN g (fun d hd e he => epochOk_of_valid c hx hd he),
    ancestryEvents_ok _ (dpOk_of_valid c hx), migrationEvents_ok hN (fun m hm => migOk_of_valid c hm)]
  simp only [bind, Except.bind, hN0, decide_false, Bool.false_and, Bool.false_eq_true, if_false]
  have e1 : sizeEvsAll N0 g.demes.zipIdx ++ ancEvs g g.demes.length (dps g) ++ migEvs N0 g = rawEvs g N0 := rfl
  rw [e1, scaleM_ok hN _ hgood]
  simp only []
  rw [mapM_print_ok _ (fun e he => by
    obtain ⟨e', he', rfl⟩ := List.mem_map.1 he
    rw [scaleEv, kindOk_setT]; exact (hgood e' he').kind)]
  rfl

theorem toMs_ok_eq {graph : Graph} (hv : validGraph graph = true) (hx : MsExpressible graph = true)
    {N0 : Q} (hN : 0 < N0) {samples : Option (List Int)} (hs : samplesOk graph samples = true) :
    toMs graph N0 samples = .ok (cmdOf (inGenerations graph) N0 samples) := by
  have c := clauses_of_valid (InGen.inGenerations_valid graph hv)
  rw [toMs_eq, samplesOk_inGen, hs, if_pos rfl, headerM_ok, cmdOf]
  · simp only [bind, Except.bind]
    exact tailM_ok c (by rw [expr_inGen]; exact hx) hN _
  · intro s hs'
    rw [hs'] at hs
    simpa [samplesOk] using hs

/-! ### rejection -/

theorem foldlM_error_of_mem {σ β : Type} (f : σ → β → Except Err σ) (x : β)
    (hx : ∀ s, ∃ e, f s x = .error e) : ∀ (l : List β), x ∈ l → ∀ s, ∃ e, l.foldlM f s = .error e
  | [], h, _ => by cases h
  | y :: ys, h, s => by
    rw [List.foldlM_cons]
    cases hy : f s y with
    | error e => exact ⟨e, rfl⟩
    | ok s' =>
      rcases List.mem_cons.1 h with rfl | h
      · obtain ⟨e, he⟩ := hx s; rw [he] at hy; cases hy
      · exact foldlM_error_of_mem f x hx ys h s'

theorem bind_error {α β : Type} {x : Except Err α} {f : α → Except Err β} (h : ∃ e, x = .error e) :
    ∃ e, (x >>= f) = .error e := by
  obtain ⟨e, rfl⟩ := h; exact ⟨e, rfl⟩

theorem bind_error' {α β : Type} {x : Except Err α} {f : α → Except Err β} (h : ∀ a, ∃ e, f a = .error e) :
    ∃ e, (x >>= f) = .error e := by
  cases x with
  | error e => exact ⟨e, rfl⟩
  | ok a => exact h a

def badEpoch (e : Epoch) : Prop := ¬ (e.sizeFunction = "constant" ∨ e.sizeFunction = "exponential")

theorem getGrowthRate_bad (N0 : Q) {e : Epoch} (h : badEpoch e) : ∃ err, getGrowthRate N0 e = .error err := by
  unfold getGrowthRate
  have : (!(decide (e.sizeFunction = "constant") || decide (e.sizeFunction = "exponential"))) = true := by
    simp only [badEpoch, not_or] at h
    simp [h.1, h.2]
  simp only [this, if_true]
  exact ⟨_, rfl⟩

theorem sizeStepM_bad (N0 : Q) (j : Nat) {e : Epoch} (h : badEpoch e) (st : Q × Growth × List (Event Growth)) :
    ∃ err, sizeStepM N0 j st e = .error err := by
  obtain ⟨size, growth, evs⟩ := st
  obtain ⟨err, herr⟩ := getGrowthRate_bad N0 h
  unfold sizeStepM
  simp only [herr, bind, Except.bind, pure, Except.pure]
  by_cases h1 : size = e.endSize
  · simp [h1]
  · by_cases h2 : N0 = 0
    · simp [h1, h2, otherErr]
    · simp only [ne_eq, h1, not_false_eq_true, if_true, h2, if_false]
      cases mkPopSizeChange (α := Growth) "" (Num.fin e.endTime) (j : Int) (Num.fin (e.endSize / N0)) <;> exact ⟨_, rfl⟩

theorem demeSizeEvents_bad (N0 : Q) (j : Nat) {d : Deme} {e : Epoch} (he : e ∈ d.epochs) (h : badEpoch e) :
    ∃ err, demeSizeEvents N0 j d = .error err := by
  rw [demeSizeEvents_eq]
  exact bind_error (foldlM_error_of_mem _ e (sizeStepM_bad N0 j h) _ (List.mem_reverse.2 he) _)

theorem sizeEvsM_bad (N0 : Q) {g : Graph} {d : Deme} (hd : d ∈ g.demes) {e : Epoch} (he : e ∈ d.epochs)
    (h : badEpoch e) : ∃ err, sizeEvsM g N0 = .error err := by
  obtain ⟨i, hi⟩ := List.mem_iff_getElem?.mp hd
  have hmem : (d, i) ∈ g.demes.zipIdx := by
    rw [List.mem_zipIdx_iff_getElem?]; simpa using hi
  unfold sizeEvsM
  refine foldlM_error_of_mem _ (d, i) ?_ _ hmem _
  intro s
  exact bind_error (demeSizeEvents_bad N0 _ he h)

theorem ancStepM_bad (g : Graph) {p : Pulse} (h : 1 < p.sources.length) (st : Nat × List (Event Growth)) :
    ∃ err, ancStepM g st (.pulse p) = .error err := by
  obtain ⟨n, evs⟩ := st
  simp only [ancStepM, gt_iff_lt, h, if_true]
  exact ⟨_, rfl⟩

theorem ancestryEvents_bad (g : Graph) {p : Pulse} (hp : p ∈ g.pulses) (h : 1 < p.sources.length) (n : Nat) :
    ∃ err, ancestryEvents g (dps g) n = .error err := by
  rw [ancestryEvents_eq]
  refine bind_error (foldlM_error_of_mem _ (.pulse p) (ancStepM_bad g h) _ ?_ _)
  rw [dps, mem_sortBy]
  exact List.mem_append_left _ (List.mem_map.2 ⟨p, List.mem_reverse.2 hp, rfl⟩)

theorem tailM_bad (g : Graph) (N0 : Q) (cmd : List (Tok Growth)) (hx : MsExpressible g = false) :
    ∃ err, tailM g N0 cmd = .error err := by
  unfold tailM
  simp only [MsExpressible, Bool.and_eq_false_iff, List.all_eq_false, Bool.not_eq_true, Bool.or_eq_false_iff,
    decide_eq_false_iff_not] at hx
  rcases hx with ⟨d, hd, e, he, h1, h2⟩ | ⟨p, hp, h⟩
  · exact bind_error (sizeEvsM_bad N0 hd he (by simp [badEpoch, h1, h2]))
  · apply bind_error'
    intro _
    exact bind_error (ancestryEvents_bad g hp (by omega) _)

theorem toMs_rejects (graph : Graph) (N0 : Q) (samples : Option (List Int))
    (h : MsExpressible graph = false ∨ samplesOk graph samples = false) :
    ∃ err, toMs graph N0 samples = .error err := by
  rw [toMs_eq, samplesOk_inGen]
  by_cases hs : samplesOk graph samples = true
  · rw [if_pos hs]
    rcases h with h | h
    · apply bind_error'
      intro cmd
      exact tailM_bad _ N0 cmd (by rw [expr_inGen]; exact h)
    · rw [h] at hs; cases hs
  · rw [if_neg hs]; exact ⟨_, rfl⟩

theorem toMs_accepts {graph : Graph} (hv : validGraph graph = true) (hx : MsExpressible graph = true)
    {N0 : Q} (hN : 0 < N0) {samples : Option (List Int)} (hs : samplesOk graph samples = true) :
    ∃ c, toMs graph N0 samples = .ok c := ⟨_, toMs_ok_eq hv hx hN hs⟩

end Demes.Proofs.ToMs
