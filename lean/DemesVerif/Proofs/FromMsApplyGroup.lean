/-
  C08, link C (movements) — one time group: the invariant through all its options, then
  `applyParams`, then the read-back `groupMoves`, which gives the interpreter's movement rows.
-/
import DemesVerif.Proofs.FromMsApplyParams
namespace Demes.Proofs.FromMs
open Demes Demes.Ms Demes.Spec.MsSem Demes.Spec.C08
open Demes.Proofs.RV (bind_ok pure_ok)

/-! ## all options of the group -/

theorem events_groupInv' {N0 T' : Q} {n0 : Nat} {s0 : BState} {allOps : List MOp} (hns : NJT allOps) :
    ∀ (evs : List (Event Num)) {T : Q} {s s' : BState} {g g' : GState} {σ σ' : St}
      {L L' : List (Nat × Row)} {done : List MOp} {pend : Option (Nat × Q)},
    SizeSim T s σ → T ≤ T' → (∀ e ∈ evs, HasCmd e) → (∀ e ∈ evs, 4 * N0 * (cmdOfD e).t = T') →
    (∀ e ∈ evs, FracOK (cmdOfD e)) →
    GroupInv T' n0 s0 allOps s g L done pend (evs.map cmdOfD) →
    LmRel g.lm L → (∀ row ∈ g.lm, row.length = s.numDemes + (evs.filter isSplit).length) →
    evs.foldlM (stepEvent N0 T') (s, g) = .ok (s', g') →
    (evs.map cmdOfD).foldlM (Spec.MsSem.step N0) (σ, L) = .ok (σ', L') →
    ∃ done' pend', SizeSim T' s' σ' ∧ GroupInv T' n0 s0 allOps s' g' L' done' pend' []
      ∧ LmRel g'.lm L' ∧ ∀ row ∈ g'.lm, row.length = s'.numDemes := by
  intro evs
  induction evs with
  | nil =>
    intro T s s' g g' σ σ' L L' done pend hsim hT _ _ _ hinv hrel hlen hm hs
    cases hm
    cases hs
    exact ⟨done, pend, hsim.mono hT, hinv, hrel, by simpa using hlen⟩
  | cons e evs ih =>
    intro T s s' g g' σ σ' L L' done pend hsim hT hall htime hfr hinv hrel hlen hm hs
    rw [List.foldlM_cons] at hm
    obtain ⟨⟨s1, g1⟩, h1, hm⟩ := bind_ok.1 hm
    rw [List.map_cons, List.foldlM_cons] at hs
    obtain ⟨⟨σ1, L1⟩, hs1, hs⟩ := sbind_ok.1 hs
    have he := hall e (List.mem_cons_self ..)
    have ht := htime e (List.mem_cons_self ..)
    have hsim' := stepEvent_sizeSim hsim hT he ht.symm h1 hs1
    obtain ⟨done1, pend1, hinv1⟩ := stepEvent_groupInv' hsim he h1 hs1 hns (hfr e (List.mem_cons_self ..)) hinv
    obtain ⟨hrel1, hlen1⟩ := stepEvent_lm evs hsim he h1 hs1 hrel hlen
    exact ih hsim' (Rat.le_refl) (fun x hx => hall x (List.mem_cons_of_mem _ hx))
      (fun x hx => htime x (List.mem_cons_of_mem _ hx)) (fun x hx => hfr x (List.mem_cons_of_mem _ hx))
      hinv1 hrel1 hlen1 hm hs

theorem events_groupInv {N0 T' : Q} {n0 : Nat} {s0 : BState} {allOps : List MOp} (hns : NSAT allOps) :
    ∀ (evs : List (Event Num)) {T : Q} {s s' : BState} {g g' : GState} {σ σ' : St}
      {L L' : List (Nat × Row)} {done : List MOp} {pend : Option (Nat × Q)},
    SizeSim T s σ → T ≤ T' → (∀ e ∈ evs, HasCmd e) → (∀ e ∈ evs, 4 * N0 * (cmdOfD e).t = T') →
    (∀ e ∈ evs, FracOK (cmdOfD e)) →
    GroupInv T' n0 s0 allOps s g L done pend (evs.map cmdOfD) →
    LmRel g.lm L → (∀ row ∈ g.lm, row.length = s.numDemes + (evs.filter isSplit).length) →
    evs.foldlM (stepEvent N0 T') (s, g) = .ok (s', g') →
    (evs.map cmdOfD).foldlM (Spec.MsSem.step N0) (σ, L) = .ok (σ', L') →
    ∃ done' pend', SizeSim T' s' σ' ∧ GroupInv T' n0 s0 allOps s' g' L' done' pend' []
      ∧ LmRel g'.lm L' ∧ ∀ row ∈ g'.lm, row.length = s'.numDemes :=
  events_groupInv' (njt_of_nsat hns)

/-- the keys of `initL`: the numbers of the populations alive -/
theorem initL_mem {σ : St} {ir : Nat × Row} (h : ir ∈ initL σ) :
    1 ≤ ir.1 ∧ ir.1 ≤ σ.pops.length ∧ ir.2 = [(ir.1, 1)]
      ∧ ∃ p, σ.pops[ir.1 - 1]? = some p ∧ alive p = true := by
  unfold initL at h
  obtain ⟨pk, hpk, rfl⟩ := List.mem_map.mp h
  obtain ⟨hmem, hal⟩ := List.mem_filter.mp hpk
  obtain ⟨p, k⟩ := pk
  have hk := List.mem_zipIdx hmem
  have hget : σ.pops[k]? = some p := by
    have := List.mem_zipIdx' hmem
    exact List.getElem?_eq_some_iff.mpr ⟨this.1, this.2.symm⟩
  refine ⟨by dsimp only; omega, by dsimp only; omega, rfl, p, by simpa using hget, hal⟩

theorem single_get (i : Nat) (k : Nat) : Row.get [(i, (1 : Q))] k = delta i k := by
  unfold Row.get delta
  by_cases h : k = i
  · subst h; simp [List.lookup]
  · have : (k == i) = false := by simpa using h
    simp [List.lookup, this, h]

/-- the invariant holds before the first option of the group -/
theorem groupInv_init {T T' : Q} {s : BState} {σ : St} (hsim : SizeSim T s σ) (cmds : List Cmd)
    (g : GState) (hg : g.params = []) :
    GroupInv T' s.numDemes s (groupOps s.numDemes cmds) s g (initL σ) [] none cmds := by
  refine ⟨rfl, by rw [hg]; rfl, ?_, ?_, ?_, ?_, ?_, ?_, List.Pairwise.nil, Nat.le_refl _, ?_, ?_, ?_, rfl, ?_,
    fun _ h => h, ?_⟩
  · intro ir hir k
    obtain ⟨_, _, e, _⟩ := initL_mem hir
    rw [e, single_get]; rfl
  · intro ir hir k hk
    obtain ⟨_, h2, e, _⟩ := initL_mem hir
    rw [e, single_get, delta_ne]
    rw [hsim.num] at hk; omega
  · intro hc; cases hc
  · intro i q hc; cases hc
  · intro o ho; cases ho
  · intro o ho; cases ho
  · intro j d _ hd; exact ⟨d, hd, rfl, Or.inl rfl⟩
  · intro j d hj hd
    have := (List.getElem?_eq_some_iff.mp hd).1
    rw [hsim.len, ← hsim.num] at this
    omega
  · intro o ho; cases ho
  · intro o ho; cases ho
  · intro o ho; cases ho

/-! ## the monadic plumbing of `groupMoves` -/

theorem rows_mapM (names : List String) (φ : BDeme → Nat) : ∀ (ds : List BDeme),
    (∀ d ∈ ds, popId names d.name = .ok (φ d)) →
    ds.mapM (fun d => do let id ← popId names d.name; pure (id, ([(id, (1 : Q))] : Row)))
      = .ok (ds.map (fun d => (φ d, ([(φ d, (1 : Q))] : Row)))) := by
  intro ds
  induction ds with
  | nil => intro _; rfl
  | cons d ds ih =>
    intro h
    rw [List.mapM_cons, h d (List.mem_cons_self ..), ih (fun d' hd' => h d' (List.mem_cons_of_mem _ hd'))]
    rfl

theorem pulses_foldlM (T : Q) (N : Nat) : ∀ (es : List (Nat × Nat × Q)) (L : List (Nat × Row)),
    (∀ e ∈ es, e.1 < N ∧ e.2.1 < N) →
    (es.map (mkPulse T)).foldlM (fun (L : List (Nat × Row)) (p : BPulse) => do
      let dest ← popId (popNames N) p.dest
      let srcs ← p.sources.mapM (popId (popNames N))
      pure (pulseRows dest srcs p.proportions L)) L
    = .ok (es.foldl (fun L e => L.map (fun ir => (ir.1, pulseRow1 (e.1 + 1) (e.2.1 + 1) e.2.2 ir.2))) L) := by
  intro es
  induction es with
  | nil => intro L _; rfl
  | cons e es ih =>
    intro L h
    obtain ⟨h1, h2⟩ := h e (List.mem_cons_self ..)
    rw [List.map_cons, List.foldlM_cons, List.foldl_cons]
    have hstep : (do
        let dest ← popId (popNames N) (mkPulse T e).dest
        let srcs ← (mkPulse T e).sources.mapM (popId (popNames N))
        pure (pulseRows dest srcs (mkPulse T e).proportions L) : Except String _)
        = .ok (L.map (fun ir => (ir.1, pulseRow1 (e.1 + 1) (e.2.1 + 1) e.2.2 ir.2))) := by
      show (do
        let dest ← popId (popNames N) (Ms.demeName e.1)
        let srcs ← [Ms.demeName e.2.1].mapM (popId (popNames N))
        pure (pulseRows dest srcs [e.2.2] L) : Except String _) = _
      rw [popId_popNamesC N _ h1, List.mapM_cons, popId_popNamesC N _ h2]
      show Except.ok (pulseRows (e.1 + 1) [e.2.1 + 1] [e.2.2] L) = _
      rw [pulseRows_single]
    rw [hstep]
    exact ih _ (fun e' he' => h e' (List.mem_cons_of_mem _ he'))

/-- a deme that `applyParams` gave the ancestry `anc` (or that has it anyway), seen by `groupMoves` -/
structure BornView (N : Nat) (d : BDeme) (j : Nat) (anc : List (Q × Nat)) : Prop where
  name : d.name = Ms.demeName j
  lt : j < N
  ancs : bAncestors d = anc.map (fun po => Ms.demeName po.2)
  props : bProportions d = anc.map (·.1)
  ancLt : ∀ po ∈ anc, po.2 < N

theorem mapM_popId_names (N : Nat) : ∀ (ks : List Nat), (∀ k ∈ ks, k < N) →
    (ks.map Ms.demeName).mapM (popId (popNames N)) = .ok (ks.map (· + 1)) := by
  intro ks
  induction ks with
  | nil => intro _; rfl
  | cons k ks ih =>
    intro h
    rw [List.map_cons, List.mapM_cons, popId_popNamesC N k (h k (List.mem_cons_self ..)),
      ih (fun k' hk' => h k' (List.mem_cons_of_mem _ hk'))]
    rfl

theorem born_foldlM (N : Nat) (jOf : BDeme → Nat) (aOf : BDeme → List (Q × Nat)) :
    ∀ (bs : List BDeme) (L : List (Nat × Row)), (∀ d ∈ bs, BornView N d (jOf d) (aOf d)) →
    bs.foldlM (fun (L : List (Nat × Row)) (d : BDeme) => do
      let me ← popId (popNames N) d.name
      let ancs ← (bAncestors d).mapM (popId (popNames N))
      pure (bornRows me ancs (bProportions d) L)) L
    = .ok (bs.foldl (fun L d => L.map (fun ir =>
        (ir.1, bornRow1 (jOf d + 1) ((aOf d).map (fun po => (po.2 + 1, po.1))) ir.2))) L) := by
  intro bs
  induction bs with
  | nil => intro L _; rfl
  | cons d bs ih =>
    intro L h
    have v := h d (List.mem_cons_self ..)
    rw [List.foldlM_cons, List.foldl_cons]
    have hstep : (do
        let me ← popId (popNames N) d.name
        let ancs ← (bAncestors d).mapM (popId (popNames N))
        pure (bornRows me ancs (bProportions d) L) : Except String _)
        = .ok (L.map (fun ir => (ir.1, bornRow1 (jOf d + 1) ((aOf d).map (fun po => (po.2 + 1, po.1))) ir.2))) := by
      rw [v.name, popId_popNamesC N _ v.lt, v.ancs]
      have : (aOf d).map (fun po => Ms.demeName po.2) = ((aOf d).map (·.2)).map Ms.demeName := by
        rw [List.map_map]; rfl
      rw [this, mapM_popId_names N _ (by
        intro k hk
        obtain ⟨po, hpo, rfl⟩ := List.mem_map.mp hk
        exact v.ancLt po hpo)]
      show Except.ok (bornRows (jOf d + 1) _ (bProportions d) L) = _
      rw [bornRows_eq, v.props]
      congr 1
      apply List.map_congr_left
      intro ir _
      congr 2
      rw [List.map_map, List.zip_map']
      rfl
    rw [hstep]
    exact ih _ (fun d' hd' => h d' (List.mem_cons_of_mem _ hd'))

/-! ## folds of row maps -/

theorem foldl_map_rows {α} (f : α → Row → Row) : ∀ (xs : List α) (L : List (Nat × Row)),
    xs.foldl (fun L x => L.map (fun ir => (ir.1, f x ir.2))) L
      = L.map (fun ir => (ir.1, xs.foldl (fun r x => f x r) ir.2)) := by
  intro xs
  induction xs with
  | nil => intro L; simp
  | cons x xs ih =>
    intro L
    rw [List.foldl_cons, ih, List.map_map]
    rfl

theorem foldl_get {α} (f : α → Row → Row) (φ : α → RowF → RowF)
    (hf : ∀ x r y, Row.get (f x r) y = φ x (fun z => Row.get r z) y) : ∀ (xs : List α) (r : Row),
    (fun y => Row.get (xs.foldl (fun r x => f x r) r) y) = xs.foldl (fun F x => φ x F) (fun y => Row.get r y) := by
  intro xs
  induction xs with
  | nil => intro r; rfl
  | cons x xs ih =>
    intro r
    rw [List.foldl_cons, List.foldl_cons, ih]
    congr 1
    funext y
    exact hf x r y

theorem foldl_rowOK {α} (f : α → Row → Row) : ∀ (xs : List α) (r : Row),
    (∀ x ∈ xs, ∀ r, RowOK r → RowOK (f x r)) → RowOK r → RowOK (xs.foldl (fun r x => f x r) r) := by
  intro xs
  induction xs with
  | nil => intro r _ h; exact h
  | cons x xs ih =>
    intro r hf h
    rw [List.foldl_cons]
    exact ih _ (fun x' hx' => hf x' (List.mem_cons_of_mem _ hx')) (hf x (List.mem_cons_self ..) r h)

/-! ## the ancestry `applyParams` writes, as weights -/

theorem wsum_anc (j : Nat) : ∀ (row : List Q) (n k : Nat),
    wsum (((row.zipIdx n).filter (fun (po : Q × Nat) => j ≠ po.2 && po.1 > 0)).map (fun po => (po.2 + 1, po.1))) k
      = if n + 1 ≤ k ∧ k - 1 ≠ j ∧ 0 < row.getD (k - 1 - n) 0 then row.getD (k - 1 - n) 0 else 0 := by
  intro row
  induction row with
  | nil => intro n k; simp [wsum]
  | cons v row ih =>
    intro n k
    rw [List.zipIdx_cons]
    by_cases hk : k = n + 1
    · subst hk
      have ih' := ih (n + 1) (n + 1)
      rw [if_neg (by omega)] at ih'
      have hz : n + 1 - 1 - n = 0 := by omega
      rw [hz]
      simp only [List.getD_cons_zero, Nat.add_sub_cancel]
      by_cases hc : (decide (j ≠ n) && decide (v > 0)) = true
      · rw [List.filter_cons_of_pos (p := fun (po : Q × Nat) => decide (j ≠ po.2) && decide (po.1 > 0)) (a := (v, n)) hc, List.map_cons, wsum_cons, ih', if_pos rfl]
        simp only [Bool.and_eq_true, decide_eq_true_eq] at hc
        rw [if_pos ⟨Nat.le_refl _, fun e => hc.1 e.symm, hc.2⟩]
        ring
      · rw [List.filter_cons_of_neg (p := fun (po : Q × Nat) => decide (j ≠ po.2) && decide (po.1 > 0)) (a := (v, n)) hc, ih']
        simp only [Bool.and_eq_true, decide_eq_true_eq, not_and] at hc
        rw [if_neg]
        intro ⟨_, h2, h3⟩
        exact hc (fun e => h2 e.symm) h3
    · by_cases hc : (decide (j ≠ n) && decide (v > 0)) = true
      · rw [List.filter_cons_of_pos (p := fun (po : Q × Nat) => decide (j ≠ po.2) && decide (po.1 > 0)) (a := (v, n)) hc, List.map_cons, wsum_cons, ih (n + 1) k, if_neg (fun e => hk e.symm)]
        by_cases hlt : n + 2 ≤ k
        · have e1 : k - 1 - n = (k - 1 - (n + 1)) + 1 := by omega
          rw [e1, List.getD_cons_succ]
          have : (n + 1 ≤ k) = True := by simp; omega
          have : (n + 1 + 1 ≤ k) = True := by simp; omega
          simp [*]
        · rw [if_neg (by omega), if_neg (by omega)]; ring
      · rw [List.filter_cons_of_neg (p := fun (po : Q × Nat) => decide (j ≠ po.2) && decide (po.1 > 0)) (a := (v, n)) hc, ih (n + 1) k]
        by_cases hlt : n + 2 ≤ k
        · have e1 : k - 1 - n = (k - 1 - (n + 1)) + 1 := by omega
          rw [e1, List.getD_cons_succ]
          have : (n + 1 ≤ k) = True := by simp; omega
          have : (n + 1 + 1 ≤ k) = True := by simp; omega
          simp [*]
        · rw [if_neg (by omega), if_neg (by omega)]

theorem wsum_ancOf (g : GState) (j k : Nat) :
    wsum ((ancOf g j).map (fun po => (po.2 + 1, po.1))) k
      = if 1 ≤ k ∧ k - 1 ≠ j ∧ 0 < lmGet g.lm j (k - 1) then lmGet g.lm j (k - 1) else 0 := by
  unfold ancOf lmGet
  have := wsum_anc j (g.lm.getD j []) 0 k
  simpa using this

theorem anc_nonempty_iff (g : GState) (j : Nat) :
    (ancOf g j).isEmpty = false ↔ ∃ x, x ≠ j ∧ 0 < lmGet g.lm j x := by
  unfold ancOf lmGet
  generalize g.lm.getD j [] = row
  constructor
  · intro h
    have hne : (row.zipIdx.filter (fun (po : Q × Nat) => j ≠ po.2 && po.1 > 0)) ≠ [] := by
      intro e; rw [e] at h; cases h
    obtain ⟨po, hpo⟩ := List.exists_mem_of_ne_nil _ hne
    obtain ⟨hm, hc⟩ := List.mem_filter.mp hpo
    simp only [Bool.and_eq_true, decide_eq_true_eq] at hc
    have hz := List.mem_zipIdx' hm
    refine ⟨po.2, fun e => hc.1 e.symm, ?_⟩
    rw [List.getD_eq_getElem?_getD, List.getElem?_eq_getElem hz.1, Option.getD_some, ← hz.2]
    exact hc.2
  · intro ⟨x, hx, hp⟩
    have hlt : x < row.length := by
      by_contra hge
      rw [List.getD_eq_getElem?_getD, List.getElem?_eq_none_iff.mpr (by omega)] at hp
      exact Rat.lt_irrefl hp
    have hmem : (row[x], x) ∈ row.zipIdx := by
      rw [List.mem_zipIdx_iff_getElem?]
      simp [hlt]
    have : (row[x], x) ∈ row.zipIdx.filter (fun (po : Q × Nat) => j ≠ po.2 && po.1 > 0) := by
      rw [List.mem_filter]
      refine ⟨hmem, ?_⟩
      rw [List.getD_eq_getElem?_getD, List.getElem?_eq_getElem hlt, Option.getD_some] at hp
      simp only [Bool.and_eq_true, decide_eq_true_eq]
      exact ⟨fun e => hx e.symm, hp⟩
    cases hh : (row.zipIdx.filter (fun (po : Q × Nat) => j ≠ po.2 && po.1 > 0)) with
    | nil => rw [hh] at this; cases this
    | cons a b => rfl

theorem ancOf_lt (g : GState) (j N : Nat) (hlen : ∀ row ∈ g.lm, row.length = N) : ∀ po ∈ ancOf g j, po.2 < N := by
  intro po hpo
  unfold ancOf at hpo
  have hm := (List.mem_filter.mp hpo).1
  have hz := List.mem_zipIdx' hm
  have h1 : po.2 < (g.lm.getD j []).length := hz.1
  by_cases hj : j < g.lm.length
  · have : g.lm.getD j [] ∈ g.lm := by
      rw [List.getD_eq_getElem?_getD, List.getElem?_eq_getElem hj]
      exact List.getElem_mem hj
    rw [hlen _ this] at h1
    exact h1
  · rw [List.getD_eq_getElem?_getD, List.getElem?_eq_none_iff.mpr (by omega)] at h1
    simp at h1

/-! ## the rows `groupMoves` starts from -/

theorem filter_map_zipIdx {α β γ} (P : α → Bool) (Qb : β → Bool) (φ : α → γ) (ψ : β × Nat → γ) :
    ∀ (ds : List α) (ps : List β) (k : Nat), ps.length ≤ ds.length →
    (∀ (i : Nat) (d : α), ds[i]? = some d →
      (match ps[i]? with
       | some p => P d = Qb p ∧ φ d = ψ (p, k + i)
       | none => P d = false)) →
    (ds.filter P).map φ = ((ps.zipIdx k).filter (fun pi => Qb pi.1)).map ψ := by
  intro ds
  induction ds with
  | nil =>
    intro ps k hl h
    cases ps with
    | nil => rfl
    | cons p ps => simp at hl
  | cons d ds ih =>
    intro ps k hl h
    cases ps with
    | nil =>
      have h0 := h 0 d rfl
      simp only [List.getElem?_nil] at h0
      rw [List.filter_cons_of_neg (by simp [h0])]
      exact ih [] k (by simp) (fun i d' hd' => by
        have := h (i + 1) d' (by simpa using hd')
        simpa using this)
    | cons p ps =>
      have h0 := h 0 d rfl
      simp only [List.getElem?_cons_zero, Nat.add_zero] at h0
      have hrest := ih ps (k + 1) (by simpa using hl) (fun i d' hd' => by
        have := h (i + 1) d' (by simpa using hd')
        simp only [List.getElem?_cons_succ] at this
        have e : k + (i + 1) = k + 1 + i := by omega
        rw [e] at this
        exact this)
      rw [List.zipIdx_cons]
      by_cases hp : P d = true
      · rw [List.filter_cons_of_pos hp, List.filter_cons_of_pos (by rw [← h0.1]; exact hp), List.map_cons,
          List.map_cons, hrest, h0.2]
      · rw [List.filter_cons_of_neg hp, List.filter_cons_of_neg (by rw [← h0.1]; exact hp), hrest]

/-! ## the interpreter's rows keep their keys and stay well formed -/

theorem step_rowsOK {N0 : Q} {σ σ' : St} {L L' : List (Nat × Row)} {c : Cmd}
    (hs : Spec.MsSem.step N0 (σ, L) c = .ok (σ', L')) (hok : ∀ ir ∈ L, RowOK ir.2) :
    L'.map (·.1) = L.map (·.1) ∧ ∀ ir ∈ L', RowOK ir.2 := by
  by_cases hm : isMove c = true
  · cases c with
    | split t i p =>
      obtain ⟨⟨q, hq⟩, _, _, hL⟩ := step_split_ok hs
      obtain ⟨h1, _, _⟩ := pop_ok hq
      subst hL
      refine ⟨by simp [List.map_map, Function.comp_def], ?_⟩
      intro ir' hir'
      obtain ⟨ir, hir, rfl⟩ := List.mem_map.mp hir'
      exact Row.set_ok (Row.set_ok (hok ir hir) _ _ h1) _ _ (by omega)
    | join t i j =>
      obtain ⟨q, hq, ⟨q', hq'⟩, _, _, _, hL⟩ := step_join_ok hs
      obtain ⟨h1, _, _⟩ := pop_ok hq
      obtain ⟨h2, _, _⟩ := pop_ok hq'
      subst hL
      refine ⟨by simp [List.map_map, Function.comp_def], ?_⟩
      intro ir' hir'
      obtain ⟨ir, hir, rfl⟩ := List.mem_map.mp hir'
      exact Row.add_ok (Row.set_ok (hok ir hir) _ _ h1) _ _ h2
    | _ => cases hm
  · have := step_nonmove (by simpa using hm) hs
    subst this
    exact ⟨rfl, hok⟩

theorem steps_rowsOK {N0 : Q} : ∀ (cs : List Cmd) {σ σ' : St} {L L' : List (Nat × Row)},
    cs.foldlM (Spec.MsSem.step N0) (σ, L) = .ok (σ', L') → (∀ ir ∈ L, RowOK ir.2) →
    L'.map (·.1) = L.map (·.1) ∧ ∀ ir ∈ L', RowOK ir.2 := by
  intro cs
  induction cs with
  | nil => intro σ σ' L L' hs hok; cases hs; exact ⟨rfl, hok⟩
  | cons c cs ih =>
    intro σ σ' L L' hs hok
    rw [List.foldlM_cons] at hs
    obtain ⟨⟨σ1, L1⟩, hs1, hs⟩ := sbind_ok.1 hs
    obtain ⟨e1, o1⟩ := step_rowsOK hs1 hok
    obtain ⟨e2, o2⟩ := ih hs o1
    exact ⟨e2.trans e1, o2⟩

theorem nsat_of_bool : ∀ (ops : List MOp), noSourceAfterTarget ops = true → NSAT ops := by
  intro ops
  induction ops with
  | nil => intro _; exact List.Pairwise.nil
  | cons o r ih =>
    intro h
    simp only [noSourceAfterTarget, Bool.and_eq_true, List.all_eq_true, decide_eq_true_eq] at h
    exact List.Pairwise.cons (fun o' ho' => h.1 o' ho') (ih h.2)

end Demes.Proofs.FromMs
