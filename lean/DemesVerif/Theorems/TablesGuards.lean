/-
  Semantic tie of the numeric guard conditions used while resolving a document
  (validators, `Epoch` / `AsymmetricMigration` / `Pulse.__attrs_post_init__`, `Graph._add_deme`,
  `_check_time_intersection`, `_add_asymmetric_migration`, `_add_pulse`).

  `Generated/Guards.lean` holds, regenerated on every run, the *meaning* of each `if <cond>: raise`
  of /repo's demes/demes.py as a Lean `Bool` function over document numbers (IEEE comparisons).
  Each theorem below says, for ALL inputs, that the generated guard is the test the Model makes
  at that place: `tie_*` theorems are about the Model's own functions (`vPositive`, `addEpoch`,
  `addDemeHeader`, `timeIntersection`, `addAsymmetricMigration`, `addPulse`, `interpValidator`);
  `guard_*` are the pointwise equivalences they rest on (generated guard on validated values =
  the Model's inline expression).  Arguments are passed by name, so reordering conjuncts in the
  source is harmless; a changed comparison, a dropped conjunct or a different attribute makes the
  corresponding theorem fail to compile: a broken proof obligation (DESIGN §4.1, §5.3).

  The extractor alpha-normalises every function before translating it, so a LOCAL variable of the
  source never appears under its own name here or in any other `TablesGuards*.lean`: positional
  parameters of private / nested functions are `p0, p1, …`, the other locals `v0, v1, …` in the order
  of their first binding (`self_v1_start_time` is `self[source].start_time` in `_add_pulse`; the
  docstring of each generated definition shows the source's spelling and the legend).  A consistent
  renaming of locals in the source therefore changes nothing below; exchanging two locals in a test,
  or reading another local, does.
-/
import DemesVerif.Generated.Guards
import DemesVerif.Proofs.Guards
namespace Demes.Tables
open Demes Demes.Proofs.Guards
set_option linter.unusedSimpArgs false

/-! ### where the guards sit -/

/-- number of `if` statements / of raising `if` statements of each function read: a new or a
deleted rejection shows here -/
theorem guards_sites_resolve : Generated.guardSitesResolve =
    [("int_or_float", 1, 1), ("positive", 1, 1), ("non_negative", 1, 1), ("finite", 1, 1),
     ("unit_interval", 1, 1), ("unit_interval_exclusive_lo", 1, 1), ("sum_less_than_one", 1, 1),
     ("Epoch.__attrs_post_init__", 3, 3), ("AsymmetricMigration.__attrs_post_init__", 2, 2),
     ("Pulse.__attrs_post_init__", 4, 4), ("Graph._add_deme", 11, 6),
     ("Graph._check_time_intersection", 2, 1), ("Graph._add_asymmetric_migration", 4, 2),
     ("Graph._add_pulse", 5, 3)] := by decide +kernel

/-- the loops / conditions that enclose each guard -/
theorem guards_context_resolve : Generated.guardContextResolve =
    [("guard_int_or_float", []), ("guard_positive", []), ("guard_non_negative", []), ("guard_finite", []),
     ("guard_unit_interval", []), ("guard_unit_interval_exclusive_lo", []), ("guard_sum_less_than_one", []),
     ("guard_epoch_order", []), ("guard_epoch_inf_constant", []), ("guard_epoch_constant_sizes", []),
     ("guard_migration_same_deme", []), ("guard_migration_order", []), ("guard_pulse_sum", []),
     ("guard_add_deme_no_ancestors", []),
     ("guard_add_deme_alive", ["for v0 in ancestors"]),
     ("guard_time_intersection", ["if p2 is not None"]),
     ("guard_migration_overlap", ["for v4 in self.migrations"]),
     ("guard_pulse_dest_end", []),
     ("guard_pulse_source_start", ["for v1 in sources"])] := by decide +kernel

/-! ### validators (Model: `intOrFloat`, `vPositive`, `vNonNegative`, `vFinite`, `vUnitInterval`,
`vUnitIntervalExLo`).  In every validator list of the library `int_or_float` comes first (pinned
by `tables_defaults_*` / `tables_class_*`) and the Model calls the `v…` helpers only after
`intOrFloat`, so they only ever see numbers that are not NaN: that is the hypothesis `h`.  The
`guards_tie_<list>` corollaries below have no hypothesis. -/

/-- `int_or_float` on a number: rejects exactly NaN (`value != value`), whatever `hasattr` says -/
theorem guards_tie_int_or_float (n : Num) (hasFloat : Bool) :
    (intOrFloat (.num n)).isOk = !Generated.guard_int_or_float
      (isinstance_value_numbers_Real := true) (hasattr_value_float := hasFloat) (value := n) := by
  unfold Generated.guard_int_or_float intOrFloat
  cases n <;> cases hasFloat <;> guard_close

/-- `int_or_float` on something that is neither a `numbers.Real` nor has `__float__`: raises
(Model: `asNumRaw? = none`) -/
theorem guards_tie_int_or_float_not_number (v : Value) (h : v.asNumRaw? = none) (x : Num) :
    (intOrFloat v).isOk = !Generated.guard_int_or_float
      (isinstance_value_numbers_Real := false) (hasattr_value_float := false) (value := x) := by
  unfold Generated.guard_int_or_float intOrFloat
  rw [h]
  cases x <;> guard_close

/-- an object that is not a `numbers.Real` but has `__float__` (numpy scalars, `Decimal`) is
tested for NaN like a number -/
theorem guard_int_or_float_duck_meaning (n : Num) :
    Generated.guard_int_or_float (isinstance_value_numbers_Real := false) (hasattr_value_float := true)
      (value := n) = n.isNan := by
  unfold Generated.guard_int_or_float
  cases n <;> guard_close

theorem guards_tie_positive (n : Num) (h : n.isNan = false) :
    (vPositive n).isOk = !Generated.guard_positive (value := n) := by
  unfold Generated.guard_positive vPositive
  cases n <;> guard_close

theorem guards_tie_non_negative (n : Num) (h : n.isNan = false) :
    (vNonNegative n).isOk = !Generated.guard_non_negative (value := n) := by
  unfold Generated.guard_non_negative vNonNegative
  cases n <;> guard_close

theorem guards_tie_finite (n : Num) (h : n.isNan = false) :
    (vFinite n).isOk = !Generated.guard_finite (value := n) := by
  unfold Generated.guard_finite vFinite
  cases n <;> guard_close

theorem guards_tie_unit_interval (n : Num) (h : n.isNan = false) :
    (vUnitInterval n).isOk = !Generated.guard_unit_interval (value := n) := by
  unfold Generated.guard_unit_interval vUnitInterval
  cases n <;> guard_close

theorem guards_tie_unit_interval_exclusive_lo (n : Num) (h : n.isNan = false) :
    (vUnitIntervalExLo n).isOk = !Generated.guard_unit_interval_exclusive_lo (value := n) := by
  unfold Generated.guard_unit_interval_exclusive_lo vUnitIntervalExLo
  cases n <;> guard_close

/-- closes the validator-list corollaries: run the list on each kind of number -/
macro "validator_list_close" : tactic => `(tactic| (
  simp only [posFiniteQ, nonNegFiniteQ, unitQ, unitExLoQ, posTime, nonNegTime, intOrFloat, vPositive,
    vNonNegative, vFinite, vUnitInterval, vUnitIntervalExLo, bind, Except.bind]
  all_goals guard_close))

/-- `[int_or_float, positive, finite]` (sizes, `generation_time`, pulse times) -/
theorem guards_tie_list_positive_finite (n : Num) (hasFloat : Bool) :
    (posFiniteQ (.num n)).isOk = !(Generated.guard_int_or_float (isinstance_value_numbers_Real := true)
      (hasattr_value_float := hasFloat) (value := n)
      || Generated.guard_positive (value := n) || Generated.guard_finite (value := n)) := by
  unfold Generated.guard_int_or_float Generated.guard_positive Generated.guard_finite
  cases n <;> cases hasFloat <;> validator_list_close

/-- `[int_or_float, non_negative, finite]` (end times) -/
theorem guards_tie_list_non_negative_finite (n : Num) (hasFloat : Bool) :
    (nonNegFiniteQ (.num n)).isOk = !(Generated.guard_int_or_float (isinstance_value_numbers_Real := true)
      (hasattr_value_float := hasFloat) (value := n)
      || Generated.guard_non_negative (value := n) || Generated.guard_finite (value := n)) := by
  unfold Generated.guard_int_or_float Generated.guard_non_negative Generated.guard_finite
  cases n <;> cases hasFloat <;> validator_list_close

/-- `[int_or_float, positive]` (deme start times) -/
theorem guards_tie_list_positive (n : Num) (hasFloat : Bool) :
    (posTime (.num n)).isOk = !(Generated.guard_int_or_float (isinstance_value_numbers_Real := true)
      (hasattr_value_float := hasFloat) (value := n) || Generated.guard_positive (value := n)) := by
  unfold Generated.guard_int_or_float Generated.guard_positive
  cases n <;> cases hasFloat <;> validator_list_close

/-- `[int_or_float, non_negative]` (migration start times) -/
theorem guards_tie_list_non_negative (n : Num) (hasFloat : Bool) :
    (nonNegTime (.num n)).isOk = !(Generated.guard_int_or_float (isinstance_value_numbers_Real := true)
      (hasattr_value_float := hasFloat) (value := n) || Generated.guard_non_negative (value := n)) := by
  unfold Generated.guard_int_or_float Generated.guard_non_negative
  cases n <;> cases hasFloat <;> validator_list_close

/-- `[int_or_float, unit_interval]` (rates).  An infinite value is outside `[0, 1]`, so the
Model's final `toQ` never fails here. -/
theorem guards_tie_list_unit_interval (n : Num) (hasFloat : Bool) :
    (unitQ (.num n)).isOk = !(Generated.guard_int_or_float (isinstance_value_numbers_Real := true)
      (hasattr_value_float := hasFloat) (value := n) || Generated.guard_unit_interval (value := n)) := by
  unfold Generated.guard_int_or_float Generated.guard_unit_interval
  cases n <;> cases hasFloat <;> validator_list_close

/-- `[int_or_float, unit_interval_exclusive_lo]` (proportions) -/
theorem guards_tie_list_unit_interval_exclusive_lo (n : Num) (hasFloat : Bool) :
    (unitExLoQ (.num n)).isOk = !(Generated.guard_int_or_float (isinstance_value_numbers_Real := true)
      (hasattr_value_float := hasFloat) (value := n) || Generated.guard_unit_interval_exclusive_lo (value := n)) := by
  unfold Generated.guard_int_or_float Generated.guard_unit_interval_exclusive_lo
  cases n <;> cases hasFloat <;> validator_list_close

/-- `sum_less_than_one` (last member of the validator of `defaults.pulse.proportions`): on a
non-empty list of member-wise valid proportions the Model's interpretation of that validator
rejects exactly when the guard, as a function of the sum, raises -/
theorem guards_tie_sum_less_than_one (xs : List Value) (qs : List Q) (hne : xs.isEmpty = false)
    (hq : xs.mapM unitExLoQ = .ok qs) :
    (interpValidator txtPulseProportions (.list xs)).isOk
      = !Generated.guard_sum_less_than_one (sum_value := Num.fin (qsum qs)) := by
  unfold Generated.guard_sum_less_than_one
  simp [interpValidator, txtPulseProportions, txtNames, instList_list, hne, hq, bind, Except.bind, valueErr, pure, Except.pure]
  split <;> guard_close

example : pulseDefaultsTable.any (fun f => f.name = "proportions" && f.validator = txtPulseProportions) = true := by
  decide +kernel
example : ([Value.num (.fin (1/2)), Value.num (.fin (3/4))].mapM unitExLoQ).toOption = some [1/2, 3/4]
    ∧ (interpValidator txtPulseProportions (.list [.num (.fin (1/2)), .num (.fin (3/4))])).isOk = false
    ∧ (interpValidator txtPulseProportions (.list [.num (.fin (1/2)), .num (.fin (1/2))])).isOk = true := by
  decide +kernel

/-! ### `Epoch.__attrs_post_init__` (Model: the three tests at the end of `addEpoch`) -/

theorem guard_epoch_order_meaning (startTime : ETime) (endTime : Q) :
    Generated.guard_epoch_order (self_start_time := Num.ofETime startTime) (self_end_time := Num.fin endTime) = true
      ↔ startTime ≤ ETime.fin endTime := by
  unfold Generated.guard_epoch_order
  cases startTime <;> guard_close

theorem guard_epoch_inf_constant_meaning (startTime : ETime) (startSize endSize : Q) :
    Generated.guard_epoch_inf_constant (self_start_time := Num.ofETime startTime)
      (self_start_size := Num.fin startSize) (self_end_size := Num.fin endSize)
      = (startTime.isInf && startSize ≠ endSize) := by
  unfold Generated.guard_epoch_inf_constant
  cases startTime <;> guard_close

theorem guard_epoch_constant_sizes_meaning (sizeFunction : String) (startSize endSize : Q) :
    Generated.guard_epoch_constant_sizes (self_size_function := sizeFunction)
      (self_start_size := Num.fin startSize) (self_end_size := Num.fin endSize)
      = (sizeFunction = "constant" && startSize ≠ endSize) := by
  unfold Generated.guard_epoch_constant_sizes
  guard_close

/-- `addEpoch` makes exactly the three tests of the source's `Epoch.__attrs_post_init__` -/
theorem guards_tie_add_epoch : addEpoch = addEpochWith
    (fun st et => Generated.guard_epoch_order (self_start_time := st) (self_end_time := et))
    (fun st ss es => Generated.guard_epoch_inf_constant (self_start_time := st) (self_start_size := ss)
      (self_end_size := es))
    (fun sf ss es => Generated.guard_epoch_constant_sizes (self_size_function := sf) (self_start_size := ss)
      (self_end_size := es)) := by
  funext demeStart epochs e
  unfold addEpoch addEpochWith
  simp only [guard_epoch_order_meaning, guard_epoch_inf_constant_meaning, guard_epoch_constant_sizes_meaning]
  first | done | rfl

/-! ### `Graph._add_deme` (Model: `addDemeHeader`) -/

theorem guard_add_deme_no_ancestors_meaning (ancestors : List String) (startTime : Num) :
    Generated.guard_add_deme_no_ancestors (len_ancestors := ancestors.length) (start_time := startTime)
      = (ancestors.isEmpty && !startTime.isInf) := by
  unfold Generated.guard_add_deme_no_ancestors
  cases ancestors <;> guard_close

/-- the ancestor-alive test, for every document number `start_time` (NaN included) -/
theorem guard_add_deme_alive_meaning (ancStart : ETime) (ancEnd : Q) (startTime : Num) :
    Generated.guard_add_deme_alive (self_v0_start_time := Num.ofETime ancStart) (start_time := startTime)
      (self_v0_end_time := Num.fin ancEnd) = true
      ↔ ¬ ((Num.lt startTime (Num.ofETime ancStart) && Num.le (Num.fin ancEnd) startTime) = true) := by
  unfold Generated.guard_add_deme_alive
  cases ancStart <;> cases startTime <;> guard_close

/-- `addDemeHeader` makes exactly the source's "no ancestors ⇒ infinite start" and
"start time within the ancestor's lifetime" tests -/
theorem guards_tie_add_deme_header : addDemeHeader = addDemeHeaderWith
    (fun n st => Generated.guard_add_deme_no_ancestors (len_ancestors := n) (start_time := st))
    (fun as st ae => Generated.guard_add_deme_alive (self_v0_start_time := as) (start_time := st)
      (self_v0_end_time := ae)) := by
  funext g nameV descriptionV ancestorsV proportionsV startTimeV
  unfold addDemeHeader addDemeHeaderWith
  simp only [guard_add_deme_no_ancestors_meaning, guard_add_deme_alive_meaning, ite_not]
  first | done | rfl

/-! ### `Graph._check_time_intersection` (Model: `timeIntersection`) -/

/-- for every document number `time` (NaN included); `time_lo` / `time_hi` are the source's
`max` of the end times / `min` of the start times -/
theorem guard_time_intersection_meaning (e1 e2 : Q) (s1 s2 : ETime) (t : Num) :
    Generated.guard_time_intersection (p0_end_time := Num.fin e1) (p1_end_time := Num.fin e2)
      (p0_start_time := Num.ofETime s1) (p1_start_time := Num.ofETime s2) (p2 := t)
      = !(Num.le (Num.fin (qmax e1 e2)) t && Num.le t (Num.ofETime (ETime.min s1 s2))) := by
  unfold Generated.guard_time_intersection
  cases s1 <;> cases s2 <;> cases t <;> guard_close

/-- `timeIntersection` on two demes of the graph and a numeric time: raises exactly when the
source's guard does, and otherwise returns the bounds -/
theorem guards_tie_time_intersection (g : Graph) (n1 n2 : String) (d1 d2 : Deme)
    (h1 : getDeme g n1 = .ok d1) (h2 : getDeme g n2 = .ok d2) (v : Value) (t : Num)
    (hv : v.asNumRaw? = some t) :
    timeIntersection g n1 n2 (some v)
      = if Generated.guard_time_intersection (p0_end_time := Num.fin d1.endTime)
            (p1_end_time := Num.fin d2.endTime) (p0_start_time := Num.ofETime d1.startTime)
            (p1_start_time := Num.ofETime d2.startTime) (p2 := t)
        then valueErr "time not in the time-intersection of the two demes"
        else pure (qmax d1.endTime d2.endTime, ETime.min d1.startTime d2.startTime) := by
  simp only [timeIntersection, h1, h2, hv, guard_time_intersection_meaning, bind, Except.bind]
  cases (Num.le (Num.fin (qmax d1.endTime d2.endTime)) t
    && Num.le t (Num.ofETime (ETime.min d1.startTime d2.startTime))) <;> rfl

/-! ### `AsymmetricMigration.__attrs_post_init__` and the overlap test of
`Graph._add_asymmetric_migration` (Model: `addAsymmetricMigration`) -/

theorem guard_migration_same_deme_meaning (source dest : String) :
    Generated.guard_migration_same_deme (self_source := source) (self_dest := dest) = true ↔ source = dest := by
  unfold Generated.guard_migration_same_deme
  guard_close

theorem guard_migration_order_meaning (startTime : ETime) (endTime : Q) :
    Generated.guard_migration_order (self_start_time := Num.ofETime startTime) (self_end_time := Num.fin endTime)
      = !decide (ETime.fin endTime < startTime) := by
  unfold Generated.guard_migration_order
  cases startTime <;> guard_close

/-- two migrations of one ordered pair overlap: same source, same dest, each starts before the
other ends (all four conjuncts) -/
theorem guard_migration_overlap_meaning (oSource oDest source dest : String) (oStart startTime : ETime)
    (oEnd endTime : Q) :
    Generated.guard_migration_overlap (v4_source := oSource) (v3_source := source)
      (v4_dest := oDest) (v3_dest := dest)
      (v4_start_time := Num.ofETime oStart) (v3_end_time := Num.fin endTime)
      (v3_start_time := Num.ofETime startTime) (v4_end_time := Num.fin oEnd)
      = (oSource = source && oDest = dest && decide (ETime.fin endTime < oStart)
          && decide (ETime.fin oEnd < startTime)) := by
  unfold Generated.guard_migration_overlap
  cases oStart <;> cases startTime <;> guard_close

theorem guards_tie_add_asymmetric_migration : addAsymmetricMigration = addAsymmetricMigrationWith
    (fun s d => Generated.guard_migration_same_deme (self_source := s) (self_dest := d))
    (fun st et => Generated.guard_migration_order (self_start_time := st) (self_end_time := et))
    (fun os ms od md ost met mst oet => Generated.guard_migration_overlap (v4_source := os)
      (v3_source := ms) (v4_dest := od) (v3_dest := md) (v4_start_time := ost)
      (v3_end_time := met) (v3_start_time := mst) (v4_end_time := oet)) := by
  funext g sourceV destV rateV startTimeV endTimeV
  unfold addAsymmetricMigration addAsymmetricMigrationWith
  simp only [guard_migration_same_deme_meaning, guard_migration_order_meaning, guard_migration_overlap_meaning]
  first | done | rfl

/-! ### `Graph._add_pulse`, `Pulse.__attrs_post_init__` (Model: `addPulse`) -/

/-- `time == self[dest].end_time`, for every document number `time` (`tRaw = none`: not a number,
rejected before) -/
theorem guard_pulse_dest_end_meaning (tRaw : Option Num) (destEnd : Q) :
    (tRaw.any fun t => Generated.guard_pulse_dest_end (time := t) (self_dest_end_time := Num.fin destEnd)) = true
      ↔ tRaw = some (Num.fin destEnd) := by
  unfold Generated.guard_pulse_dest_end
  rcases tRaw with _ | t
  · simp
  · cases t <;> guard_close

theorem guard_pulse_source_start_meaning (tRaw : Option Num) (srcStart : ETime) :
    (tRaw.any fun t => Generated.guard_pulse_source_start (time := t)
      (self_v1_start_time := Num.ofETime srcStart)) = true
      ↔ tRaw = some (Num.ofETime srcStart) := by
  unfold Generated.guard_pulse_source_start
  rcases tRaw with _ | t
  · simp
  · cases t <;> cases srcStart <;> guard_close

theorem guard_pulse_sum_meaning (s : Q) :
    Generated.guard_pulse_sum (sum_self_proportions := Num.fin s) = true ↔ s > 1 := by
  unfold Generated.guard_pulse_sum
  guard_close

theorem guards_tie_add_pulse : addPulse = addPulseWith
    (fun t e => Generated.guard_pulse_dest_end (time := t) (self_dest_end_time := e))
    (fun t s => Generated.guard_pulse_source_start (time := t) (self_v1_start_time := s))
    (fun s => Generated.guard_pulse_sum (sum_self_proportions := s)) := by
  funext g sourcesV destV timeV proportionsV
  unfold addPulse addPulseWith
  simp only [guard_pulse_dest_end_meaning, guard_pulse_source_start_meaning, guard_pulse_sum_meaning]
  first | done | rfl

/-! ### the `…With` functions really use their guard arguments (so the equations above are not
satisfied by an arbitrary guard): on concrete inputs, switching one guard changes the outcome -/

section sensitivity
open Obj

-- `addEpochWith`: first epoch of a deme starting at ∞, sizes 1 → 1, then sizes 1 → 2 on (10, 0]
example :
    let e : Obj := [("end_time", num 0), ("start_size", num 1)]
    (addEpoch .inf [] e).isOk = true
    ∧ (addEpochWith no2 (fun _ _ _ => false) (fun _ _ _ => false) .inf [] e).isOk = true
    ∧ (addEpochWith yes2 (fun _ _ _ => false) (fun _ _ _ => false) .inf [] e).isOk = false
    ∧ (addEpochWith no2 (fun _ _ _ => true) (fun _ _ _ => false) .inf [] e).isOk = false
    ∧ (addEpochWith no2 (fun _ _ _ => false) (fun _ _ _ => true) .inf [] e).isOk = false := by
  decide +kernel
-- … and the real tests: end ≥ start, infinite start with a size change, "constant" with a size change
example :
    (addEpoch (.fin 5) [] [("end_time", num 5), ("start_size", num 1)]).isOk = false
    ∧ (addEpoch .inf [] [("end_time", num 0), ("start_size", num 1), ("end_size", num 2)]).isOk = false
    ∧ (addEpoch (.fin 5) [] [("end_time", num 0), ("start_size", num 1), ("end_size", num 2),
          ("size_function", .str "constant")]).isOk = false
    ∧ (addEpoch (.fin 5) [] [("end_time", num 0), ("start_size", num 1), ("end_size", num 2)]).isOk = true := by
  decide +kernel

-- `addDemeHeaderWith`: a root deme, and a child of `a` starting at 5
example :
    (addDemeHeader exGraph (.str "c") (.str "") none none none).isOk = true
    ∧ (addDemeHeaderWith (fun _ _ => true) (fun _ _ _ => false) exGraph (.str "c") (.str "") none none none).isOk = false
    ∧ (addDemeHeader exGraph (.str "c") (.str "") (some (.list [.str "b"])) none (some (num 5))).isOk = true
    ∧ (addDemeHeaderWith (fun _ _ => false) (fun _ _ _ => true) exGraph (.str "c") (.str "")
        (some (.list [.str "b"])) none (some (num 5))).isOk = false := by
  decide +kernel
-- the real tests: finite start without ancestors; start at / above the ancestor's start; at its end
example :
    (addDemeHeader exGraph (.str "c") (.str "") none none (some (num 5))).isOk = false
    ∧ (addDemeHeader exGraph (.str "c") (.str "") (some (.list [.str "b"])) none (some (num 10))).isOk = false
    ∧ (addDemeHeader exGraph (.str "c") (.str "") (some (.list [.str "b"])) none (some (num 11))).isOk = false
    ∧ (addDemeHeader exGraphM (.str "c") (.str "") (some (.list [.str "a"])) none (some (.num .pinf))).isOk = false := by
  decide +kernel

-- `timeIntersection`: a and b coexist on [0, 10]
example : (getDeme exGraph "a").toOption = some exA ∧ (getDeme exGraph "b").toOption = some exB
    ∧ (timeIntersection exGraph "a" "b" (some (num 10))).isOk = true
    ∧ (timeIntersection exGraph "a" "b" (some (num 0))).isOk = true
    ∧ (timeIntersection exGraph "a" "b" (some (num 11))).isOk = false
    ∧ (timeIntersection exGraph "a" "b" (some (.num .nan))).isOk = false := by
  decide +kernel

-- `addAsymmetricMigrationWith`: a second migration a → b
example :
    (addAsymmetricMigration exGraphM (.str "a") (.str "b") (num (1/10)) (some (num 2)) (some (num 1))).isOk = true
    ∧ (addAsymmetricMigrationWith (fun _ _ => true) no2 (fun _ _ _ _ _ _ _ _ => false)
        exGraphM (.str "a") (.str "b") (num (1/10)) (some (num 2)) (some (num 1))).isOk = false
    ∧ (addAsymmetricMigrationWith (fun _ _ => false) yes2 (fun _ _ _ _ _ _ _ _ => false)
        exGraphM (.str "a") (.str "b") (num (1/10)) (some (num 2)) (some (num 1))).isOk = false
    ∧ (addAsymmetricMigrationWith (fun _ _ => false) no2 (fun _ _ _ _ _ _ _ _ => true)
        exGraphM (.str "a") (.str "b") (num (1/10)) (some (num 2)) (some (num 1))).isOk = false := by
  decide +kernel
-- the real tests: abutting is fine (above), overlapping by any amount is not, the other direction is
example :
    (addAsymmetricMigration exGraphM (.str "a") (.str "b") (num (1/10)) (some (num 3)) (some (num 1))).isOk = false
    ∧ (addAsymmetricMigration exGraphM (.str "a") (.str "b") (num (1/10)) (some (num 9)) (some (num 8))).isOk = true
    ∧ (addAsymmetricMigration exGraphM (.str "a") (.str "b") (num (1/10)) (some (num 9)) (some (num 7))).isOk = false
    ∧ (addAsymmetricMigration exGraphM (.str "b") (.str "a") (num (1/10)) (some (num 9)) (some (num 1))).isOk = true
    ∧ (addAsymmetricMigration exGraphM (.str "a") (.str "b") (num (1/10)) (some (num 2)) (some (num 2))).isOk = false := by
  decide +kernel

-- `addPulseWith`: a pulse a → b at 5
example :
    (addPulse exGraph (.list [.str "a"]) (.str "b") (num 5) (.list [num (1/2)])).isOk = true
    ∧ (addPulseWith yes2 no2 (fun _ => false) exGraph (.list [.str "a"]) (.str "b") (num 5) (.list [num (1/2)])).isOk = false
    ∧ (addPulseWith no2 yes2 (fun _ => false) exGraph (.list [.str "a"]) (.str "b") (num 5) (.list [num (1/2)])).isOk = false
    ∧ (addPulseWith no2 no2 (fun _ => true) exGraph (.list [.str "a"]) (.str "b") (num 5) (.list [num (1/2)])).isOk = false := by
  decide +kernel
-- the real tests: at the destination's end, at the source's start
example :
    (addPulse exGraph (.list [.str "a"]) (.str "b") (num 0) (.list [num (1/2)])).isOk = false
    ∧ (addPulse exGraph (.list [.str "b"]) (.str "a") (num 10) (.list [num (1/2)])).isOk = false
    ∧ (addPulse exGraph (.list [.str "b"]) (.str "a") (num 5) (.list [num (1/2)])).isOk = true := by
  decide +kernel

end sensitivity

end Demes.Tables
