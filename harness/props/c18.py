"""C18 — resolution is a pure function of its input.

Observes the REAL code (object identity and mutation are run-time facts) and ties the heap
abstraction of lean/DemesVerif/Model/Heap.lean to Python's dict/list semantics:

  (a) deep snapshot (structure + id() of every container + aliasing) of the input before and
      after Graph.fromdict / Builder.fromdict(doc).resolve(), on valid AND invalid documents,
      with and without aliasing, with logging dict / list / MutableMapping containers that
      record every mutating method call;
  (b) resolve twice: equal asdict() or the same exception class; accept/reject and result
      compared with the Model (`resolve` on the unfolded document, `heap_resolve` on the
      document with its aliasing);
  (c) histories resolve / mutate / resolve ... of length <= 6 on one Builder;
  (d) scrambling the input, the Builder's data and returned dictionary forms afterwards;
  (e) graphs built from shared default objects: in_generations / rename_demes results;
  (h) heap model vs Python: deepcopy_unaliased, copy.deepcopy, mutation scripts.
"""
from __future__ import annotations

import base64
import collections.abc
import copy
import itertools
import math
import pickle
import random
import warnings

import attr

from props.common import *  # noqa: F401,F403
from props.builder_route import check_builder_routes, check_builder_calls

import demes.demes as dd

warnings.simplefilter("ignore")

RULE = ("generated valid documents (harness/gen_graphs.py, all spellings) and 1-3 random corruptions of them (field "
        "deleted / misspelt / retyped, bad values, reordered or emptied lists), each also with aliasing added (a "
        "sub-object replaced by a reference to another dict/list of the document, equal sub-objects merged, a cyclic "
        "document) and held in logging dict/list/MutableMapping containers; histories of <= 6 steps on one Builder "
        "(resolve / in-place mutation of b.data at any depth / add_deme, add_migration, add_pulse with shared "
        "argument objects); random and small-scope-exhaustive heaps for the heap-model operations. A case is one "
        "(document, entry point) or one history or one heap request; non-trivial = the document has aliasing or is "
        "rejected or has >= 2 demes / the history has a mutation between two resolves / the heap has sharing")
ASSUMPTIONS = [
    "documents are JSON-like: containers are dict / list (or subclasses, or other MutableMapping), leaves are immutable "
    "(None, bool, int, float, str); a mutable leaf of another type inside `metadata` (bytearray, a user class) is "
    "deep-copied on the way in but handed out by asdict() as is",
    "object identity and mutation are OBSERVED on the real code (id(), logging containers, before/after snapshots); "
    "they are modelled only through the heap abstraction (Model/Heap.lean: addresses, cells, programs over registers), "
    "which is tied to Python by comparing deepcopy_unaliased / copy.deepcopy / dict and list mutations on sampled heaps, "
    "not by proof: the level of this check is therefore limited by the run-time nature of aliasing",
    "the logging containers see Python-level method calls (data.pop, data[k] = v, ...); C-level writes that bypass "
    "them would still be caught by the before/after snapshot",
    "'same kind of error' is read as: the same exception class",
    "CPython's recursion limit stands for the Model's fuel (a cyclic or absurdly deep document raises RecursionError "
    "while being copied; nothing is modified)",
]
EXPLANATION = (
    "Lean: deepcopy_fresh / deepcopy_iso / deepcopy_unaliased (the copy made by fromdict consists of new objects only, "
    "denotes the same document, and is a tree), frame + program_confined (any code that is handed only the copy can "
    "mutate only the copy and what it allocates) => fromdict_preserves_input (success or failure), "
    "resolve_deterministic / resolve_again / resolve_alias_insensitive (the outcome is Demes.resolve of the denoted "
    "document), history_invariant / history_resolve_pure / history_graph_stable (every history of resolve / caller "
    "code / asdict on one Builder keeps the caller's part of the heap and each returned graph's part separate), "
    "memo_copy_counterexample (the repaired defect F1), with the AST facts that fromdict copies first and that "
    "Builder.resolve passes self.data. Python: the statement of C18 is evaluated directly on the real code "
    "(snapshots with identities, logging containers, repeated resolution, histories, scrambling of inputs and of "
    "returned dictionaries, copies made by in_generations / rename_demes), and the heap model's copy, memo copy and "
    "mutation semantics are compared with CPython's on random and exhaustively enumerated small heaps.")


# --------------------------------------------------------------------------------------
# logging containers
# --------------------------------------------------------------------------------------

class Log:
    def __init__(self):
        self.events = []
        self.on = False

    def rec(self, obj, what):
        if self.on:
            self.events.append((type(obj).__name__, id(obj), what))


def _logged(base, names):
    def make(name):
        orig = getattr(base, name)

        def method(self, *a, **k):
            self._log.rec(self, name)
            return orig(self, *a, **k)
        method.__name__ = name
        return method
    return {n: make(n) for n in names}


DICT_MUT = ["__setitem__", "__delitem__", "pop", "popitem", "clear", "update", "setdefault", "__ior__"]
LIST_MUT = ["__setitem__", "__delitem__", "append", "extend", "insert", "pop", "remove", "clear", "sort", "reverse",
            "__iadd__", "__imul__"]
LogDict = type("LogDict", (dict,), {"_log": None, **_logged(dict, DICT_MUT)})
LogList = type("LogList", (list,), {"_log": None, **_logged(list, LIST_MUT)})


class LogMapping(collections.abc.MutableMapping):
    """a MutableMapping that is not a dict (Graph.fromdict accepts any MutableMapping)"""

    def __init__(self, log):
        self._d = {}
        self._log = log

    def __getitem__(self, k):
        return self._d[k]

    def __setitem__(self, k, v):
        self._log.rec(self, "__setitem__")
        self._d[k] = v

    def __delitem__(self, k):
        self._log.rec(self, "__delitem__")
        del self._d[k]

    def __iter__(self):
        return iter(self._d)

    def __len__(self):
        return len(self._d)

    def __deepcopy__(self, memo):  # what copy.deepcopy would do with a user mapping
        new = LogMapping(self._log)
        memo[id(self)] = new
        new._d = copy.deepcopy(self._d, memo)
        return new


def is_map(x):
    return isinstance(x, collections.abc.MutableMapping)


def is_container(x):
    return is_map(x) or isinstance(x, list)


def children(x):
    if is_map(x):
        return list(x.values())
    if isinstance(x, list):
        return list(x)
    return []


def containers(root):
    """all containers reachable from root, by identity (cycle-safe), in pre-order"""
    seen, out, stack = set(), [], [root]
    while stack:
        x = stack.pop()
        if isinstance(x, tuple):
            # a tuple is immutable but what it holds is reachable (and may be mutable): walk through it
            stack.extend(reversed(list(x)))
            continue
        if not is_container(x) or id(x) in seen:
            continue
        seen.add(id(x))
        out.append(x)
        stack.extend(reversed(children(x)))
    return out


def has_aliasing(root):
    """some container is referenced from two places (or the graph is cyclic)"""
    refs = collections.Counter()
    for c in containers(root):
        for ch in children(c):
            if is_container(ch):
                refs[id(ch)] += 1
    return any(v > 1 for v in refs.values()) or (is_container(root) and refs[id(root)] > 0)


def is_cyclic(root):
    state = {}

    def visit(x):
        if not is_container(x):
            return False
        s = state.get(id(x))
        if s == 1:
            return True
        if s == 2:
            return False
        state[id(x)] = 1
        r = any(visit(ch) for ch in children(x))
        state[id(x)] = 2
        return r
    try:
        return visit(root)
    except RecursionError:
        return True


def atom_key(x):
    if isinstance(x, float) and math.isnan(x):
        return ("a", "float", "nan")
    return ("a", type(x).__name__, repr(x))


def snapshot(root):
    """structure + types + key order + id() of every container; shared objects are expanded once
    and referred to afterwards, so the snapshot also fixes the aliasing pattern (and cycles)."""
    seen = {}

    def go(x):
        if not is_container(x):
            return atom_key(x)
        if id(x) in seen:
            return ("ref", id(x))
        seen[id(x)] = True
        if is_map(x):
            return ("d", type(x).__name__, id(x), tuple((k, go(v)) for k, v in x.items()))
        return ("l", type(x).__name__, id(x), tuple(go(v) for v in x))
    return go(root)


def unfolded(x, depth=0):
    """a fresh, plain, un-aliased copy (raises RecursionError on cycles like the library)"""
    if is_map(x):
        return {k: unfolded(v, depth + 1) for k, v in x.items()}
    if isinstance(x, list):
        return [unfolded(v, depth + 1) for v in x]
    return x


def plain_alias(root):
    """plain dict/list containers with the same aliasing (for pickled reproductions)"""
    memo = {}

    def go(x):
        if not is_container(x):
            return x
        if id(x) in memo:
            return memo[id(x)]
        if is_map(x):
            new = {}
            memo[id(x)] = new
            for k, v in x.items():
                new[k] = go(v)
            return new
        new = []
        memo[id(x)] = new
        new.extend(go(v) for v in x)
        return new
    return go(root)


def to_logging(root, log, rng, mapping_prob=0.0):
    """the same object graph (aliasing preserved) in logging containers"""
    memo = {}

    def go(x):
        if not is_container(x):
            return x
        if id(x) in memo:
            return memo[id(x)]
        if is_map(x):
            new = LogMapping(log) if rng.random() < mapping_prob else LogDict()
            new._log = log
            memo[id(x)] = new
            for k, v in x.items():
                if isinstance(new, LogMapping):
                    new._d[k] = go(v)
                else:
                    dict.__setitem__(new, k, go(v))
            return new
        new = LogList()
        new._log = log
        memo[id(x)] = new
        for v in x:
            list.append(new, go(v))
        return new
    return go(root)


def pickled(root):
    try:
        return base64.b64encode(pickle.dumps(plain_alias(root))).decode()
    except Exception:  # noqa: BLE001
        return None


def repro(pk, body):
    return ("/venv/bin/python -c \"import pickle, base64, copy, demes; "
            f"doc = pickle.loads(base64.b64decode('{pk}')); {body}\"")


def attempt(call):
    """python source (for -c inside double quotes) that runs `call`, printing the exception class if it raises"""
    return f"exec('try:\\n g = {call}\\nexcept Exception as e: print(type(e).__name__)')"


def showdoc(x):
    try:
        return show(canon(unfolded(x)))
    except Exception:  # noqa: BLE001
        return "<cyclic or non-JSON document>"


# --------------------------------------------------------------------------------------
# outcomes of the real code
# --------------------------------------------------------------------------------------

_canon = canon


def canon(v):  # noqa: F811 - tolerant of foreign mappings leaking into a graph (mutants)
    def plain(x):
        if isinstance(x, collections.abc.Mapping):
            return {str(k): plain(y) for k, y in x.items()}
        if isinstance(x, (list, tuple)):
            return [plain(y) for y in x]
        return x
    try:
        return _canon(plain(v))
    except TypeError:
        return {"uncanonical": repr(v)[:200]}


def safe_canon(f):
    """canonical form of f(), or a marker if f raises (only mutants of the library get here)"""
    try:
        return canon(f())
    except Exception as e:  # noqa: BLE001
        return {"raised": type(e).__name__}


def outcome(fn):
    """('ok', canonical asdict, graph) | ('err', class name, message)"""
    try:
        g = fn()
    except RecursionError as e:
        return ("err", "RecursionError", str(e)[:80])
    except Exception as e:  # noqa: BLE001
        return ("err", type(e).__name__, str(e)[:200])
    return ("ok", safe_canon(g.asdict), g)


def same_outcome(a, b):
    if a[0] != b[0]:
        return False
    if a[0] == "ok":
        return canon_eq(a[1], b[1])
    return a[1] == b[1]


def brief(o):
    return ("ok", show(o[1])) if o[0] == "ok" else o


def model_encodable(x, depth=0):
    if depth > 60:
        return False
    if x is None or isinstance(x, (bool, str)):
        return True
    if isinstance(x, int):
        return abs(x) < 10 ** 30
    if isinstance(x, float):
        return True
    if is_map(x):
        return all(isinstance(k, str) and model_encodable(v, depth + 1) for k, v in x.items())
    if isinstance(x, list):
        return all(model_encodable(v, depth + 1) for v in x)
    return False


MODEL_CLASS = {"TypeError": "TypeError", "ValueError": "ValueError", "KeyError": "KeyError"}


def compare_with_model(ctx, op, case, code, reply):
    """accept/reject and the resolved dictionary; the exception class is only tallied"""
    ctx.compared += 1
    if "fail" in reply:
        ctx.disagreement(op, case, brief(code), reply)
        return
    if code[0] == "ok":
        if "ok" not in reply or not canon_eq(canon(dec(reply["ok"])), code[1]):
            ctx.disagreement(op, case, brief(code), reply)
    else:
        if "ok" in reply:
            ctx.disagreement(op, case, brief(code), {"ok": "..."})
        else:
            ctx.extra.setdefault("error_class_vs_model", collections.Counter())[
                "same" if reply.get("err") == code[1] else f"code {code[1]} / model {reply.get('err')}"] += 1


# --------------------------------------------------------------------------------------
# heap encoding of a Python object graph (Ops/Heap.lean wire format)
# --------------------------------------------------------------------------------------

def encode_heap(roots):
    """cells in pre-order of first visit; returns (cells, refs of the roots, objects by address)"""
    addr, objs = {}, []
    for r in roots:
        for c in containers(r):
            if id(c) not in addr:
                addr[id(c)] = len(objs)
                objs.append(c)

    def ref(x):
        return {"$ref": addr[id(x)]} if is_container(x) else {"v": enc(x)}
    cells = []
    for c in objs:
        if is_map(c):
            cells.append({"d": [[str(k), ref(v)] for k, v in c.items()]})
        else:
            cells.append({"l": [ref(v) for v in c]})
    return cells, [ref(r) for r in roots], objs


def py_unfold(fuel, x):
    """the Model's `unfold` on Python objects (None = out of fuel)"""
    if not is_container(x):
        return ("v", x)
    if fuel == 0:
        return None
    vals = []
    for ch in children(x):
        u = py_unfold(fuel - 1, ch)
        if u is None:
            return None
        vals.append(u[1])
    if is_map(x):
        return ("v", dict(zip(list(x.keys()), vals)))
    return ("v", vals)


def py_walk_pattern(root):
    """pre-order walk of container occurrences with first-occurrence numbering (acyclic input)"""
    first, out = {}, []

    def go(x):
        if not is_container(x):
            return
        out.append(first.setdefault(id(x), len(first)))
        for ch in children(x):
            go(ch)
    go(root)
    return out


def model_val(j):
    return None if j is None else ("v", dec(j["v"]))


def val_eq(a, b):
    if a is None or b is None:
        return a is None and b is None
    try:
        return canon_eq(canon(a[1]), canon(b[1]))
    except TypeError:
        return False


# --------------------------------------------------------------------------------------
# document generators: corruption and aliasing
# --------------------------------------------------------------------------------------

JUNK = [None, True, False, 0, -1, 1, 2.5, math.inf, -math.inf, math.nan, "", "x", "A", "not an identifier", "Infinity",
        [], {}, [[]], [{}], [None], ["A"], [1], {"epoch": {}}, {"x": 1}, 1e400, 10 ** 25, "constant", "exponential"]
FIELDS = ["description", "time_units", "generation_time", "doi", "metadata", "demes", "migrations", "pulses", "defaults",
          "name", "start_time", "ancestors", "proportions", "epochs", "end_time", "start_size", "end_size",
          "size_function", "selfing_rate", "cloning_rate", "source", "dest", "demes", "rate", "sources", "time",
          "deme", "migration", "pulse", "epoch"]


def all_positions(doc):
    """(container, key/index) for every entry of the document tree (plain, un-aliased docs)"""
    out = []

    def go(x):
        if isinstance(x, dict):
            for k, v in x.items():
                out.append((x, k))
                go(v)
        elif isinstance(x, list):
            for i, v in enumerate(x):
                out.append((x, i))
                go(v)
    go(doc)
    return out


def corrupt(doc, rng):
    """1-3 random corruptions of a plain document (in place on a deep copy)"""
    doc = copy.deepcopy(doc)
    kinds = []
    for _ in range(rng.choice([1, 1, 2, 3])):
        pos = all_positions(doc)
        if not pos:
            break
        c, k = rng.choice(pos)
        kind = rng.choice(["delete", "rename", "retype", "junk", "junk", "dup", "swap", "addfield", "neg", "empty"])
        kinds.append(kind)
        if kind == "delete":
            del c[k]
        elif kind == "rename" and isinstance(c, dict):
            items = list(c.items())
            new = rng.choice([k + "s", k[:-1], k.upper(), rng.choice(FIELDS)])
            c.clear()
            for kk, vv in items:
                c[new if kk == k else kk] = vv
        elif kind == "retype":
            v = c[k]
            if isinstance(v, bool):
                c[k] = rng.choice([None, "true", 1])
            elif isinstance(v, (int, float)):
                c[k] = rng.choice([str(v), [v], {"v": v}, None, bool(v)])
            elif isinstance(v, str):
                c[k] = rng.choice([1, [v], None, {v: v}, 2.5])
            elif isinstance(v, list):
                c[k] = rng.choice([{str(i): x for i, x in enumerate(v)}, v[0] if v else None, "list", tuple(v) if rng.random() < 0.1 else None])
            elif isinstance(v, dict):
                c[k] = rng.choice([list(v.items()), list(v.values()), None, "dict"])
            else:
                c[k] = "x"
        elif kind == "junk":
            c[k] = copy.deepcopy(rng.choice(JUNK))
        elif kind == "dup" and isinstance(c, list) and c:
            c.append(copy.deepcopy(rng.choice(c)))
        elif kind == "swap" and isinstance(c, list) and len(c) > 1:
            i, j = rng.sample(range(len(c)), 2)
            c[i], c[j] = c[j], c[i]
        elif kind == "addfield" and isinstance(c, dict):
            c[rng.choice(FIELDS)] = copy.deepcopy(rng.choice(JUNK))
        elif kind == "neg" and isinstance(c[k], (int, float)) and not isinstance(c[k], bool):
            c[k] = rng.choice([-c[k], 0, c[k] * 1e9, c[k] + 0.5, 1 - 2 ** -40])
        elif kind == "empty" and isinstance(c[k], (list, dict)):
            c[k] = type(c[k])()
    return doc, kinds


def add_aliasing(doc, rng):
    """returns a plain copy of the document in which some sub-objects are one Python object:
    'merge' = equal sub-objects become one object (the document denotes the same value),
    'graft' = a dict/list is replaced by a reference to another one of the same kind (the F1
    shapes: demes sharing `epochs` / an epoch / `defaults`, YAML aliases),
    'cycle' = a container is put inside itself."""
    doc = copy.deepcopy(doc)
    how = []
    mode = rng.choice(["merge", "graft", "graft", "both", "cycle"] if rng.random() < 0.9 else ["none"])
    if mode in ("merge", "both"):
        pool = []
        for c, k in all_positions(doc):
            v = c[k]
            if isinstance(v, (dict, list)) and rng.random() < 0.8:
                for w in pool:
                    if type(w) is type(v) and snapshot_value(w) == snapshot_value(v) and w is not v:
                        c[k] = w
                        how.append("merge")
                        break
                else:
                    pool.append(v)
    if mode in ("graft", "both"):
        for _ in range(rng.choice([1, 1, 2, 3])):
            pos = [(c, k) for c, k in all_positions_once(doc) if isinstance(c[k], (dict, list))]
            if len(pos) < 2:
                break
            (c1, k1), (c2, k2) = rng.sample(pos, 2)
            a, b = c1[k1], c2[k2]
            if type(a) is not type(b) or a is b:
                # prefer same-role grafts: epochs lists, epoch dicts, defaults
                continue
            # replace a by b unless that would create a cycle (b contains the position of a)
            if any(x is c1 for x in containers(b)):
                continue
            c1[k1] = b
            how.append("graft")
    if mode == "cycle":
        tgt = rng.choice([c for c in containers(doc)])
        if isinstance(tgt, dict):
            tgt[rng.choice(["metadata", "self", "defaults", "demes"])] = rng.choice([doc, tgt])
        else:
            tgt.append(rng.choice([doc, tgt]))
        how.append("cycle")
    return doc, how


def snapshot_value(x):
    """structure without identities (for equality of plain values, type-strict, NaN-safe)"""
    if isinstance(x, dict):
        return ("d", tuple((k, snapshot_value(v)) for k, v in x.items()))
    if isinstance(x, list):
        return ("l", tuple(snapshot_value(v) for v in x))
    return atom_key(x)


def all_positions_once(doc):
    """positions in a possibly aliased (acyclic or cyclic) document, each container visited once"""
    out = []
    for c in containers(doc):
        if is_map(c):
            out.extend((c, k) for k in c.keys())
        else:
            out.extend((c, i) for i in range(len(c)))
    return out


def f1_shapes(doc, rng):
    """deliberate F1 shapes on a valid document: two demes share `epochs` / one epoch dict / `defaults`"""
    doc = copy.deepcopy(doc)
    ds = doc.get("demes", [])
    how = []
    if len(ds) >= 1 and rng.random() < 0.7:
        src = rng.choice(ds)
        if "epochs" in src and src["epochs"]:
            clone = {"name": "clone_" + str(src.get("name")), "epochs": src["epochs"] if rng.random() < 0.5 else [src["epochs"][-1]]}
            for f in ("ancestors", "proportions", "start_time", "defaults"):
                if f in src:
                    clone[f] = src[f]  # shared lists / dicts as well
            ds.append(clone)
            how.append("clone-deme-sharing-epochs")
    if len(ds) >= 2 and rng.random() < 0.5:
        a, b = rng.sample(ds, 2)
        if "epochs" in a:
            b["epochs"] = a["epochs"]
            how.append("shared-epochs")
    if len(ds) >= 2 and rng.random() < 0.4:
        a, b = rng.sample(ds, 2)
        shared = a.setdefault("defaults", {"epoch": {"start_size": 7}})
        b["defaults"] = shared
        how.append("shared-defaults")
    for key in ("migrations", "pulses"):
        xs = doc.get(key) or []
        if len(xs) >= 1 and rng.random() < 0.4:
            xs.append(xs[0])
            how.append("same-" + key[:-1] + "-twice")
    return doc, how


# --------------------------------------------------------------------------------------
# (a) (b) (d): one document through one entry point
# --------------------------------------------------------------------------------------

def graph_containers(g):
    """ids of all list/dict objects inside a Graph object (attrs instances walked by field)"""
    out = {}

    def go(x, where):
        if attr.has(type(x)):
            for f in attr.fields(type(x)):
                go(getattr(x, f.name), where + "." + f.name)
        elif isinstance(x, (list, tuple)):
            if isinstance(x, list):
                out.setdefault(id(x), where)
            for i, v in enumerate(x):
                go(v, f"{where}[{i}]")
        elif isinstance(x, collections.abc.Mapping):
            out.setdefault(id(x), where)
            for k, v in x.items():
                go(v, f"{where}[{k!r}]")
    go(g, "g")
    return out


def scramble(root, rng):
    """mutate every container reachable from root in place (all depths)"""
    for c in containers(root):
        if is_map(c):
            keys = list(c.keys())
            for k in keys:
                r = rng.random()
                if r < 0.4:
                    del c[k]
                elif r < 0.8 and not is_container(c[k]):
                    c[k] = rng.choice(["scrambled", -7, None, 12345.5])
            c["__scrambled__"] = [1, 2, 3]
        else:
            for i in range(len(c)):
                if not is_container(c[i]) and rng.random() < 0.7:
                    c[i] = rng.choice(["scrambled", -7, None, 12345.5])
            if c and rng.random() < 0.5:
                c.reverse()
            c.append("scrambled")


def check_document(ctx, doc, rng, entry, tags, case_info, model_reqs):
    """doc: plain containers (possibly aliased / cyclic). entry: 'fromdict' | 'builder'."""
    log = Log()
    inp = to_logging(doc, log, rng, mapping_prob=rng.choice([0, 0, 0.3]))
    pk = pickled(doc)
    aliased = has_aliasing(doc)
    cyc = is_cyclic(doc)
    case = dict(case_info, entry=entry, aliasing=aliased, cyclic=cyc, document=showdoc(doc), pickle=pk)
    call = "demes.Graph.fromdict(doc)" if entry == "fromdict" else "demes.Builder.fromdict(doc).resolve()"

    def resolve():
        if entry == "fromdict":
            return demes.Graph.fromdict(inp)
        b = demes.Builder.fromdict(inp)
        assert b.data is inp
        return b.resolve()

    before = snapshot(inp)
    caller_ids = {id(c) for c in containers(inp)}
    log.on = True
    o1 = outcome(resolve)
    log.on = False
    after = snapshot(inp)
    # only calls on the caller's own objects count (a copy of a logging container logs too)
    log.events = [e for e in log.events if e[1] in caller_ids]
    ndemes = len(doc.get("demes", [])) if isinstance(doc.get("demes"), list) else 0
    ctx.count({k: case[k] for k in ("document", "entry", "aliasing", "kind")}, aliased or o1[0] == "err" or ndemes >= 2,
              tags=tags + [entry, "accepted" if o1[0] == "ok" else "rejected:" + o1[1]] + (["aliased"] if aliased else []))
    # (a) the caller's data: same values, same identities, same aliasing; no mutating call at all
    if before != after:
        ctx.violation(f"{call} modified its input ({'accepted' if o1[0] == 'ok' else 'rejected with ' + o1[1]})", case,
                      detail={"outcome": brief(o1)},
                      python=repro(pk, f"b = pickle.dumps(doc); {attempt(call)}; print('input unchanged:', pickle.dumps(doc) == b)") if pk else None)
    if log.events:
        ctx.violation(f"{call} called a mutating method on the caller's object: {log.events[0][0]}.{log.events[0][2]}", case,
                      detail={"calls": [f"{t}.{m}" for t, _, m in log.events[:10]], "outcome": brief(o1)},
                      python=repro(pk, f"b = pickle.dumps(doc); {attempt(call)}; print('input unchanged:', pickle.dumps(doc) == b)") if pk else None)
    # (b) again: the same graph or the same kind of error
    o2 = outcome(resolve)
    if not same_outcome(o1, o2):
        ctx.violation(f"resolving the same data twice with {call} gave different outcomes", case,
                      detail={"first": brief(o1), "second": brief(o2)},
                      python=repro(pk, f"{attempt(call)}; {attempt(call)}") if pk else None)
    # the other entry point and a fresh un-aliased plain copy must agree too
    if not cyc:
        o3 = outcome(lambda: demes.Graph.fromdict(unfolded(inp)))
        if not same_outcome(o1, o3):
            ctx.violation(f"{call} on a document with aliasing / in logging containers differs from resolving its plain unfolded copy", case,
                          detail={"as given": brief(o1), "unfolded": brief(o3)},
                          python=repro(pk, "import json; u = json.loads(json.dumps(doc)); print(demes.Graph.fromdict(doc).asdict() == demes.Graph.fromdict(u).asdict())") if pk else None)
        if model_encodable(doc):
            cells, (root,), _ = encode_heap([doc])
            model_reqs.append(("resolve", case, o1, {"op": "resolve", "doc": enc(unfolded(doc))}))
            if aliased:
                model_reqs.append(("heap_resolve", case, o1, {"op": "heap_resolve", "cells": cells, "root": root}))
    else:
        if not (o1[0] == "err" and o1[1] in ("RecursionError", "TypeError", "KeyError", "ValueError")):
            ctx.violation("a cyclic document was accepted", case, detail={"outcome": brief(o1)})
    # (d) later changes to the input / the Builder's data / returned dictionaries
    if o1[0] == "ok" and isinstance(o1[1], dict) and "raised" in o1[1]:
        ctx.violation(f"{call} returned a graph whose asdict() raises {o1[1]['raised']}", case,
                      python=repro(pk, f"g = {call}; g.asdict()") if pk else None)
    elif o1[0] == "ok":
        g = o1[2]
        ref = o1[1]
        simp_ref = safe_canon(g.asdict_simplified)
        gids = graph_containers(g)
        in_ids = {id(c) for c in containers(inp)}
        shared_in = [w for i, w in gids.items() if i in in_ids]
        if shared_in:
            ctx.violation("the returned graph holds a container of the input", case, detail={"where": shared_in[:5]},
                          python=repro(pk, f"g = {call}; print('graph shares objects with doc')") if pk else None)
        d1, d2, d3 = g.asdict(), g.asdict_simplified(), g.asdict()
        ids1, ids3 = {id(c) for c in containers(d1)}, {id(c) for c in containers(d3)}
        if ids1 & ids3 or ids1 & set(gids) or {id(c) for c in containers(d2)} & set(gids):
            ctx.violation("asdict()/asdict_simplified() handed out a container that the graph (or another dictionary form) holds", case,
                          python=repro(pk, f"g = {call}; a = g.asdict(); b = g.asdict(); print(a['metadata'] is b['metadata'], a['doi'] is b['doi'])") if pk else None)
        for what, victim in (("the input", inp), ("a returned asdict() dictionary", d1), ("a returned asdict_simplified() dictionary", d2)):
            scramble(victim, rng)
            now = safe_canon(g.asdict)
            now_s = safe_canon(g.asdict_simplified)
            if not canon_eq(now, ref) or not canon_eq(now_s, simp_ref):
                ctx.violation(f"changing {what} in place afterwards changed a graph already returned by {call}", case,
                              detail={"before": show(ref), "after": show(now)},
                              python=repro(pk, f"g = {call}; a = g.asdict(); d = g.asdict(); d['doi'].append('x'); d['metadata']['k'] = 1; [x.clear() for x in d['demes']]; doc.clear(); print(g.asdict() == a)") if pk else None)
                break
        ctx.extra["graphs_scrambled_around"] = ctx.extra.get("graphs_scrambled_around", 0) + 1
    return o1


# --------------------------------------------------------------------------------------
# (c) histories on one Builder
# --------------------------------------------------------------------------------------

def builder_from_api(doc, rng):
    """build through the Builder API, passing the document's own sub-objects (so the Builder's
    data shares them with the caller), sometimes the same object to several calls"""
    kw = {k: doc[k] for k in ("description", "time_units", "generation_time", "doi", "defaults", "metadata") if k in doc and doc[k] is not None}
    kw.setdefault("time_units", "generations")
    if not isinstance(kw["time_units"], str):
        kw["time_units"] = "generations"
    b = demes.Builder(**kw)
    shared_epochs = None
    for d in doc.get("demes", []) if isinstance(doc.get("demes"), list) else []:
        if not isinstance(d, dict) or "name" not in d:
            continue
        dk = {k: d[k] for k in ("description", "ancestors", "proportions", "start_time", "epochs", "defaults") if k in d and d[k] is not None}
        if shared_epochs is not None and rng.random() < 0.25:
            dk["epochs"] = shared_epochs
        if "epochs" in dk and shared_epochs is None:
            shared_epochs = dk["epochs"]
        b.add_deme(d["name"], **dk)
    for m in doc.get("migrations", []) if isinstance(doc.get("migrations"), list) else []:
        if isinstance(m, dict):
            b.add_migration(**{k: v for k, v in m.items() if k in ("rate", "demes", "source", "dest", "start_time", "end_time")})
    for p in doc.get("pulses", []) if isinstance(doc.get("pulses"), list) else []:
        if isinstance(p, dict):
            b.add_pulse(**{k: v for k, v in p.items() if k in ("sources", "dest", "proportions", "time")})
    return b


def mutate_builder(b, rng):
    """one caller step: in-place change of b.data at a random depth, or an add_* call"""
    r = rng.random()
    cs = containers(b.data)
    names = [d.get("name") for d in b.data.get("demes", []) if is_map(d)] if isinstance(b.data.get("demes"), list) else []
    try:
        if rng.random() < 0.1:
            # values the Builder's add_* methods convert on the way in, placed where resolve() finds them untouched
            dflt = b.data.setdefault("defaults", {})
            if is_map(dflt):
                sec = dflt.setdefault(rng.choice(["deme", "migration"]), {})
                if is_map(sec):
                    sec["start_time"] = rng.choice(["Infinity", "Infinity", math.inf, None])
                    return "set defaults start_time"
        if r < 0.12:
            ep = rng.choice([c for c in cs if isinstance(c, list)] or [[]])
            b.add_deme(rng.choice(["N1", "N2", "A", "B"]), ancestors=rng.choice([None, [n for n in names[:1] if isinstance(n, str)]]),
                       epochs=rng.choice([None, [dict(start_size=100)], ep]), start_time=rng.choice([None, 8, 16]))
            return "add_deme"
        if r < 0.2 and len(names) >= 2:
            b.add_migration(demes=[n for n in names[:2]], rate=rng.choice([0.01, 0.5, 2]))
            return "add_migration"
        if r < 0.27 and len(names) >= 2:
            b.add_pulse(sources=[names[0]], dest=names[1], proportions=[0.1], time=rng.choice([1, 4, 8]))
            return "add_pulse"
        c = rng.choice(cs)
        if is_map(c):
            ks = list(c.keys())
            r2 = rng.random()
            if ks and r2 < 0.35:
                del c[rng.choice(ks)]
                return "del key"
            if ks and r2 < 0.7:
                k = rng.choice(ks)
                c[k] = copy.deepcopy(rng.choice(JUNK)) if rng.random() < 0.5 else rng.choice([100, 200, 0.5, 8, 16, "constant"])
                return "set key"
            if r2 < 0.85:
                other = rng.choice(cs)
                if not any(x is c for x in containers(other)):
                    c[rng.choice(["defaults", "epochs", "metadata"] + ks)] = other  # aliasing inside b.data
                    return "alias"
            c[rng.choice(FIELDS)] = copy.deepcopy(rng.choice(JUNK))
            return "add key"
        r2 = rng.random()
        if c and r2 < 0.3:
            del c[rng.randrange(len(c))]
            return "del item"
        if c and r2 < 0.5:
            c.append(c[rng.randrange(len(c))])  # the same object twice
            return "alias item"
        if c and r2 < 0.7:
            c.reverse()
            return "reverse"
        c.append(copy.deepcopy(rng.choice(JUNK)))
        return "append"
    except Exception:  # noqa: BLE001 (a refused mutation is no mutation)
        return "noop"


class _HeldData:
    """a caller who took `data = builder.data` once and from then on edits and inspects the document only through that
    reference (the add_* calls and resolve() go to the Builder itself)"""

    def __init__(self, b):
        self._b = b
        self.data = b.data

    def __getattr__(self, k):
        return getattr(self._b, k)


def check_history(ctx, case_seed, model_reqs):
    rng = random.Random(case_seed)
    m = G.gen_model(rng, max_demes=4)
    doc = G.spell(m, rng, level=rng.choice([0, 0.5, 1]))
    if rng.random() < 0.3:
        doc, _ = f1_shapes(doc, rng)
    via_api = rng.random() < 0.5
    try:
        b = builder_from_api(doc, rng) if via_api else demes.Builder.fromdict(doc)
    except Exception:  # noqa: BLE001
        b = demes.Builder.fromdict(doc)
        via_api = False
    held = case_seed % 2 == 1
    if held:
        # the caller keeps ONE reference to the Builder's data (taken here) and never reads the attribute again
        real_b, b = b, _HeldData(b)
    n = rng.randint(2, 6)
    steps = ["resolve"] + [rng.choice(["resolve", "mutate", "mutate"]) for _ in range(n - 2)] + ["resolve"]
    trace, graphs = [], []
    resolves = 0
    mutated_between = False
    for st in steps:
        if st == "mutate":
            what = mutate_builder(b, rng)
            trace.append(what)
            mutated_between = mutated_between or (resolves > 0 and what != "noop")
        else:
            resolves += 1
            trace.append("resolve")
            data_id = id(b.data)
            before = snapshot(b.data)
            o = outcome(b.resolve)
            after = snapshot(b.data)
            case = {"kind": "history", "case_seed": case_seed, "steps": list(trace), "via_builder_api": via_api, "data_reference_held_by_caller": held,
                    "data_now": showdoc(b.data), "pickle": pickled(b.data)}
            rp = f"cd /verif/harness && /venv/bin/python -c \"import props.c18 as m; m.replay_history({case_seed})\""
            if before != after or id(b.data) != data_id:
                ctx.violation("Builder.resolve() modified the Builder's data", case, detail={"outcome": brief(o)}, python=rp)
            cyc = is_cyclic(b.data)
            if not cyc:
                fresh = unfolded(b.data)
                o_ref = outcome(lambda: demes.Graph.fromdict(fresh))
                if not same_outcome(o, o_ref):
                    ctx.violation("Builder.resolve() after a history differs from resolving a fresh deep copy of the current data", case,
                                  detail={"history": brief(o), "from scratch": brief(o_ref)}, python=rp)
                if model_encodable(fresh):
                    model_reqs.append(("resolve", case, o, {"op": "resolve", "doc": enc(fresh)}))
            for k, (g, ref, sref) in enumerate(graphs):
                if not canon_eq(safe_canon(g.asdict), ref) or not canon_eq(safe_canon(g.asdict_simplified), sref):
                    ctx.violation("a graph returned earlier by Builder.resolve() changed after later mutations of the Builder's data / later resolves", case,
                                  detail={"graph number": k, "before": show(ref), "after": show(safe_canon(g.asdict))}, python=rp)
            if o[0] == "ok":
                graphs.append((o[2], o[1], safe_canon(o[2].asdict_simplified)))
    ctx.count({"kind": "history", "steps": trace, "seed": case_seed}, mutated_between and resolves >= 2,
              tags=["history", f"history_len_{len(steps)}", "builder_api" if via_api else "builder_fromdict"])
    # at the end: scramble the data; every graph handed out must be as it was
    scramble(b.data, rng)
    for k, (g, ref, sref) in enumerate(graphs):
        if not canon_eq(safe_canon(g.asdict), ref):
            ctx.violation("scrambling the Builder's data changed a graph returned earlier", {"kind": "history", "case_seed": case_seed, "steps": trace},
                          python=f"cd /verif/harness && /venv/bin/python -c \"import props.c18 as m; m.replay_history({case_seed})\"")


def replay_history(case_seed):
    class C:  # minimal context
        extra = {}
        violations = []

        def count(self, *a, **k):
            pass

        def violation(self, what, case, detail=None, python=None):
            self.violations.append(what)
            print("VIOLATION:", what)
            print("  steps:", case.get("steps"))
            print("  detail:", detail)
    c = C()
    check_history(c, case_seed, [])
    print("history", case_seed, "->", len(c.violations), "violation(s)")
    return c.violations


# --------------------------------------------------------------------------------------
# (e) graphs built from shared default objects
# --------------------------------------------------------------------------------------

def rename_expected(d, names):
    d = copy.deepcopy(d)
    f = lambda x: names.get(x, x)
    for dm in d["demes"]:
        dm["name"] = f(dm["name"])
        dm["ancestors"] = [f(a) for a in dm["ancestors"]]
    for mg in d["migrations"]:
        mg["source"], mg["dest"] = f(mg["source"]), f(mg["dest"])
    for p in d["pulses"]:
        p["sources"] = [f(s) for s in p["sources"]]
        p["dest"] = f(p["dest"])
    return d


def internal_sharing(g):
    """pairs of places inside one graph that are the same list object"""
    seen, pairs = {}, []
    for i, d in enumerate(g.demes):
        for f in ("ancestors", "proportions"):
            x = getattr(d, f)
            if id(x) in seen:
                pairs.append((seen[id(x)], f"demes[{i}].{f}"))
            seen.setdefault(id(x), f"demes[{i}].{f}")
    for i, p in enumerate(g.pulses):
        for f in ("sources", "proportions"):
            x = getattr(p, f)
            if id(x) in seen:
                pairs.append((seen[id(x)], f"pulses[{i}].{f}"))
            seen.setdefault(id(x), f"pulses[{i}].{f}")
    return pairs


def with_shared_defaults(rng):
    """a valid document in which several demes / pulses take a LIST from `defaults`"""
    k = rng.randint(2, 4)
    names = rng.sample(["B", "C", "D", "E", "F"], k)
    doc = {"time_units": rng.choice(["generations", "years"]), "generation_time": rng.choice([1, 2, 4]),
           "defaults": {"deme": {"ancestors": ["A"], "proportions": [1], "start_time": 16},
                        "epoch": {"start_size": 100},
                        "pulse": {"sources": ["A"], "proportions": [0.125], "time": 4}},
           "demes": [{"name": "A"}] + [{"name": n} for n in names],
           "pulses": [{"dest": n} for n in names[:rng.randint(0, k)]]}
    doc["demes"][0].update(ancestors=[], proportions=[], start_time=math.inf)
    if doc["time_units"] == "generations":
        doc["generation_time"] = 1
    return doc


def check_shared_defaults(ctx, doc, rng, info):
    o = outcome(lambda: demes.Graph.fromdict(doc))
    if o[0] != "ok":
        return
    g, ref = o[2], o[1]
    pairs = internal_sharing(g)
    ctx.extra["graphs_with_internally_shared_lists"] = ctx.extra.get("graphs_with_internally_shared_lists", 0) + (1 if pairs else 0)
    case = dict(info, kind="shared-defaults", document=showdoc(doc), internal_sharing=pairs[:4])
    ctx.count({"kind": "shared-defaults", "document": case["document"]}, bool(pairs), tags=["shared_defaults", "graph_shares_lists" if pairs else "graph_no_sharing"])
    results = []
    if g.generation_time is not None:
        results.append(("in_generations()", g.in_generations()))
    names = [d.name for d in g.demes]
    perm = dict(zip(names, names[1:] + names[:1])) if rng.random() < 0.5 else {names[0]: "renamed_" + names[0]}
    g3 = g.rename_demes(perm)
    results.append(("rename_demes(names)", g3))
    if not canon_eq(safe_canon(g3.asdict), canon(rename_expected(g.asdict(), perm))):
        ctx.violation("rename_demes of a graph whose demes share an ancestors list is not the renamed graph", case,
                      detail={"names": perm}, python=py_repro(doc, f"g.rename_demes({perm!r}).asdict()"))
    if not canon_eq(safe_canon(g.asdict), ref):
        ctx.violation("in_generations()/rename_demes() changed the original graph", case, python=py_repro(doc, "g.asdict()"))
    gids = set(graph_containers(g))
    for what, g2 in results:
        common = gids & set(graph_containers(g2))
        if common:
            ctx.violation(f"the result of {what} shares a container with the original graph", case,
                          python=py_repro(doc, f"g.{what.replace('names', repr(perm))}.demes[-1].ancestors is g.demes[-1].ancestors"))
        ref2 = safe_canon(g2.asdict)
        for dm in g2.demes:
            dm.ancestors.append("zzz")
            dm.proportions.append(0.5)
        for p in g2.pulses:
            p.sources.append("zzz")
        if isinstance(g2.metadata, dict):
            g2.metadata["zzz"] = 1
        g2.doi.append("zzz")
        if not canon_eq(safe_canon(g.asdict), ref):
            ctx.violation(f"mutating the lists of the result of {what} changed the original graph", case,
                          detail={"result before": show(ref2), "names": perm},
                          python=py_repro(doc, f"(g.{what.replace('names', repr(perm))}.demes[-1].ancestors.append('zzz'), g.asdict())"))
            ref = safe_canon(g.asdict)


# --------------------------------------------------------------------------------------
# (h) the heap model against CPython
# --------------------------------------------------------------------------------------

def random_heap(rng, n):
    """n containers with random entries: leaves or references to any container (sharing, cycles)"""
    objs = [({} if rng.random() < 0.5 else []) for _ in range(n)]
    backward = rng.random() < 0.7
    for i, o in enumerate(objs):
        for j in range(rng.randint(0, 3)):
            if rng.random() < 0.55 and (i > 0 or not backward):
                tgt = objs[rng.randrange(0, i)] if backward else objs[rng.randrange(n)]
            else:
                tgt = rng.choice([None, True, 1, 2.5, "s", math.inf, 0])
            if isinstance(o, dict):
                o[rng.choice(["a", "b", "c", "d"])] = tgt
            else:
                o.append(tgt)
    return objs


def heap_copy_case(ctx, objs, root, memo, reqs, label):
    cells, refs, order = encode_heap([root] + objs)
    r = refs[0]
    fuel = len(cells) + 1
    cyc = is_cyclic(root)
    case = {"kind": "heap_copy", "memo": memo, "cells": cells, "root": r, "label": label}
    before = snapshot(root)
    try:
        cp = copy.deepcopy(root) if memo else dd.deepcopy_unaliased(root)
        code = {"unfold": py_unfold(fuel, cp), "pattern": py_walk_pattern(cp) if not is_cyclic(cp) else None,
                "n_new": len(containers(cp)), "fresh": not ({id(c) for c in containers(cp)} & {id(c) for c in order})}
    except RecursionError:
        cp, code = None, None
    ctx.count({"kind": "heap_copy", "cells": cells, "root": r, "memo": memo}, has_aliasing(root), tags=[label, "memo_copy" if memo else "unaliased_copy"])
    if snapshot(root) != before:
        ctx.violation("deepcopy_unaliased modified its argument", case)
    if not memo and cp is not None:
        pat = code["pattern"]
        if pat is None or pat != list(range(len(pat))) or not code["fresh"]:
            ctx.violation("deepcopy_unaliased returned a copy that shares a container (with the input or within itself)", case,
                          detail={"pattern": pat, "fresh": code["fresh"]})
        if not val_eq(code["unfold"], py_unfold(fuel, root)):
            ctx.violation("deepcopy_unaliased returned a different document", case)
    reqs.append((case, code, cyc, py_unfold(fuel, root), {"op": "heap_copy", "cells": cells, "root": r, "memo": memo, "fuel": fuel}))


def compare_heap_copy(ctx, case, code, cyc, orig, reply):
    ctx.compared += 1
    ok = reply.get("ok")
    if ok is None:
        ctx.disagreement("heap_copy", case, code, reply)
        return
    good = val_eq(model_val(ok["unfold"]), orig)
    cp = ok["copy"]
    if not case["memo"] and cyc:
        # Python: RecursionError; Model: out of fuel
        good = good and cp is None and code is None
    else:
        good = good and cp is not None and code is not None
        if good:
            good = (val_eq(model_val(cp["unfold"]), code["unfold"]) and cp["n_new"] == code["n_new"] and cp["prefix_same"]
                    and cp["pattern"] == code["pattern"] and (cp["fresh"] is None or cp["fresh"] == code["fresh"]))
            if not case["memo"]:
                good = good and cp["tree"] is True and cp["fresh"] is True
    if not good:
        ctx.disagreement("heap_copy", case, code if code is None else {k: (show(canon(v[1])) if k == "unfold" and v else v) for k, v in code.items()}, reply)


def ref_of(x, addr):
    return {"$ref": addr[id(x)]} if is_container(x) else {"v": enc(x)}


def heap_script_case(ctx, rng, reqs, n=None, steps=None):
    objs = random_heap(rng, n or rng.randint(1, 5))
    cells, _, order = encode_heap(objs)
    objs = list(order)
    addr = {id(o): i for i, o in enumerate(objs)}
    script = []
    for _ in range(steps or rng.randint(1, 8)):
        leaf = rng.choice([None, 1, "x", 2.5, False])
        operand = rng.choice(objs) if rng.random() < 0.5 else leaf
        kind = rng.choice(["alloc", "setKey", "delKey", "append", "setIndex", "delIndex", "insertAt", "replaceDict", "replaceList"])
        if kind == "alloc":
            new = {rng.choice("ab"): operand} if rng.random() < 0.5 else [operand, leaf]
            if isinstance(new, dict):
                script.append({"alloc": {"d": [[k, ref_of(v, addr)] for k, v in new.items()]}})
            else:
                script.append({"alloc": {"l": [ref_of(v, addr) for v in new]}})
            addr[id(new)] = len(objs)
            objs.append(new)
            continue
        t = rng.randrange(len(objs))
        tgt = objs[t]
        k, i = rng.choice("abcd"), rng.randrange(0, 4)
        try:
            if kind == "setKey":
                script.append({"at": t, "setKey": [k, ref_of(operand, addr)]})
                if isinstance(tgt, dict):
                    tgt[k] = operand
            elif kind == "delKey":
                script.append({"at": t, "delKey": k})
                if isinstance(tgt, dict):
                    tgt.pop(k, None)
            elif kind == "append":
                script.append({"at": t, "append": ref_of(operand, addr)})
                if isinstance(tgt, list):
                    tgt.append(operand)
            elif kind == "setIndex":
                script.append({"at": t, "setIndex": [i, ref_of(operand, addr)]})
                if isinstance(tgt, list):
                    tgt[i] = operand
            elif kind == "delIndex":
                script.append({"at": t, "delIndex": i})
                if isinstance(tgt, list):
                    del tgt[i]
            elif kind == "insertAt":
                script.append({"at": t, "insertAt": [i, ref_of(operand, addr)]})
                if isinstance(tgt, list):
                    tgt.insert(i, operand)
            elif kind == "replaceDict":
                new = {"z": operand, "a": leaf}
                script.append({"at": t, "replaceDict": [[kk, ref_of(v, addr)] for kk, v in new.items()]})
                if isinstance(tgt, dict):
                    tgt.clear()
                    tgt.update(new)
            elif kind == "replaceList":
                new = [leaf, operand]
                script.append({"at": t, "replaceList": [ref_of(v, addr) for v in new]})
                if isinstance(tgt, list):
                    tgt[:] = new
        except (IndexError, KeyError):
            pass  # the call raised: nothing changed (the Model's no-op)
    fuel = len(objs) + 1
    roots = [{"$ref": i} for i in range(len(objs))]
    code = [py_unfold(fuel, o) for o in objs]
    case = {"kind": "heap_script", "cells": cells, "script": script}
    ctx.count({"kind": "heap_script", "cells": cells, "script": script}, any(has_aliasing(o) for o in objs), tags=["heap_script"])
    reqs.append((case, code, {"op": "heap_script", "cells": cells, "root": {"v": None}, "roots": roots, "script": script, "fuel": fuel}))


def compare_heap_script(ctx, case, code, reply):
    ctx.compared += 1
    ok = reply.get("ok")
    if ok is None or ok["length"] != len(code) or not all(val_eq(model_val(m), c) for m, c in zip(ok["roots"], code)):
        ctx.disagreement("heap_script", case, [show(canon(c[1])) if c else None for c in code], reply)


def exhaustive_heaps(ncells):
    """every heap of `ncells` containers with <= 2 entries each over {leaf, any container}"""
    targets = ["leaf"] + list(range(ncells))
    cell_shapes = []
    for kind in ("d", "l"):
        for k in range(3):
            for ents in itertools.product(targets, repeat=k):
                cell_shapes.append((kind, ents))
    for shapes in itertools.product(cell_shapes, repeat=ncells):
        objs = [({} if k == "d" else []) for k, _ in shapes]
        for o, (k, ents) in zip(objs, shapes):
            for j, e in enumerate(ents):
                v = 7 if e == "leaf" else objs[e]
                if k == "d":
                    o["k" + str(j)] = v
                else:
                    o.append(v)
        yield objs


# --------------------------------------------------------------------------------------
# run
# --------------------------------------------------------------------------------------

def flush_model(ctx, model_reqs):
    if not model_reqs:
        return
    reps = ctx.driver.batch([r[3] for r in model_reqs])
    for (op, case, code, _), rep in zip(model_reqs, reps):
        small = {k: case[k] for k in ("kind", "document", "entry", "aliasing", "steps", "case_seed", "pickle") if k in case}
        compare_with_model(ctx, op, small, code, rep)
    model_reqs.clear()


def documents_for(ctx, rng):
    """one valid generated document and its variants: (plain doc, kind, tags)"""
    m = G.gen_model(rng)
    doc = G.spell(m, rng, level=rng.choice([0, 0.5, 1]))
    out = [(doc, "valid", ["valid_source"])]
    bad, kinds = corrupt(doc, rng)
    out.append((bad, "corrupted:" + "+".join(kinds), ["corrupted"]))
    al, how = add_aliasing(doc, rng)
    out.append((al, "aliased:" + "+".join(how), ["alias_" + h for h in sorted(set(how))] or ["alias_none"]))
    f1, how = f1_shapes(doc, rng)
    out.append((f1, "f1:" + "+".join(how), ["f1_shape"]))
    al2, how2 = add_aliasing(bad, rng)
    out.append((al2, "corrupted+aliased", ["corrupted", "aliased_corrupted"]))
    return out


def run(ctx):
    quick = ctx.tier == "quick"
    t_docs, t_hist, t_heap = (19, 10, 7) if quick else (200, 110, 40)
    model_reqs = []
    # ---- (a) (b) (d): documents
    t_end = ctx.budget - ctx.time_left() + t_docs
    ndocs = 0
    route_docs = []
    while ctx.budget - ctx.time_left() < t_end and ctx.time_left() > 15:
        rng = random.Random(ctx.rng.getrandbits(48))
        for doc, kind, tags in documents_for(ctx, rng):
            for entry in ("fromdict", "builder"):
                check_document(ctx, doc, rng, entry, tags, {"kind": kind}, model_reqs)
            if kind == "valid" or kind.startswith("corrupted:"):
                route_docs.append(doc)        # valid and corrupted documents entered through Builder calls
        if len(route_docs) > 200:
            check_builder_routes(ctx, route_docs, tag="builder_route")
            route_docs = []
        # (e) shared default objects
        check_shared_defaults(ctx, with_shared_defaults(rng), rng, {})
        ndocs += 1
        if len(model_reqs) > 400:
            flush_model(ctx, model_reqs)
    flush_model(ctx, model_reqs)
    check_builder_routes(ctx, route_docs, tag="builder_route")
    # a few fixed boundary documents: deep nesting, cyclic metadata, non-dict input
    for doc, kind in boundary_documents():
        for entry in ("fromdict", "builder"):
            check_document(ctx, doc, random.Random(1), entry, ["boundary"], {"kind": kind}, model_reqs)
    flush_model(ctx, model_reqs)
    check_too_deep(ctx)
    # (e) on generated graphs as well (defaults.deme / defaults.pulse lists from the generator)
    for doc, g, _ in gen_valid_graphs(ctx, 40 if quick else 400):
        check_shared_defaults(ctx, doc, ctx.rng, {})
    # ---- (c) histories
    t_end = ctx.budget - ctx.time_left() + t_hist
    while ctx.budget - ctx.time_left() < t_end and ctx.time_left() > 10:
        check_history(ctx, ctx.rng.getrandbits(48), model_reqs)
        if len(model_reqs) > 400:
            flush_model(ctx, model_reqs)
    flush_model(ctx, model_reqs)
    # ---- (c') histories of Builder API calls vs the Model's Builder (data after every call, every resolve)
    check_builder_calls(ctx, 150 if quick else 1500, tag="builder_history")
    # ---- (h) heap model vs CPython
    copy_reqs, script_reqs = [], []
    for objs in exhaustive_heaps(2):
        for memo in (False, True):
            heap_copy_case(ctx, objs, objs[-1], memo, copy_reqs, "exhaustive_2_cells")
    if not quick:
        for objs in exhaustive_heaps(3):
            heap_copy_case(ctx, objs, objs[-1], False, copy_reqs, "exhaustive_3_cells")
            if len(copy_reqs) >= 4000:
                flush_heap(ctx, copy_reqs, script_reqs)
            if ctx.time_left() < 60:
                ctx.notes.append("exhaustive 3-cell enumeration cut short by the time budget")
                break
        else:
            ctx.exhaustive = True
    flush_heap(ctx, copy_reqs, script_reqs)
    t_end = ctx.budget - ctx.time_left() + t_heap
    while ctx.budget - ctx.time_left() < t_end and ctx.time_left() > 5:
        rng = random.Random(ctx.rng.getrandbits(48))
        for _ in range(50):
            objs = random_heap(rng, rng.randint(1, 7))
            heap_copy_case(ctx, objs, rng.choice(objs), rng.random() < 0.4, copy_reqs, "random_heap")
            heap_script_case(ctx, rng, script_reqs)
        # documents with aliasing as heaps
        for doc, kind, tags in documents_for(ctx, rng)[2:4]:
            if model_encodable(doc) and not is_cyclic(doc):
                heap_copy_case(ctx, [], doc, False, copy_reqs, "document_heap")
        flush_heap(ctx, copy_reqs, script_reqs)
    ctx.extra["documents"] = ndocs
    if "error_class_vs_model" in ctx.extra:
        ctx.extra["error_class_vs_model"] = dict(ctx.extra["error_class_vs_model"])
    if ctx.notes:
        ctx.extra["notes"] = ctx.notes


def flush_heap(ctx, copy_reqs, script_reqs):
    if copy_reqs:
        reps = ctx.driver.batch([r[4] for r in copy_reqs])
        for (case, code, cyc, orig, _), rep in zip(copy_reqs, reps):
            compare_heap_copy(ctx, case, code, cyc, orig, rep)
        copy_reqs.clear()
    if script_reqs:
        reps = ctx.driver.batch([r[2] for r in script_reqs])
        for (case, code, _), rep in zip(script_reqs, reps):
            compare_heap_script(ctx, case, code, rep)
        script_reqs.clear()


def boundary_documents():
    base = {"time_units": "generations", "demes": [{"name": "A", "epochs": [{"start_size": 100}]}]}
    out = []
    deep = copy.deepcopy(base)
    x = deep["metadata"] = {}
    for _ in range(200):
        x["n"] = {}
        x = x["n"]
    out.append((deep, "deep-metadata-200"))
    cyc = copy.deepcopy(base)
    cyc["metadata"] = {"self": cyc}
    out.append((cyc, "cyclic-metadata"))
    cyc2 = copy.deepcopy(base)
    cyc2["demes"][0]["epochs"].append(cyc2["demes"][0]["epochs"])
    out.append((cyc2, "cyclic-epochs"))
    e = {"start_size": 100, "end_time": 0}
    eps = [e]
    out.append(({"time_units": "generations", "demes": [{"name": "A", "epochs": eps}, {"name": "B", "epochs": eps}]}, "F1-shared-epochs-list"))
    out.append(({"time_units": "generations", "defaults": {"epoch": {"start_size": 7}},
                 "demes": [{"name": "A", "epochs": [e]}, {"name": "B", "epochs": [e]}]}, "F1-shared-epoch-with-default"))
    dflt = {"epoch": {"start_size": 5}}
    out.append(({"time_units": "generations", "demes": [{"name": "A", "defaults": dflt}, {"name": "B", "defaults": dflt}]}, "F1-shared-deme-defaults"))
    out.append(({"time_units": "generations", "metadata": {"t": (1, [2, 3])}, "doi": ["x"], "demes": [{"name": "A", "epochs": [{"start_size": 1}]}]}, "tuple-in-metadata"))
    return out


def check_too_deep(ctx):
    """a document nested deeper than CPython's recursion limit: RecursionError, input intact"""
    doc = {"time_units": "generations", "demes": [{"name": "A", "epochs": [{"start_size": 100}]}]}
    x = doc["metadata"] = {}
    chain = [doc, x]
    for _ in range(20000):
        y = {}
        x["n"] = y
        x = y
        chain.append(y)
    for entry in ("fromdict", "builder"):
        o1 = outcome(lambda: demes.Graph.fromdict(doc) if entry == "fromdict" else demes.Builder.fromdict(doc).resolve())
        o2 = outcome(lambda: demes.Graph.fromdict(doc) if entry == "fromdict" else demes.Builder.fromdict(doc).resolve())
        intact = (list(doc.keys()) == ["time_units", "demes", "metadata"] and doc["metadata"] is chain[1]
                  and all(list(a.keys()) == ["n"] and a["n"] is b for a, b in zip(chain[1:-1], chain[2:])) and chain[-1] == {}
                  and doc["demes"] == [{"name": "A", "epochs": [{"start_size": 100}]}])
        ctx.count({"kind": "absurdly-deep-metadata", "entry": entry}, True, tags=["boundary", "rejected:" + str(o1[1]) if o1[0] == "err" else "accepted"])
        if not intact:
            ctx.violation("a too deeply nested document was modified by a failed resolution", {"kind": "absurdly-deep-metadata", "entry": entry})
        if not same_outcome(o1, o2):
            ctx.violation("a too deeply nested document gives different outcomes when resolved twice", {"kind": "absurdly-deep-metadata", "entry": entry},
                          detail={"first": o1[:2], "second": o2[:2]})


def replay(ctx, payload):
    inp = payload.get("input", {})
    if inp.get("kind") == "history" or "case_seed" in inp:
        return 1 if replay_history(inp["case_seed"]) else 0
    if inp.get("pickle"):
        doc = pickle.loads(base64.b64decode(inp["pickle"]))
        for entry in ("fromdict", "builder"):
            before = snapshot(doc)
            o1 = outcome(lambda: demes.Graph.fromdict(doc) if entry == "fromdict" else demes.Builder.fromdict(doc).resolve())
            o2 = outcome(lambda: demes.Graph.fromdict(doc) if entry == "fromdict" else demes.Builder.fromdict(doc).resolve())
            print(entry, "->", brief(o1)[0], o1[1] if o1[0] == "err" else "", "| input unchanged:", snapshot(doc) == before,
                  "| same outcome twice:", same_outcome(o1, o2))
        return 0
    print("payload:", {k: v for k, v in payload.items() if k != "input"})
    print("input:", inp)
    return 0
