/-
  C09, first sentence, "with the same N0 and the same deme names": `from_ms(to_ms(g, N0), N0, deme_names = names of g)`.

  * `names_perm_of_refines`: when the observable of a `from_ms` result (read with "population `k` is `deme{k}`")
    shows the populations of a graph `G`, the demes of the result are called `deme1 … deme{n}`, `n` the number
    of demes of `G` (in some order);
  * `fromMs_some_of_perm`: then `from_ms` with `deme_names` = any `n` pairwise distinct identifiers succeeds and
    returns the renamed graph;
  * `resultSemNamed_eq`: the observable of the renamed graph, read with "population `k` is `names[k-1]`", is the
    observable of the unnamed result read with "population `k` is `deme{k}`" — the very same value.
-/
import DemesVerif.Proofs.MsNamesSem
import DemesVerif.Proofs.MsAccFinal
import DemesVerif.Proofs.MsRTNorm
set_option linter.unusedSimpArgs false
set_option linter.unusedVariables false
namespace Demes.Proofs.MsNames
open Demes Demes.Ms Demes.Spec Demes.Spec.C07 Demes.Spec.C09
open Demes.Spec.MsSem
open Demes.Spec.C08 (semEquiv resultSem resultSemNamed popNames Tame')
open Demes.Proofs.FromMs (sbind_ok spure_ok nameMap nameMap_keys nameMap_values map_apply_keys demeName_injective
  popId_popNames sortKey_perm fromMs_none_ok fromMs_valid sortStr_perm)

/-! ### lists -/

theorem eraseDups_of_nodup : ∀ (l : List String), l.Nodup → l.eraseDups = l
  | [], _ => by simp
  | a :: as, h => by
    rw [List.nodup_cons] at h
    rw [List.eraseDups_cons]
    have : as.filter (fun b => !b == a) = as := by
      rw [List.filter_eq_self]
      intro b hb
      have : b ≠ a := fun e => h.1 (e ▸ hb)
      simp [this]
    rw [this, eraseDups_of_nodup as h.2]

theorem insertStr_sorted (x : String) : ∀ (l : List String), l.Pairwise (· ≤ ·) → (insertStr x l).Pairwise (· ≤ ·)
  | [], _ => List.pairwise_singleton _ _
  | y :: ys, h => by
    unfold insertStr
    rw [List.pairwise_cons] at h
    split
    · rename_i hxy
      refine List.pairwise_cons.mpr ⟨?_, List.pairwise_cons.mpr h⟩
      intro b hb
      rcases List.mem_cons.mp hb with rfl | hb
      · exact hxy
      · exact String.le_trans hxy (h.1 b hb)
    · rename_i hxy
      have hyx : y ≤ x := (String.le_total x y).resolve_left hxy
      refine List.pairwise_cons.mpr ⟨?_, insertStr_sorted x ys h.2⟩
      intro b hb
      rcases List.mem_cons.mp ((FromMs.insertStr_perm x ys).mem_iff.mp hb) with rfl | hb
      · exact hyx
      · exact h.1 b hb

theorem sortStr_sorted : ∀ (l : List String), (l.foldr insertStr []).Pairwise (· ≤ ·)
  | [] => List.Pairwise.nil
  | x :: xs => insertStr_sorted x _ (sortStr_sorted xs)

/-- `sorted(a) == sorted(b)` for two lists with the same elements -/
theorem sortStr_eq_of_perm {l₁ l₂ : List String} (h : l₁.Perm l₂) : l₁.foldr insertStr [] = l₂.foldr insertStr [] :=
  List.Perm.eq_of_pairwise (le := (· ≤ ·)) (fun a b _ _ h1 h2 => String.le_antisymm h1 h2)
    (sortStr_sorted l₁) (sortStr_sorted l₂) ((sortStr_perm l₁).trans (h.trans (sortStr_perm l₂).symm))

theorem mapM_okS' {α β} {f : α → Except String β} {f' : α → β} :
    ∀ (l : List α), (∀ x ∈ l, f x = .ok (f' x)) → l.mapM f = .ok (l.map f')
  | [], _ => rfl
  | x :: l, h => by
    rw [List.mapM_cons, h x List.mem_cons_self, mapM_okS' l (fun y hy => h y (List.mem_cons_of_mem _ hy))]
    rfl

theorem popId_of_nodup {names : List String} (hn : names.Nodup) {i : Nat} (hi : i < names.length) :
    popId names names[i] = .ok (i + 1) := by
  have hf : names.findIdx? (· = names[i]) = some i := by
    rw [List.findIdx?_eq_some_iff_getElem]
    refine ⟨hi, by simp, ?_⟩
    intro j hj
    simp only [decide_eq_true_eq]
    intro e
    have := (List.Nodup.getElem_inj_iff hn).mp e
    omega
  unfold popId
  rw [hf]
  rfl

theorem popNames_add (n e : Nat) : popNames (n + e) = popNames n ++ (List.range e).map (fun x => Ms.demeName (n + x)) := by
  unfold popNames
  rw [List.range_add, List.map_append, List.map_map]
  rfl

theorem popNames_length (n : Nat) : (popNames n).length = n := by simp [popNames]

theorem popNames_nodup (n : Nat) : (popNames n).Nodup :=
  List.Nodup.map (fun a b hab => demeName_injective hab) List.nodup_range

/-! ### the populations of an observable, in closed form -/

def popOf (sz : Q → Sz) (k : Nat) (d : Deme) : PopSem :=
  { id := k, lo := d.endTime, hi := d.startTime,
    segs := d.epochs.reverse.map (fun (e : Epoch) =>
      ({ t0 := e.endTime, t1 := e.startTime, size := sz e.endSize, growth := none,
         sizeOld := some (sz e.startSize), fn := e.sizeFunction } : Seg)) }

theorem semCore_pops {sz : Q → Sz} {pid : Pid} {n : Nat} {demes : List Deme} {migs : List Migration}
    {pulses : List Pulse} {s : DemogSem} {φ : String → Nat} (hφ : ∀ d ∈ demes, pid d.name = .ok (φ d.name))
    (h : semCore sz pid n demes migs pulses = .ok s) :
    s.pops.Perm (demes.map (fun d => popOf sz (φ d.name) d)) := by
  unfold semCore at h
  obtain ⟨pops0, h0, h⟩ := sbind_ok.1 h
  obtain ⟨raw, _, h⟩ := sbind_ok.1 h
  obtain ⟨moves, _, h⟩ := sbind_ok.1 h
  rw [spure_ok] at h
  subst h
  have hp : demes.mapM (popM sz pid) = .ok (demes.map (fun d => popOf sz (φ d.name) d)) := by
    apply mapM_okS'
    intro d hd
    unfold popM
    rw [hφ d hd]
    rfl
  rw [hp] at h0
  injection h0 with h0
  subst h0
  show ((sortKey _).map (·.2)).Perm _
  refine ((sortKey_perm ((demes.map (fun d => popOf sz (φ d.name) d)).map (fun p => (p.id, p)))).map (·.2)).trans
    (List.Perm.of_eq ?_)
  rw [List.map_map, List.map_map]
  rfl

/-- the number a lookup gives a name (`0` when it fails) -/
def numOf (pid : Pid) (s : String) : Nat := ((pid s).toOption).getD 0

theorem numOf_ok {pid : Pid} {s : String} {k : Nat} (h : pid s = .ok k) : numOf pid s = k := by
  unfold numOf; rw [h]; rfl

/-! ### the names of the demes of a `from_ms` result whose observable shows the populations of a graph -/

theorem zip_of_map_eq {α β γ} {f : α → γ} {g : β → γ} : ∀ {l₁ : List α} {l₂ : List β}, l₁.map f = l₂.map g →
    ∀ a ∈ l₁, ∃ b, (a, b) ∈ l₁.zip l₂ ∧ f a = g b
  | [], _, _, a, ha => by cases ha
  | x :: xs, [], h, _, _ => by simp at h
  | x :: xs, y :: ys, h, a, ha => by
    simp only [List.map_cons, List.cons.injEq] at h
    rcases List.mem_cons.mp ha with rfl | ha
    · exact ⟨y, by simp, h.1⟩
    · obtain ⟨b, hb, hab⟩ := zip_of_map_eq h.2 a ha
      exact ⟨b, by simp [hb], hab⟩

/-- the demes of a valid graph, read in their own order, have the numbers `1 … n` -/
theorem own_numbers {G : Graph} (hn : (G.demes.map (·.name)).Nodup) (i : Nat) (d : Deme) (hd : G.demes[i]? = some d) :
    popId (G.demes.map (·.name)) d.name = .ok (i + 1) := by
  have hi : i < G.demes.length := (List.getElem?_eq_some_iff.mp hd).1
  have hdi : G.demes[i] = d := (List.getElem?_eq_some_iff.mp hd).2
  have := popId_of_nodup hn (i := i) (by simpa using hi)
  simpa [hdi] using this

structure ResultNames (mg : MsGraph) (G : Graph) : Prop where
  /-- the demes of the result are `deme1 … deme{n}` -/
  perm : (mg.graph.demes.map (·.name)).Perm (popNames G.demes.length)
  /-- `deme{k+1}` starts when the `k`-th deme of `G` starts -/
  start : ∀ d ∈ mg.graph.demes, ∀ k, d.name = Ms.demeName k → ∃ d', G.demes[k]? = some d' ∧ d.startTime = d'.startTime
  /-- the command has at least as many populations -/
  le : G.demes.length ≤ mg.doc.numPops

theorem names_perm_of_refines {c : List String} {N0 : Q} {mg : MsGraph} {rs gs : DemogSem} {G : Graph}
    (hfrom : fromMs c N0 none = .ok mg) (hrs : resultSem mg = .ok rs) (hG : validGraph G = true)
    (hgs : graphSem G none = .ok gs) (href : SemRefines rs gs) : ResultNames mg G := by
  obtain ⟨ks, ds, hks, _, _, _, hperm⟩ := FromMs.fromMs_deme_k_is_population_k hfrom
  have hnG : (G.demes.map (·.name)).Nodup := ToMs.nodup_names (ToMs.clauses_of_valid hG)
  -- the numbers of the result's demes
  have hk : ∀ d ∈ mg.graph.demes, ∃ k, k < mg.doc.numPops ∧ d.name = Ms.demeName k := by
    intro d hd
    have : d.name ∈ ks.map Ms.demeName := hperm.mem_iff.mp (List.mem_map.mpr ⟨d, hd, rfl⟩)
    obtain ⟨k, hk, hkn⟩ := List.mem_map.mp this
    exact ⟨k, List.mem_range.mp (hks.subset hk), hkn.symm⟩
  let pid₁ : Pid := popId (popNames mg.doc.numPops)
  let pid₂ : Pid := popId (G.demes.map (·.name))
  have hφ₁ : ∀ d ∈ mg.graph.demes, pid₁ d.name = .ok (numOf pid₁ d.name) := by
    intro d hd
    obtain ⟨k, hk, hkn⟩ := hk d hd
    have : pid₁ d.name = .ok (k + 1) := by rw [hkn]; exact popId_popNames hk
    rw [numOf_ok this]; exact this
  have hφ₂ : ∀ d ∈ G.demes, pid₂ d.name = .ok (numOf pid₂ d.name) := by
    intro d hd
    obtain ⟨i, hi⟩ := List.mem_iff_getElem?.mp hd
    have := own_numbers hnG i d hi
    rw [numOf_ok this]; exact this
  have hrs' : semCore mg.size pid₁ (popNames mg.doc.numPops).length mg.graph.demes mg.graph.migrations mg.graph.pulses
      = .ok rs := hrs
  have hgs' : semCore Sz.ofQ pid₂ (G.demes.map (·.name)).length G.demes G.migrations G.pulses = .ok gs := hgs
  have p₁ := semCore_pops hφ₁ hrs'
  have p₂ := semCore_pops hφ₂ hgs'
  -- the numbers of `G`'s demes are `1 … n`
  have hnum₂ : G.demes.map (fun d => numOf pid₂ d.name) = (List.range G.demes.length).map (· + 1) := by
    apply List.ext_getElem (by simp)
    intro i h1 h2
    simp only [List.getElem_map, List.getElem_range]
    have hi : i < G.demes.length := by simpa using h1
    exact numOf_ok (own_numbers hnG i G.demes[i] (List.getElem?_eq_getElem hi))
  have hids : (mg.graph.demes.map (fun d => numOf pid₁ d.name)).Perm ((List.range G.demes.length).map (· + 1)) := by
    have a₁ : (rs.pops.map (·.id)).Perm (mg.graph.demes.map (fun d => numOf pid₁ d.name)) := by
      refine (p₁.map (·.id)).trans (List.Perm.of_eq ?_)
      rw [List.map_map]; rfl
    have a₂ : (gs.pops.map (·.id)).Perm (G.demes.map (fun d => numOf pid₂ d.name)) := by
      refine (p₂.map (·.id)).trans (List.Perm.of_eq ?_)
      rw [List.map_map]; rfl
    rw [hnum₂] at a₂
    exact a₁.symm.trans (href.ids ▸ a₂)
  have hpermN : (mg.graph.demes.map (·.name)).Perm (popNames G.demes.length) := ?_
  refine ⟨hpermN, ?_, ?_⟩
  rotate_left 2
  · have h1 := hids.map (fun i => Ms.demeName (i - 1))
    have e1 : (mg.graph.demes.map (fun d => numOf pid₁ d.name)).map (fun i => Ms.demeName (i - 1))
        = mg.graph.demes.map (·.name) := by
      rw [List.map_map]
      apply List.map_congr_left
      intro d hd
      obtain ⟨k, hk, hkn⟩ := hk d hd
      have : pid₁ d.name = .ok (k + 1) := by rw [hkn]; exact popId_popNames hk
      show Ms.demeName (numOf pid₁ d.name - 1) = d.name
      rw [numOf_ok this, hkn, Nat.add_sub_cancel]
    have e2 : ((List.range G.demes.length).map (· + 1)).map (fun i => Ms.demeName (i - 1)) = popNames G.demes.length := by
      rw [List.map_map]; unfold popNames
      apply List.map_congr_left
      intro i _
      simp
    rw [e1, e2] at h1
    exact h1
  · intro d hd k hkn
    obtain ⟨k', hk', hkn'⟩ := hk d hd
    have hkk : k' = k := demeName_injective (hkn'.symm.trans hkn)
    subst hkk
    have hid : pid₁ d.name = .ok (k' + 1) := by rw [hkn]; exact popId_popNames hk'
    have hp : popOf mg.size (k' + 1) d ∈ rs.pops := by
      apply p₁.mem_iff.mpr
      exact List.mem_map.mpr ⟨d, hd, by rw [numOf_ok hid]⟩
    obtain ⟨q, hzip, hq⟩ := zip_of_map_eq href.ids _ hp
    have hhi := (href.lives _ hzip).1
    have hq2 : q ∈ gs.pops := (List.of_mem_zip hzip).2
    obtain ⟨d', hd', hqd⟩ := List.mem_map.mp (p₂.mem_iff.mp hq2)
    obtain ⟨i, hi⟩ := List.mem_iff_getElem?.mp hd'
    have hnum := numOf_ok (own_numbers hnG i d' hi)
    have hqi : q.id = i + 1 := by rw [← hqd]; exact hnum
    have hik : i = k' := by
      have : (popOf mg.size (k' + 1) d).id = q.id := hq
      simp only [popOf] at this
      omega
    subst hik
    refine ⟨d', hi, ?_⟩
    have : q.hi = d'.startTime := by rw [← hqd]; rfl
    rw [← this, ← hhi]
    rfl
  · cases hn0 : G.demes.length with
    | zero => exact Nat.zero_le _
    | succ m =>
      have hmem : Ms.demeName m ∈ popNames G.demes.length := by
        unfold popNames
        exact List.mem_map.mpr ⟨m, List.mem_range.mpr (by omega), rfl⟩
      obtain ⟨d, hd, hdn⟩ := List.mem_map.mp (hpermN.mem_iff.mpr hmem)
      obtain ⟨k, hk, hkn⟩ := hk d hd
      have : k = m := demeName_injective (hkn.symm.trans hdn)
      omega

/-! ### acceptance of the names -/

theorem fromMs_some_of {c : List String} {N0 : Q} {names : List String} {mg : MsGraph}
    (h : fromMs c N0 none = .ok mg) (h1 : names.eraseDups.length = mg.graph.demes.length)
    (h2 : ((nameMap names).map (·.1)).foldr insertStr [] = (mg.graph.demes.map (·.name)).foldr insertStr [])
    (h3 : renameNamesOk mg.graph (nameMap names) = true) :
    fromMs c N0 (some names) = .ok { mg with graph := renameDemes mg.graph (nameMap names) } := by
  obtain ⟨args, hargs, hmg⟩ := fromMs_none_ok h
  have hr : renameDemesChecked mg.graph (nameMap names) = .ok (renameDemes mg.graph (nameMap names)) :=
    (renameChecked_ok_iff _ _ _).mpr ⟨h3, rfl⟩
  unfold fromMs
  simp only [hargs, hmg, bind, Except.bind]
  rw [if_neg (by simpa using h1)]
  have h2' : ¬ ((List.map (fun x => x.1) (List.map (fun x => match x with | (j, nm) => (Ms.demeName j, nm))
      ((List.range names.length).zip names))).foldr insertStr []
      ≠ (mg.graph.demes.map (·.name)).foldr insertStr []) := by
    intro hne; exact hne h2
  rw [if_neg h2']
  have hr' : renameDemesChecked mg.graph (List.map (fun x => match x with | (j, nm) => (Ms.demeName j, nm))
      ((List.range names.length).zip names)) = .ok (renameDemes mg.graph (nameMap names)) := hr
  rw [hr']
  rfl

/-- the name map sends `deme1 … deme{n}` to the names, in order -/
theorem popNames_map_apply (names : List String) :
    (popNames names.length).map (nameMap names).apply = names := by
  have hk : ((nameMap names).map (·.1)).Nodup := by rw [nameMap_keys]; exact popNames_nodup _
  have := map_apply_keys hk
  rw [nameMap_keys, nameMap_values] at this
  exact this

theorem fromMs_some_of_perm {c : List String} {N0 : Q} {names : List String} {mg : MsGraph}
    (h : fromMs c N0 none = .ok mg) (hperm : (mg.graph.demes.map (·.name)).Perm (popNames names.length))
    (hnd : names.Nodup) (hid : ∀ n ∈ names, isIdentifier n = true) :
    fromMs c N0 (some names) = .ok { mg with graph := renameDemes mg.graph (nameMap names) } := by
  have hlen : mg.graph.demes.length = names.length := by
    have := hperm.length_eq; simpa [popNames_length] using this
  have hnew : (mg.graph.demes.map (fun d => (nameMap names).apply d.name)).Perm names := by
    have := hperm.map (nameMap names).apply
    rw [popNames_map_apply, List.map_map] at this
    exact this
  apply fromMs_some_of h
  · rw [eraseDups_of_nodup _ hnd, hlen]
  · rw [nameMap_keys]
    exact sortStr_eq_of_perm hperm.symm
  · rw [renameNamesOk_iff]
    refine ⟨hnew.nodup_iff.mpr hnd, ?_⟩
    intro d hd
    exact hid _ (hnew.mem_iff.mp (List.mem_map.mpr ⟨d, hd, rfl⟩))

/-! ### the observable of the renamed result -/

/-- the observable of the renamed result, read with "population `k` is `names[k-1]`", is the observable of the
unnamed result read with "population `k` is `deme{k}`" -/
theorem resultSemNamed_eq {mg : MsGraph} {names : List String} {rs : DemogSem} (hv : validGraph mg.graph = true)
    (hperm : (mg.graph.demes.map (·.name)).Perm (popNames names.length)) (hnd : names.Nodup)
    (hle : names.length ≤ mg.doc.numPops) (hrs : resultSem mg = .ok rs) :
    resultSemNamed { mg with graph := renameDemes mg.graph (nameMap names) } names = .ok rs := by
  unfold resultSemNamed msGraphSem
  show graphSemWith mg.size (renameDemes mg.graph (nameMap names)) (some names) = .ok rs
  have hm : Mentions (· ∈ popNames names.length) mg.graph.demes mg.graph.migrations mg.graph.pulses :=
    (mentions_of_valid hv).mono (fun x hx => hperm.mem_iff.mp hx)
  -- renaming
  have a1 : Agree (graphSemWith mg.size (renameDemes mg.graph (nameMap names)) (some names))
      (graphSemWith mg.size mg.graph (some (popNames names.length))) := by
    have := graphSemWith_renameDemes (sz := mg.size) (g := mg.graph) (r := nameMap names)
      (names := popNames names.length) hv (by
        intro x hx d hd e
        have hd' : d.name ∈ popNames names.length := hperm.mem_iff.mp (List.mem_map.mpr ⟨d, hd, rfl⟩)
        have hn' : ((popNames names.length).map (nameMap names).apply).Nodup := by rw [popNames_map_apply]; exact hnd
        exact List.inj_on_of_nodup_map hn' hx hd' e)
    rwa [popNames_map_apply] at this
  -- the populations without a deme
  have a2 : Agree (graphSemWith mg.size mg.graph (some (popNames mg.doc.numPops)))
      (graphSemWith mg.size mg.graph (some (popNames names.length))) := by
    obtain ⟨e, he⟩ : ∃ e, mg.doc.numPops = names.length + e := ⟨mg.doc.numPops - names.length, by omega⟩
    rw [he, popNames_add]
    exact graphSemWith_append _ hm
  exact a1.ok_right (a2.ok_left hrs)

end Demes.Proofs.MsNames
