/-
  C08, after the event loop: two invariants of the Builder's event loop that the finishing steps
  rely on.

  * `EpochsOpen`: the epoch list of every Builder deme (most ancient epoch first) has strictly
    decreasing end times; the head (open) epoch has no `start_size`; every other epoch is closed:
    no `growth_rate`, and a `start_size` that shares the coefficient of its `end_size`
    (`end_size · exp(…)`); every `end_size` is in normal form (`0·exp(x)` is written `0`).
  * `mm_end_times` is strictly decreasing.
-/
import DemesVerif.Proofs.FromMsNames
import DemesVerif.Proofs.FromMsMigFold
namespace Demes.Proofs.FromMs
open Demes Demes.Ms Demes.Spec.MsSem Demes.Spec.C08

/-- `0 · exp(x)` is written `0` -/
def SzNF (s : Sz) : Prop := s.coef = 0 → s.expo = 0

theorem szNF_ofQ (q : Q) : SzNF (Sz.ofQ q) := fun _ => rfl

theorem mulExp_coef (s : Sz) (x : Q) : (s.mulExp x).coef = s.coef := by
  unfold Sz.mulExp; split <;> rfl

theorem szNF_mulExp {s : Sz} (h : SzNF s) (x : Q) : SzNF (s.mulExp x) := by
  unfold Sz.mulExp
  split
  · exact h
  · rename_i hc
    intro h0
    exact absurd h0 hc

/-- a closed epoch -/
structure EpochClosed (o : BEpoch) : Prop where
  gr : o.growthRate = none
  ss : ∃ z, o.startSize = some z ∧ z.coef = o.endSize.coef
  nf : SzNF o.endSize

/-- the epochs of a Builder deme during the event loop -/
structure EpochsOpen (es : List BEpoch) : Prop where
  shape : ∃ e older, es = e :: older ∧ e.startSize = none ∧ SzNF e.endSize ∧ ∀ o ∈ older, EpochClosed o
  dec : es.Pairwise (fun a b => b.endTime < a.endTime)

theorem epochResolve_open {d d' : BDeme} {time : Q} (h : epochResolve d time = .ok d') (hd : EpochsOpen d.epochs) :
    EpochsOpen d'.epochs := by
  obtain ⟨e, older, he, _, _, hc | hc⟩ := epochResolve_ok h
  · rw [hc.2]; exact hd
  · obtain ⟨hlt, rfl⟩ := hc
    obtain ⟨⟨e0, older0, he0, hs0, hnf0, hold0⟩, hdec⟩ := hd
    rw [he] at he0 hdec
    injection he0 with h1 h2
    subst h1 h2
    dsimp only
    refine ⟨⟨_, _, rfl, hs0, szNF_mulExp hnf0 _, ?_⟩, ?_⟩
    · intro o ho
      rcases List.mem_cons.mp ho with rfl | ho
      · exact ⟨rfl, ⟨_, rfl, mulExp_coef _ _⟩, hnf0⟩
      · exact hold0 o ho
    · rw [List.pairwise_cons] at hdec ⊢
      refine ⟨?_, List.pairwise_cons.mpr ⟨hdec.1, hdec.2⟩⟩
      intro b hb
      rcases List.mem_cons.mp hb with rfl | hb
      · exact hlt
      · have := hdec.1 b hb
        show b.endTime < time
        grind

theorem modifyHead_open {d : BDeme} {f : BEpoch → BEpoch} (hd : EpochsOpen d.epochs)
    (hf : ∀ e, (f e).startSize = e.startSize ∧ (f e).endTime = e.endTime ∧ (SzNF e.endSize → SzNF (f e).endSize)) :
    EpochsOpen (modifyHead d f).epochs := by
  obtain ⟨⟨e0, older0, he0, hs0, hnf0, hold0⟩, hdec⟩ := hd
  unfold modifyHead
  rw [he0] at hdec ⊢
  dsimp only
  refine ⟨⟨_, _, rfl, by rw [(hf e0).1]; exact hs0, (hf e0).2.2 hnf0, hold0⟩, ?_⟩
  rw [List.pairwise_cons] at hdec ⊢
  refine ⟨?_, hdec.2⟩
  intro b hb
  rw [(hf e0).2.1]
  exact hdec.1 b hb

theorem updGrowth_open {gr time : Q} {d d' : BDeme} (h : updGrowth gr time d = .ok d') (hd : EpochsOpen d.epochs) :
    EpochsOpen d'.epochs := by
  unfold updGrowth at h
  split at h
  · obtain ⟨d1, h1, h⟩ := RV.bind_ok.1 h
    rw [RV.pure_ok] at h
    subst h
    exact modifyHead_open (epochResolve_open h1 hd) (fun e => ⟨rfl, rfl, fun x => x⟩)
  · rw [RV.pure_ok] at h; subst h; exact hd

theorem updSize_open {size : Sz} {reset : Bool} {time : Q} {d d' : BDeme} (hsz : SzNF size)
    (h : updSize size reset time d = .ok d') (hd : EpochsOpen d.epochs) : EpochsOpen d'.epochs := by
  unfold updSize at h
  split at h
  · obtain ⟨d1, h1, h⟩ := RV.bind_ok.1 h
    rw [RV.pure_ok] at h
    subst h
    refine modifyHead_open (epochResolve_open h1 hd) (fun e => ?_)
    cases reset <;> exact ⟨rfl, rfl, fun _ => hsz⟩
  · rw [RV.pure_ok] at h; subst h; exact hd

/-- the invariant of the Builder state -/
structure BInv (s : BState) : Prop where
  demes : ∀ d ∈ s.demes, EpochsOpen d.epochs
  times : s.mmEndTimes.Pairwise (fun a b => b < a)

theorem forLive_all {P : BDeme → Prop} {s s' : BState} {f : BDeme → Except Err BDeme}
    (hf : ∀ d d', f d = .ok d' → P d → P d') (h : forLiveDemes s f = .ok s') (hs : ∀ d ∈ s.demes, P d) :
    (∀ d ∈ s'.demes, P d) ∧ s'.mmEndTimes = s.mmEndTimes := by
  obtain ⟨he, hl, hi⟩ := forLiveDemes_ok h
  refine ⟨?_, by rw [he]⟩
  intro d' hd'
  obtain ⟨i, hi', hdi⟩ := List.mem_iff_getElem.mp hd'
  have hlt : i < s.demes.length := by rw [← hl]; exact hi'
  obtain ⟨d'', hd'', hc⟩ := hi i s.demes[i] (List.getElem?_eq_getElem hlt)
  rw [List.getElem?_eq_getElem hi', hdi] at hd''
  injection hd'' with hd''
  subst hd''
  split at hc
  · rw [hc]; exact hs _ (List.getElem_mem hlt)
  · exact hf _ _ hc (hs _ (List.getElem_mem hlt))

theorem modifyDeme_all {P : BDeme → Prop} {s s' : BState} {pid : Nat} {f : BDeme → Except Err BDeme}
    (hf : ∀ d d', f d = .ok d' → P d → P d') (h : modifyDeme s pid f = .ok s') (hs : ∀ d ∈ s.demes, P d) :
    (∀ d ∈ s'.demes, P d) ∧ s'.mmEndTimes = s.mmEndTimes := by
  obtain ⟨d, d', hd, hfd, rfl⟩ := modifyDeme_ok h
  refine ⟨?_, rfl⟩
  intro x hx
  rcases List.mem_or_eq_of_mem_set hx with hx | hx
  · exact hs x hx
  · subst hx
    exact hf d x hfd (hs d (List.mem_of_getElem? hd))

theorem migrationMatrixAt_times {s : BState} (time : Q) (h : s.mmEndTimes.Pairwise (fun a b => b < a)) :
    (migrationMatrixAt s time).mmEndTimes.Pairwise (fun a b => b < a) := by
  unfold migrationMatrixAt
  split
  · rename_i m ms e es hm he
    split
    · rename_i hlt
      dsimp only
      rw [he] at h ⊢
      refine List.pairwise_cons.mpr ⟨?_, h⟩
      intro b hb
      rcases List.mem_cons.mp hb with rfl | hb
      · exact hlt
      · have := (List.pairwise_cons.mp h).1 b hb
        grind
    · exact h
  · exact h

theorem setMM0_times (s : BState) (m : MM) : (setMM0 s m).mmEndTimes = s.mmEndTimes := rfl

theorem stepEvent_binv {N0 time : Q} {s s' : BState} {g g' : GState} {ev : Event Num}
    (hinv : BInv s) (h : stepEvent N0 time (s, g) ev = .ok (s', g')) : BInv s' := by
  cases ev with
  | growthRateChange o t alpha =>
    rw [stepEvent_growthAll] at h
    obtain ⟨a, _, h⟩ := RV.bind_ok.1 h
    obtain ⟨s1, h1, h⟩ := RV.bind_ok.1 h
    cases h
    obtain ⟨e1, e2⟩ := forLive_all (P := fun d => EpochsOpen d.epochs) (fun d d' hd => updGrowth_open hd) h1 hinv.demes
    exact ⟨e1, by rw [e2]; exact hinv.times⟩
  | popGrowthRateChange o t i alpha =>
    rw [stepEvent_growth] at h
    obtain ⟨pid, _, h⟩ := RV.bind_ok.1 h
    obtain ⟨a, _, h⟩ := RV.bind_ok.1 h
    obtain ⟨s1, h1, h⟩ := RV.bind_ok.1 h
    cases h
    obtain ⟨e1, e2⟩ := modifyDeme_all (P := fun d => EpochsOpen d.epochs) (fun d d' hd => updGrowth_open hd) h1 hinv.demes
    exact ⟨e1, by rw [e2]; exact hinv.times⟩
  | sizeChange o t x =>
    rw [stepEvent_sizeAll] at h
    obtain ⟨a, _, h⟩ := RV.bind_ok.1 h
    obtain ⟨s1, h1, h⟩ := RV.bind_ok.1 h
    cases h
    obtain ⟨e1, e2⟩ := forLive_all (P := fun d => EpochsOpen d.epochs)
      (fun d d' hd => updSize_open (szNF_ofQ _) hd) h1 hinv.demes
    exact ⟨e1, by rw [e2]; exact hinv.times⟩
  | popSizeChange o t i x =>
    rw [stepEvent_size] at h
    obtain ⟨pid, _, h⟩ := RV.bind_ok.1 h
    obtain ⟨a, _, h⟩ := RV.bind_ok.1 h
    obtain ⟨s1, h1, h⟩ := RV.bind_ok.1 h
    cases h
    obtain ⟨e1, e2⟩ := modifyDeme_all (P := fun d => EpochsOpen d.epochs)
      (fun d d' hd => updSize_open (szNF_ofQ _) hd) h1 hinv.demes
    exact ⟨e1, by rw [e2]; exact hinv.times⟩
  | migRateChange o t x =>
    rw [stepEvent_migAll] at h
    cases h
    exact ⟨by rw [(migAllState_frame s time x).1]; exact hinv.demes, migrationMatrixAt_times time hinv.times⟩
  | migEntryChange o t i j rate =>
    rw [stepEvent_migEntry] at h
    obtain ⟨pi, _, h⟩ := RV.bind_ok.1 h
    obtain ⟨pj, _, h⟩ := RV.bind_ok.1 h
    split at h
    · exact (RV.valueErr_bind_ok.1 h).elim
    · cases h
      exact ⟨by rw [(migEntryState_frame s time pi pj rate).1]; exact hinv.demes,
        migrationMatrixAt_times time hinv.times⟩
  | migMatrixChange o t npop mm =>
    rw [stepEvent_migMatrix] at h
    dsimp only at h
    generalize (if o = "-ma" then (s.numDemes : Int) else npop) = np at h
    split at h
    · exact (RV.valueErr_bind_ok.1 h).elim
    · obtain ⟨m, _, h⟩ := RV.bind_ok.1 h
      cases h
      exact ⟨by rw [(migMatrixState_frame s time m).1]; exact hinv.demes, migrationMatrixAt_times time hinv.times⟩
  | join o t i j =>
    rw [stepEvent_join] at h
    obtain ⟨pi, _, h⟩ := RV.bind_ok.1 h
    obtain ⟨pj, _, h⟩ := RV.bind_ok.1 h
    obtain ⟨s1, h1, h⟩ := RV.bind_ok.1 h
    cases h
    obtain ⟨e1, e2⟩ := modifyDeme_all (P := fun d => EpochsOpen d.epochs) (f := joinDeme time pj)
      (fun d d' hd hp => by rw [joinDeme_ok hd]; exact hp) h1 hinv.demes
    refine ⟨?_, ?_⟩
    · show ∀ d ∈ (joinMatrix s1 time pi).demes, _
      rw [(joinMatrix_frame s1 time pi).1]; exact e1
    · show (migrationMatrixAt s1 time).mmEndTimes.Pairwise _
      exact migrationMatrixAt_times time (by rw [e2]; exact hinv.times)
  | split o t i p =>
    rw [stepEvent_split] at h
    obtain ⟨pid, _, h⟩ := RV.bind_ok.1 h
    obtain ⟨q, _, h⟩ := RV.bind_ok.1 h
    split at h
    · exact (assertionErr_bind_ok.1 h).elim
    · cases h
      refine ⟨?_, hinv.times⟩
      intro d hd
      rcases List.mem_append.mp hd with hd | hd
      · exact hinv.demes d hd
      · simp only [List.mem_singleton] at hd
        subst hd
        exact ⟨⟨_, _, rfl, rfl, szNF_ofQ _, fun o ho => by cases ho⟩, List.pairwise_singleton _ _⟩

theorem applyParams_binv (time : Q) (s : BState) (g : GState) (h : BInv s) : BInv (applyParams time s g) := by
  obtain ⟨e1, _, _⟩ := applyParams_epochs time s g
  obtain ⟨_, m2⟩ := applyParams_mm time s g
  refine ⟨?_, by rw [m2]; exact h.times⟩
  intro d hd
  obtain ⟨i, hi, hdi⟩ := List.mem_iff_getElem.mp hd
  have := congrArg (fun l => l[i]?) e1
  simp only [List.getElem?_map, List.getElem?_eq_getElem hi, hdi, Option.map_some] at this
  cases hq : s.demes[i]? with
  | none => rw [hq] at this; cases this
  | some d0 =>
    rw [hq] at this
    simp only [Option.map_some, Option.some.injEq, Prod.mk.injEq] at this
    rw [this.1]
    exact h.demes d0 (List.mem_of_getElem? hq)

theorem stepGroup_binv {N0 : Q} {s s' : BState} {group : List (Event Num)}
    (hinv : BInv s) (h : Ms.stepGroup N0 s group = .ok s') : BInv s' := by
  unfold Ms.stepGroup at h
  obtain ⟨t, _, h⟩ := RV.bind_ok.1 h
  dsimp only at h
  obtain ⟨sg, hsg, h⟩ := RV.bind_ok.1 h
  obtain ⟨s1, g1⟩ := sg
  cases h
  have h1 : BInv s1 :=
    RV.foldlM_inv (fun (sg : BState × GState) => BInv sg.1) _
      (fun a ev b ha hst => by
        obtain ⟨a1, a2⟩ := a
        obtain ⟨b1, b2⟩ := b
        exact stepEvent_binv ha hst) _ _ _ hinv hsg
  exact applyParams_binv _ s1 g1 h1

theorem initState_binv (args : Args) (N0 : Q) : BInv (initState args N0) := by
  refine ⟨?_, List.pairwise_singleton _ _⟩
  intro d hd
  unfold initState at hd
  simp only [List.mem_map, List.mem_range] at hd
  obtain ⟨j, _, rfl⟩ := hd
  exact ⟨⟨_, _, rfl, rfl, szNF_ofQ _, fun o ho => by cases ho⟩, List.pairwise_singleton _ _⟩

/-- **the Builder invariant at the end of the event loop** -/
theorem buildState_binv {args : Args} {N0 : Q} {s : BState} (h : buildState args N0 = .ok s) : BInv s := by
  unfold buildState at h
  split at h
  · exact (RV.valueErr_bind_ok.1 h).elim
  · obtain ⟨_, _, h⟩ := RV.bind_ok.1 h
    exact RV.foldlM_inv BInv _ (fun a gr b ha hst => stepGroup_binv ha hst) _ _ _ (initState_binv args N0) h

/-! ## `finaliseGrowth` closes the head epoch -/

/-- the epochs of a finished deme: all closed, strictly decreasing end times -/
structure EpochsClosed (es : List BEpoch) : Prop where
  ne : es ≠ []
  all : ∀ o ∈ es, EpochClosed o
  dec : es.Pairwise (fun a b => b.endTime < a.endTime)

theorem finaliseGrowth_closed {d d' : BDeme} (h : finaliseGrowth d = .ok d') (hd : EpochsOpen d.epochs) :
    EpochsClosed d'.epochs ∧ d'.epochs.map (·.endTime) = d.epochs.map (·.endTime)
    ∧ (d'.startTime = .inf → ∀ e z, d'.epochs.head? = some e → e.startSize = some z → z = e.endSize) := by
  obtain ⟨⟨e0, older0, he0, hs0, hnf0, hold0⟩, hdec⟩ := hd
  unfold finaliseGrowth at h
  rw [he0] at h hdec
  dsimp only at h
  split at h
  · split at h
    · cases h
    · rename_i st hst
      cases h
      dsimp only
      refine ⟨⟨by simp, ?_, by rw [List.pairwise_cons] at hdec ⊢; exact hdec⟩, by rw [he0]; rfl, ?_⟩
      · intro o ho
        rcases List.mem_cons.mp ho with rfl | ho
        · exact ⟨rfl, ⟨_, rfl, mulExp_coef _ _⟩, hnf0⟩
        · exact hold0 o ho
      · intro hinf
        rw [hst] at hinf
        cases hinf
  · cases h
    dsimp only
    refine ⟨⟨by simp, ?_, by rw [List.pairwise_cons] at hdec ⊢; exact hdec⟩, by rw [he0]; rfl, ?_⟩
    · intro o ho
      rcases List.mem_cons.mp ho with rfl | ho
      · exact ⟨rfl, ⟨_, rfl, rfl⟩, hnf0⟩
      · exact hold0 o ho
    · intro _ e z he hz
      simp only [List.head?_cons, Option.some.injEq] at he
      subst he
      simp only [Option.some.injEq] at hz
      exact hz.symm

end Demes.Proofs.FromMs
