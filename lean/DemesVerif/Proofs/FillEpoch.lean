/-
  Proofs for C02, part 4 — the epoch loop of `fromdict` against the fill-in rules of the Spec.
-/
import DemesVerif.Proofs.FillObj
namespace Demes.Proofs
open Demes Demes.Obj Demes.Spec

/-! ### `Epoch(...)`: validators and consistency checks on the filled-in raw values -/

/-- the validators and consistency checks of `Epoch(...)` on the filled-in raw values, then `k` -/
def finishEpochK {β} (startTime : ETime) (raw : EpochRaw) (k : Epoch → Except Err β) :
    Except Err β := do
  let endTime ← nonNegFiniteQ raw.endTime
  let startSize ← posFiniteQ raw.startSize
  let endSize ← posFiniteQ raw.endSize
  let sizeFunction ← match raw.sizeFunction with
    | none => pure (if startSize = endSize then "constant" else "exponential")
    | some (.str s) => if sizeFunctions.contains s then pure s else valueErr "size_function"
    | some _ => valueErr "size_function"
  let selfingRate ← unitQ raw.selfing
  let cloningRate ← unitQ raw.cloning
  if startTime ≤ ETime.fin endTime then valueErr "must have start_time > end_time"
  if startTime.isInf && startSize ≠ endSize then
    valueErr "if start time is inf, must be a constant size epoch" else
  if sizeFunction = "constant" && startSize ≠ endSize then
    valueErr "start_size != end_size, but size_function is constant"
  k { startTime, endTime, startSize, endSize, sizeFunction, selfingRate, cloningRate }

def finishEpoch (startTime : ETime) (raw : EpochRaw) : Except Err Epoch :=
  finishEpochK startTime raw pure

theorem finishEpochK_eq {β} (startTime : ETime) (raw : EpochRaw) (k : Epoch → Except Err β) :
    finishEpochK startTime raw k = finishEpoch startTime raw >>= k := by
  unfold finishEpoch finishEpochK
  cases nonNegFiniteQ raw.endTime with
  | error _ => rfl
  | ok endTime =>
  cases posFiniteQ raw.startSize with
  | error _ => rfl
  | ok startSize =>
  cases posFiniteQ raw.endSize with
  | error _ => rfl
  | ok endSize =>
  have key : ∀ sf : Except Err String,
      (do let sizeFunction ← sf
          let selfingRate ← unitQ raw.selfing
          let cloningRate ← unitQ raw.cloning
          if startTime ≤ ETime.fin endTime then valueErr "must have start_time > end_time"
          if startTime.isInf && startSize ≠ endSize then
            valueErr "if start time is inf, must be a constant size epoch" else
          if sizeFunction = "constant" && startSize ≠ endSize then
            valueErr "start_size != end_size, but size_function is constant"
          k { startTime, endTime, startSize, endSize, sizeFunction, selfingRate, cloningRate })
      = (do let sizeFunction ← sf
            let selfingRate ← unitQ raw.selfing
            let cloningRate ← unitQ raw.cloning
            if startTime ≤ ETime.fin endTime then valueErr "must have start_time > end_time"
            if startTime.isInf && startSize ≠ endSize then
              valueErr "if start time is inf, must be a constant size epoch" else
            if sizeFunction = "constant" && startSize ≠ endSize then
              valueErr "start_size != end_size, but size_function is constant"
            pure { startTime, endTime, startSize, endSize, sizeFunction, selfingRate, cloningRate : Epoch }) >>= k := by
    intro sf
    cases sf with
    | error _ => rfl
    | ok sizeFunction =>
    cases unitQ raw.selfing with
    | error _ => rfl
    | ok selfingRate =>
    cases unitQ raw.cloning with
    | error _ => rfl
    | ok cloningRate =>
    simp only [bind, Except.bind, pure, Except.pure]
    split
    · rfl
    · split
      · rfl
      · split <;> rfl
  rcases raw with ⟨a, b, c, sf, d, e⟩
  rcases sf with _ | v
  · exact key (pure _)
  · cases v with
    | str s =>
      by_cases hc : sizeFunctions.contains s = true
      · simp only [hc, if_true]; exact key (pure s)
      · simp only [hc]; exact key (valueErr "size_function")
    | _ => exact key (valueErr "size_function")

theorem not_etime_le {a b : ETime} : ¬ a ≤ b ↔ b < a := by
  cases a <;> cases b <;> simp only [LE.le, LT.lt, ETime.le, ETime.lt, not_true_eq_false,
    not_false_eq_true]
  exact Rat.not_le

theorem sizeFunctions_contains (s : String) :
    sizeFunctions.contains s = true ↔ s ∈ ["constant", "exponential", "linear"] := by
  simp [sizeFunctions]

/-- `finishEpoch` succeeds with `ep` exactly when `ep` carries the validated raw values and is
consistent. -/
theorem finishEpoch_ok_iff (st : ETime) (raw : EpochRaw) (ep : Epoch) :
    finishEpoch st raw = .ok ep ↔ ep.startTime = st ∧ EpochValidatesTo raw ep ∧ EpochConsistent ep := by
  unfold finishEpoch finishEpochK
  constructor
  · intro h
    cases h1 : nonNegFiniteQ raw.endTime with
    | error _ => rw [h1] at h; cases h
    | ok endTime =>
    cases h2 : posFiniteQ raw.startSize with
    | error _ => rw [h1, h2] at h; cases h
    | ok startSize =>
    cases h3 : posFiniteQ raw.endSize with
    | error _ => rw [h1, h2, h3] at h; cases h
    | ok endSize =>
    cases h5 : unitQ raw.selfing with
    | error _ =>
      rw [h1, h2, h3, h5] at h
      rcases raw with ⟨a, b, c, sf, d, e⟩
      rcases sf with _ | v
      · cases h
      · cases v with
        | str s => by_cases hc : sizeFunctions.contains s = true <;> simp only [hc] at h <;> cases h
        | _ => cases h
    | ok selfingRate =>
    cases h6 : unitQ raw.cloning with
    | error _ =>
      rw [h1, h2, h3, h5, h6] at h
      rcases raw with ⟨a, b, c, sf, d, e⟩
      rcases sf with _ | v
      · cases h
      · cases v with
        | str s => by_cases hc : sizeFunctions.contains s = true <;> simp only [hc] at h <;> cases h
        | _ => cases h
    | ok cloningRate =>
    rw [h1, h2, h3, h5, h6] at h
    have key : ∀ sfr : Except Err String,
        (do let sizeFunction ← sfr
            let selfingRate ← (Except.ok selfingRate : Except Err Q)
            let cloningRate ← (Except.ok cloningRate : Except Err Q)
            if st ≤ ETime.fin endTime then valueErr "must have start_time > end_time"
            if st.isInf && startSize ≠ endSize then
              valueErr "if start time is inf, must be a constant size epoch" else
            if sizeFunction = "constant" && startSize ≠ endSize then
              valueErr "start_size != end_size, but size_function is constant"
            pure { startTime := st, endTime, startSize, endSize, sizeFunction, selfingRate,
                   cloningRate : Epoch }) = .ok ep →
        ∃ sizeFunction, sfr = .ok sizeFunction ∧ ETime.fin endTime < st
          ∧ (st = ETime.inf → startSize = endSize)
          ∧ (sizeFunction = "constant" → startSize = endSize)
          ∧ ep = { startTime := st, endTime, startSize, endSize, sizeFunction, selfingRate,
                   cloningRate } := by
      intro sfr hk
      cases sfr with
      | error _ => cases hk
      | ok sizeFunction =>
        refine ⟨sizeFunction, rfl, ?_⟩
        simp only [bind, Except.bind, pure, Except.pure] at hk
        split at hk
        · cases hk
        · rename_i c1
          split at hk
          · cases hk
          · rename_i c2
            split at hk
            · cases hk
            · rename_i c3
              refine ⟨not_etime_le.1 c1, ?_, ?_, ?_⟩
              · intro hinf
                subst hinf
                simpa [ETime.isInf] using c2
              · intro hc
                simpa [hc] using c3
              · cases hk; rfl
    have fin : ∀ sizeFunction, specSizeFunction raw.sizeFunction startSize endSize = some sizeFunction →
        ETime.fin endTime < st → (st = ETime.inf → startSize = endSize) →
        (sizeFunction = "constant" → startSize = endSize) →
        ep = { startTime := st, endTime, startSize, endSize, sizeFunction, selfingRate,
               cloningRate } →
        ep.startTime = st ∧ EpochValidatesTo raw ep ∧ EpochConsistent ep := by
      intro sizeFunction hsf c1 c2 c3 hep
      subst hep
      exact ⟨rfl, ⟨h1, h2, h3, hsf, h5, h6⟩, ⟨c1, c2, c3⟩⟩
    rcases raw with ⟨a, b, c, sf, d, e⟩
    rcases sf with _ | v
    · obtain ⟨sizeFunction, hs, c1, c2, c3, hep⟩ := key (pure _) h
      cases hs
      exact fin _ rfl c1 c2 c3 hep
    · cases v with
      | str s =>
        by_cases hc : sizeFunctions.contains s = true
        · simp only [hc, if_true] at h
          obtain ⟨sizeFunction, hs, c1, c2, c3, hep⟩ := key (pure s) h
          cases hs
          refine fin _ ?_ c1 c2 c3 hep
          simp only [specSizeFunction, (sizeFunctions_contains s).1 hc, if_true]
        · simp only [hc] at h
          obtain ⟨sizeFunction, hs, _⟩ := key (valueErr "size_function") h
          cases hs
      | _ =>
        obtain ⟨sizeFunction, hs, _⟩ := key (valueErr "size_function") h
        cases hs
  · rintro ⟨hst, ⟨h1, h2, h3, h4, h5, h6⟩, ⟨c1, c2, c3⟩⟩
    rw [h1, h2, h3, h5, h6]
    have key : ∀ sfr : Except Err String, sfr = .ok ep.sizeFunction →
        (do let sizeFunction ← sfr
            let selfingRate ← (Except.ok ep.selfingRate : Except Err Q)
            let cloningRate ← (Except.ok ep.cloningRate : Except Err Q)
            if st ≤ ETime.fin ep.endTime then valueErr "must have start_time > end_time"
            if st.isInf && ep.startSize ≠ ep.endSize then
              valueErr "if start time is inf, must be a constant size epoch" else
            if sizeFunction = "constant" && ep.startSize ≠ ep.endSize then
              valueErr "start_size != end_size, but size_function is constant"
            pure { startTime := st, endTime := ep.endTime, startSize := ep.startSize,
                   endSize := ep.endSize, sizeFunction, selfingRate,
                   cloningRate : Epoch }) = .ok ep := by
      intro sfr hs
      subst hs
      simp only [bind, Except.bind, pure, Except.pure]
      have d1 : ¬ st ≤ ETime.fin ep.endTime := not_etime_le.2 (hst ▸ c1)
      have d2 : ¬ ((st.isInf && decide (ep.startSize ≠ ep.endSize)) = true) := by
        intro hh
        simp only [Bool.and_eq_true, decide_eq_true_eq] at hh
        apply hh.2
        apply c2
        rw [hst]
        cases st with
        | inf => rfl
        | fin _ => cases hh.1
      have d3 : ¬ ((decide (ep.sizeFunction = "constant") && decide (ep.startSize ≠ ep.endSize)) = true) := by
        intro hh
        simp only [Bool.and_eq_true, decide_eq_true_eq] at hh
        exact hh.2 (c3 hh.1)
      simp only [d1, d2, d3, if_false]
      subst hst
      rfl
    rcases raw with ⟨a, b, c, sf, d, e⟩
    rcases sf with _ | v
    · simp only [specSizeFunction, Option.some.injEq] at h4
      exact key (pure _) (by rw [h4]; rfl)
    · cases v with
      | str s =>
        simp only [specSizeFunction] at h4
        split at h4
        · rename_i hm
          simp only [Option.some.injEq] at h4
          subst h4
          have hc := (sizeFunctions_contains _).2 hm
          simp only [hc, if_true]
          exact key (pure _) rfl
        · cases h4
      | _ => simp only [specSizeFunction] at h4; cases h4

/-! ### `Deme._add_epoch` as a function of the lookups in the epoch object -/

/-- `addEpoch`, restated: which raw values are used is decided by `specEpochFieldsOf` on the
lookups in the (already filled-in) epoch object; the rest is `finishEpoch`. -/
theorem addEpoch_eq (demeStart : ETime) (epochs : List Epoch) (e : Obj) :
    addEpoch demeStart epochs e =
      (match specEpochFieldsOf epochs.getLast? false (fun k => lookup k e) with
      | none =>
        (match lookup "end_time" e with
        | none => keyErr "end_time"
        | some _ => keyErr "first epoch must have start_size or end_size")
      | some raw => do
        let ep ← finishEpoch (specEpochStart demeStart epochs.getLast?) raw
        pure (epochs ++ [ep])) := by
  have h : addEpoch demeStart epochs e =
      (match specEpochFieldsOf epochs.getLast? false (fun k => lookup k e) with
      | none =>
        (match lookup "end_time" e with
        | none => keyErr "end_time"
        | some _ => keyErr "first epoch must have start_size or end_size")
      | some raw => finishEpochK (specEpochStart demeStart epochs.getLast?) raw
          (fun ep => pure (epochs ++ [ep]))) := by
    unfold addEpoch specEpochFieldsOf finishEpochK specEpochStart
    simp only [lookupNN_eq_notNull]
    cases lookup "end_time" e with
    | none => rfl
    | some v =>
      cases epochs.getLast? with
      | none =>
        cases notNull (lookup "start_size" e) <;> cases notNull (lookup "end_size" e) <;> rfl
      | some p =>
        cases notNull (lookup "start_size" e) <;> cases notNull (lookup "end_size" e) <;> rfl
  rw [h]
  cases specEpochFieldsOf epochs.getLast? false (fun k => lookup k e) with
  | none => rfl
  | some raw => exact finishEpochK_eq _ _ _

/-- `addEpoch` depends on the epoch object only through the lookups of the six epoch fields. -/
theorem specEpochFieldsOf_congr (prev : Option Epoch) (isLast : Bool) (f g : String → Option Value)
    (h : ∀ k ∈ allowedEpoch, f k = g k) :
    specEpochFieldsOf prev isLast f = specEpochFieldsOf prev isLast g := by
  unfold specEpochFieldsOf
  rw [h "end_time" (by decide), h "start_size" (by decide), h "end_size" (by decide),
    h "size_function" (by decide), h "selfing_rate" (by decide), h "cloning_rate" (by decide)]

theorem addEpoch_congr (demeStart : ETime) (epochs : List Epoch) (e e' : Obj)
    (h : ∀ k ∈ allowedEpoch, lookup k e = lookup k e') :
    addEpoch demeStart epochs e = addEpoch demeStart epochs e' := by
  rw [addEpoch_eq, addEpoch_eq,
    specEpochFieldsOf_congr _ _ (fun k => lookup k e) (fun k => lookup k e') h,
    h "end_time" (by decide)]

theorem bind_pure_ok_iff {α β} (x : Except Err α) (g : α → β) (r : β) :
    (x >>= fun a => pure (g a)) = Except.ok r ↔ ∃ a, x = .ok a ∧ r = g a := by
  cases x with
  | error e =>
    constructor
    · intro h; cases h
    · rintro ⟨a, h, _⟩; cases h
  | ok a =>
    constructor
    · intro h; cases h; exact ⟨a, rfl, rfl⟩
    · rintro ⟨a', h, rfl⟩; cases h; rfl

/-- `addEpoch` succeeds exactly with the epoch the Spec prescribes appended. -/
theorem addEpoch_ok_iff (demeStart : ETime) (epochs : List Epoch) (e : Obj) (r : List Epoch) :
    addEpoch demeStart epochs e = .ok r ↔
      ∃ ep, EpochResolvesToOf demeStart epochs.getLast? false (fun k => lookup k e) ep
        ∧ r = epochs ++ [ep] := by
  rw [addEpoch_eq]
  unfold EpochResolvesToOf
  cases hs : specEpochFieldsOf epochs.getLast? false (fun k => lookup k e) with
  | none =>
    constructor
    · intro h
      cases hl : lookup "end_time" e <;> rw [hl] at h <;> cases h
    · rintro ⟨ep, ⟨raw, h, _⟩, _⟩; cases h
  | some raw =>
    simp only
    rw [bind_pure_ok_iff]
    constructor
    · rintro ⟨ep, h, rfl⟩
      obtain ⟨h1, h2, h3⟩ := (finishEpoch_ok_iff _ _ _).1 h
      exact ⟨ep, ⟨raw, rfl, h1, h2, h3⟩, rfl⟩
    · rintro ⟨ep, ⟨raw', hr, h1, h2, h3⟩, rfl⟩
      cases hr
      exact ⟨ep, (finishEpoch_ok_iff _ _ _).2 ⟨h1, h2, h3⟩, rfl⟩

/-! ### the epoch loop -/

/-- one iteration of the epoch loop (`n` = number of epochs of the deme) -/
def epochStep (demeStart : ETime) (D : Obj) (n : Nat) (acc : List Epoch) (ej : Obj × Nat) :
    Except Err (List Epoch) := do
  let (e, j) := ej
  checkAllowed e allowedEpoch
  let e := insertDefaults e D
  let e ← if contains "end_time" e then pure e
    else if j = n - 1 then pure (Obj.set "end_time" (.num (.fin 0)) e)
    else keyErr s!"epochs[{j}]: required field 'end_time' not found"
  addEpoch demeStart acc e

theorem resolveEpochs_eq (demeStart : ETime) (D : Obj) (es : List Obj) :
    resolveEpochs demeStart D es = es.zipIdx.foldlM (epochStep demeStart D es.length) [] := rfl

/-- with an `end_time` in force, being the last epoch does not matter -/
theorem specEpochFieldsOf_endTime (prev : Option Epoch) (b b' : Bool) (f : String → Option Value)
    {v : Value} (h : f "end_time" = some v) :
    specEpochFieldsOf prev b f = specEpochFieldsOf prev b' f := by
  unfold specEpochFieldsOf
  simp only [h]

/-- the last epoch without an `end_time` in force: as if `end_time: 0` had been written -/
theorem specEpochFieldsOf_last (prev : Option Epoch) (e : Obj) (h : lookup "end_time" e = none) :
    specEpochFieldsOf prev false (fun k => lookup k (Obj.set "end_time" (.num (.fin 0)) e))
      = specEpochFieldsOf prev true (fun k => lookup k e) := by
  unfold specEpochFieldsOf
  simp only [lookup_set, h, if_true]
  rfl

theorem specEpochFieldsOf_missing (prev : Option Epoch) (f : String → Option Value)
    (h : f "end_time" = none) : specEpochFieldsOf prev false f = none := by
  unfold specEpochFieldsOf
  simp only [h]
  rfl

theorem epochStep_ok_iff (demeStart : ETime) (D : Obj) (n : Nat) (acc : List Epoch) (e : Obj)
    (j : Nat) (r : List Epoch) :
    epochStep demeStart D n acc (e, j) = .ok r ↔
      ∃ ep, (checkAllowed e allowedEpoch = .ok () ∧
        EpochResolvesToOf demeStart acc.getLast? (decide (j = n - 1))
          (fun k => lookup k (insertDefaults e D)) ep) ∧ r = acc ++ [ep] := by
  unfold epochStep
  dsimp only
  cases hca : checkAllowed e allowedEpoch with
  | error err =>
    constructor
    · intro h; cases h
    · rintro ⟨ep, ⟨h, _⟩, _⟩; cases h
  | ok u =>
    cases u
    simp only [true_and]
    simp only [bind, Except.bind, pure, Except.pure]
    by_cases hc : contains "end_time" (insertDefaults e D) = true
    · simp only [hc, if_true]
      rw [addEpoch_ok_iff]
      rw [contains_eq] at hc
      cases hl : lookup "end_time" (insertDefaults e D) with
      | none => rw [hl] at hc; cases hc
      | some v =>
        unfold EpochResolvesToOf
        rw [specEpochFieldsOf_endTime _ false (decide (j = n - 1)) _ hl]
    · simp only [hc]
      have hl : lookup "end_time" (insertDefaults e D) = none := by
        rw [contains_eq] at hc
        cases hl : lookup "end_time" (insertDefaults e D) with
        | none => rfl
        | some v => rw [hl] at hc; exact (hc rfl).elim
      by_cases hj : j = n - 1
      · simp only [hj, if_true, decide_true, Bool.false_eq_true, if_false]
        rw [addEpoch_ok_iff]
        unfold EpochResolvesToOf
        rw [specEpochFieldsOf_last _ _ hl]
      · simp only [hj, if_false, decide_false, keyErr]
        constructor
        · intro h; cases h
        · rintro ⟨ep, ⟨raw, h, _⟩, _⟩
          rw [specEpochFieldsOf_missing _ _ hl] at h
          cases h

/-! ### a fold that appends one element per step -/

theorem foldlM_chain {α β ε} (f : List β → α → Except ε (List β)) (R : List β → α → β → Prop)
    (hf : ∀ acc x r, f acc x = .ok r ↔ ∃ y, R acc x y ∧ r = acc ++ [y]) :
    ∀ (xs : List α) (acc r : List β), xs.foldlM f acc = .ok r ↔
      ∃ ys, r = acc ++ ys ∧ ys.length = xs.length ∧
        ∀ i (h : i < xs.length) (h' : i < ys.length), R (acc ++ ys.take i) xs[i] ys[i] := by
  intro xs
  induction xs with
  | nil =>
    intro acc r
    constructor
    · intro h
      cases h
      exact ⟨[], by simp, rfl, fun i h => absurd h (Nat.not_lt_zero _)⟩
    · rintro ⟨ys, rfl, hl, _⟩
      cases ys with
      | nil => simp [List.foldlM_nil, pure, Except.pure]
      | cons y ys => cases hl
  | cons x xs ih =>
    intro acc r
    rw [List.foldlM_cons]
    constructor
    · intro h
      cases hfx : f acc x with
      | error e => rw [hfx] at h; cases h
      | ok a =>
        rw [hfx] at h
        obtain ⟨y, hR, rfl⟩ := (hf acc x a).1 hfx
        obtain ⟨ys', rfl, hl, hall⟩ := (ih (acc ++ [y]) r).1 h
        refine ⟨y :: ys', by simp, by simp [hl], ?_⟩
        intro i h1 h2
        cases i with
        | zero => simpa using hR
        | succ i =>
          have := hall i (by simpa using h1) (by simpa using h2)
          simpa [List.append_assoc] using this
    · rintro ⟨ys, rfl, hl, hall⟩
      cases ys with
      | nil => cases hl
      | cons y ys' =>
        have hR : R acc x y := by
          have := hall 0 (Nat.zero_lt_succ _) (Nat.zero_lt_succ _)
          simpa using this
        rw [(hf acc x (acc ++ [y])).2 ⟨y, hR, rfl⟩]
        show List.foldlM f (acc ++ [y]) xs = _
        rw [ih]
        refine ⟨ys', by simp, by simpa using hl, ?_⟩
        intro i h1 h2
        have := hall (i + 1) (by simpa using h1) (by simpa using h2)
        simpa [List.append_assoc] using this

theorem getLast?_take {β} (ys : List β) (i : Nat) (h : i < ys.length) :
    (ys.take i).getLast? = if i = 0 then none else ys[i - 1]? := by
  cases i with
  | zero => simp
  | succ i =>
    rw [List.getLast?_eq_getElem?]
    simp only [List.length_take, Nat.add_sub_cancel, Nat.succ_ne_zero, if_false]
    rw [Nat.min_eq_left (Nat.le_of_lt h), Nat.add_sub_cancel, List.getElem?_take]
    simp

/-- **C02 (3), in terms of the merged defaults.**  The epoch loop succeeds with `eps` exactly
when every written epoch has only known fields, there are as many resolved as written epochs,
and the `i`-th resolved epoch is the one the Spec prescribes for the `i`-th written epoch (the
value in force being the explicit one, else the merged default) after the `i-1`-th resolved
epoch. -/
theorem resolveEpochs_ok_iff (demeStart : ETime) (D : Obj) (es : List Obj) (eps : List Epoch) :
    resolveEpochs demeStart D es = .ok eps ↔
      eps.length = es.length ∧
      ∀ i (h : i < es.length) (h' : i < eps.length),
        checkAllowed es[i] allowedEpoch = .ok () ∧
        EpochResolvesToOf demeStart (if i = 0 then none else eps[i - 1]?)
          (decide (i = es.length - 1)) (fun k => lookup k (insertDefaults es[i] D)) eps[i] := by
  rw [resolveEpochs_eq,
    foldlM_chain (epochStep demeStart D es.length)
      (fun acc (ej : Obj × Nat) ep => checkAllowed ej.1 allowedEpoch = .ok () ∧
        EpochResolvesToOf demeStart acc.getLast? (decide (ej.2 = es.length - 1))
          (fun k => lookup k (insertDefaults ej.1 D)) ep)
      (fun acc ej r => epochStep_ok_iff demeStart D es.length acc ej.1 ej.2 r)]
  simp only [List.nil_append, List.length_zipIdx, List.getElem_zipIdx, Nat.zero_add]
  constructor
  · rintro ⟨ys, rfl, hl, hall⟩
    refine ⟨hl, fun i h h' => ?_⟩
    have := hall i h h'
    rwa [getLast?_take _ _ h'] at this
  · rintro ⟨hl, hall⟩
    refine ⟨eps, rfl, hl, fun i h h' => ?_⟩
    rw [getLast?_take _ _ h']
    exact hall i h h'

theorem inForce_eq (e demeLevel topLevel : Obj) (hl : (keys demeLevel).Nodup) :
    (fun k => lookup k (insertDefaults e (update topLevel demeLevel)))
      = effective e demeLevel topLevel := by
  funext k
  exact epoch_default_precedence k e demeLevel topLevel hl

/-- **C02 (3)** The epoch loop of a deme with deme-level `defaults.epoch = demeLevel` in a document
with top-level `defaults.epoch = topLevel` succeeds with `eps` exactly when every written epoch
has only known fields and `eps` is the resolution the Spec prescribes (`EpochsResolveTo`). -/
theorem resolveEpochs_iff (demeStart : ETime) (topLevel demeLevel : Obj) (es : List Obj)
    (eps : List Epoch) (hl : (keys demeLevel).Nodup) :
    resolveEpochs demeStart (update topLevel demeLevel) es = .ok eps ↔
      (∀ e ∈ es, checkAllowed e allowedEpoch = .ok ()) ∧
      EpochsResolveTo demeStart es demeLevel topLevel eps := by
  rw [resolveEpochs_ok_iff]
  unfold EpochsResolveTo EpochResolvesTo
  constructor
  · rintro ⟨hlen, hall⟩
    refine ⟨?_, hlen, ?_⟩
    · intro e he
      obtain ⟨i, hi, rfl⟩ := List.mem_iff_getElem.1 he
      exact (hall i hi (hlen ▸ hi)).1
    · intro i h h'
      rw [← inForce_eq _ _ _ hl]
      exact (hall i h h').2
  · rintro ⟨hca, hlen, hall⟩
    refine ⟨hlen, fun i h h' => ⟨hca _ (List.getElem_mem h), ?_⟩⟩
    rw [inForce_eq _ _ _ hl]
    exact hall i h h'

/-- **C02 (3)**, the direction "what the library returns is what the Spec prescribes". -/
theorem resolveEpochs_spec (demeStart : ETime) (topLevel demeLevel : Obj) (es : List Obj)
    (eps : List Epoch) (hl : (keys demeLevel).Nodup)
    (h : resolveEpochs demeStart (update topLevel demeLevel) es = .ok eps) :
    EpochsResolveTo demeStart es demeLevel topLevel eps :=
  ((resolveEpochs_iff demeStart topLevel demeLevel es eps hl).1 h).2

/-- The resolution the Spec prescribes is unique: the fill-in rules and validators are
functions. -/
theorem epochResolvesToOf_unique {demeStart : ETime} {prev : Option Epoch} {isLast : Bool}
    {f : String → Option Value} {ep ep' : Epoch}
    (h : EpochResolvesToOf demeStart prev isLast f ep)
    (h' : EpochResolvesToOf demeStart prev isLast f ep') : ep = ep' := by
  obtain ⟨raw, hr, hs, hv, hc⟩ := h
  obtain ⟨raw', hr', hs', hv', hc'⟩ := h'
  rw [hr] at hr'
  cases hr'
  have h1 := (finishEpoch_ok_iff _ raw ep).2 ⟨hs, hv, hc⟩
  have h2 := (finishEpoch_ok_iff _ raw ep').2 ⟨hs', hv', hc'⟩
  rw [h1] at h2
  exact Except.ok.inj h2

end Demes.Proofs
