/-
  Spec definitions for C02 — the Demes specification's *fill-in rules* (which value an omitted
  field takes), written declaratively: every rule is a lookup by precedence in the objects the
  document contains.  No object is mutated, nothing loops over a defaults object.

  Raw values are `Value`s as they would be written in the document; the numeric validators of
  the Model (`posFiniteQ`, `nonNegFiniteQ`, `unitQ`, `posTime`, …) turn a raw value into the
  resolved number.  The theorems of `Theorems/C02.lean` say that the resolved field is the
  validated form of the raw value given here.
-/
import DemesVerif.Model.Resolve
namespace Demes.Spec
open Demes Demes.Obj

/-! ### precedence of defaults -/

/-- The value in force for field `k`: the explicit field, else the deme-level default, else the
top-level default.  (For deme / migration / pulse fields there is no deme level: pass `[]`.) -/
def effective (explicit demeLevel topLevel : Obj) (k : String) : Option Value :=
  lookup k explicit <|> lookup k demeLevel <|> lookup k topLevel

/-- `null` counts as "not given". -/
def notNull (v : Option Value) : Option Value :=
  match v with
  | some .null => none
  | r => r

/-- As `effective`, for the fields where the library treats `null` like an omitted field: the
*value in force* is found first (so an explicit `null` hides the defaults), and `null` then
counts as "not given". -/
def effectiveNN (explicit demeLevel topLevel : Obj) (k : String) : Option Value :=
  notNull (effective explicit demeLevel topLevel k)

/-! ### epochs -/

/-- The raw (document-level) values of one epoch after fill-in. `sizeFunction = none` means
"to be inferred from the resolved sizes" (see `specSizeFunction`). -/
structure EpochRaw where
  endTime : Value
  startSize : Value
  endSize : Value
  sizeFunction : Option Value
  selfing : Value
  cloning : Value

/-- Fill-in rules for one epoch, in terms of `inForce k`, the value in force for field `k`
(see `specEpochFields` for where it comes from).

* `prev`    the previous *resolved* epoch of the same deme (`none` for the first epoch),
* `isLast`  whether this is the deme's last epoch.

`end_time`: the value in force (a `null` is *not* an omission here), else `0` for the last
epoch, else the epoch cannot be resolved.
`start_size`: the non-null value in force, else the previous epoch's end size, else (first
epoch) the non-null `end_size` in force; a first epoch with neither size cannot be resolved.
`end_size`: the non-null value in force, else the start size just determined.
`size_function`: the non-null value in force, else inferred (`specSizeFunction`).
`selfing_rate`, `cloning_rate`: the value in force (a `null` is not an omission), else `0`. -/
def specEpochFieldsOf (prev : Option Epoch) (isLast : Bool) (inForce : String → Option Value) :
    Option EpochRaw :=
  let endTime? : Option Value :=
    match inForce "end_time" with
    | some v => some v
    | none => if isLast then some (.num (.fin 0)) else none
  let startSize? : Option Value :=
    match notNull (inForce "start_size") with
    | some v => some v
    | none =>
      match prev with
      | some p => some (.num (.fin p.endSize))
      | none => notNull (inForce "end_size")
  match endTime?, startSize? with
  | some endTime, some startSize =>
    some { endTime, startSize
           endSize := (notNull (inForce "end_size")).getD startSize
           sizeFunction := notNull (inForce "size_function")
           selfing := (inForce "selfing_rate").getD (.num (.fin 0))
           cloning := (inForce "cloning_rate").getD (.num (.fin 0)) }
  | _, _ => none

/-- Fill-in rules for the epoch written `e` in a deme with deme-level `defaults.epoch`
`demeLevel` in a document with top-level `defaults.epoch` `topLevel`: the value in force is the
explicit one, else the deme-level default, else the top-level default. -/
def specEpochFields (prev : Option Epoch) (isLast : Bool) (e demeLevel topLevel : Obj) :
    Option EpochRaw :=
  specEpochFieldsOf prev isLast (effective e demeLevel topLevel)

/-- The resolved size function: the given one (which must be one of the three known names), else
`"constant"` when the resolved sizes are equal and `"exponential"` otherwise. -/
def specSizeFunction (raw : Option Value) (startSize endSize : Q) : Option String :=
  match raw with
  | none => some (if startSize = endSize then "constant" else "exponential")
  | some (.str s) => if s ∈ ["constant", "exponential", "linear"] then some s else none
  | some _ => none

/-- The start time of the `i`-th epoch of a deme: the deme's start time for the first epoch, the
previous epoch's end time otherwise. -/
def specEpochStart (demeStart : ETime) (prev : Option Epoch) : ETime :=
  match prev with
  | none => demeStart
  | some p => ETime.fin p.endTime

/-- The resolved epoch `ep` carries the validated forms of the raw values `raw`. -/
structure EpochValidatesTo (raw : EpochRaw) (ep : Epoch) : Prop where
  endTime : nonNegFiniteQ raw.endTime = .ok ep.endTime
  startSize : posFiniteQ raw.startSize = .ok ep.startSize
  endSize : posFiniteQ raw.endSize = .ok ep.endSize
  sizeFunction : specSizeFunction raw.sizeFunction ep.startSize ep.endSize = some ep.sizeFunction
  selfing : unitQ raw.selfing = .ok ep.selfingRate
  cloning : unitQ raw.cloning = .ok ep.cloningRate

/-- The consistency conditions an epoch must meet to be accepted. -/
structure EpochConsistent (ep : Epoch) : Prop where
  interval : ETime.fin ep.endTime < ep.startTime
  infConstant : ep.startTime = ETime.inf → ep.startSize = ep.endSize
  constant : ep.sizeFunction = "constant" → ep.startSize = ep.endSize

/-- `ep` is the resolution of an epoch with the values `inForce`, after the resolved epoch
`prev`, in a deme starting at `demeStart`. -/
def EpochResolvesToOf (demeStart : ETime) (prev : Option Epoch) (isLast : Bool)
    (inForce : String → Option Value) (ep : Epoch) : Prop :=
  ∃ raw, specEpochFieldsOf prev isLast inForce = some raw
    ∧ ep.startTime = specEpochStart demeStart prev
    ∧ EpochValidatesTo raw ep ∧ EpochConsistent ep

/-- `ep` is the resolution of the epoch written `e`, under the given defaults, after the
resolved epoch `prev`, in a deme starting at `demeStart`. -/
def EpochResolvesTo (demeStart : ETime) (prev : Option Epoch) (isLast : Bool)
    (e demeLevel topLevel : Obj) (ep : Epoch) : Prop :=
  EpochResolvesToOf demeStart prev isLast (effective e demeLevel topLevel) ep

/-- The epochs `eps` are the resolution of the epochs written `es` of a deme starting at
`demeStart`: same number, and each is the resolution of the one written at its position, after
the resolved epoch before it. -/
def EpochsResolveTo (demeStart : ETime) (es : List Obj) (demeLevel topLevel : Obj)
    (eps : List Epoch) : Prop :=
  eps.length = es.length ∧
  ∀ i (h : i < es.length) (h' : i < eps.length),
    EpochResolvesTo demeStart (if i = 0 then none else eps[i - 1]?) (decide (i = es.length - 1))
      es[i] demeLevel topLevel eps[i]

/-- `v` is the raw form of the value that resolution infers for field `k` when it is omitted,
for an epoch that resolves to `ep` (`isLast`: it is the deme's last epoch). -/
inductive InferredField (isLast : Bool) (ep : Epoch) : String → Value → Prop
  | sizeFunction : InferredField isLast ep "size_function" (.str ep.sizeFunction)
  | startSize : InferredField isLast ep "start_size" (.num (.fin ep.startSize))
  | endSize : InferredField isLast ep "end_size" (.num (.fin ep.endSize))
  | selfing : InferredField isLast ep "selfing_rate" (.num (.fin 0))
  | cloning : InferredField isLast ep "cloning_rate" (.num (.fin 0))
  | endTime : isLast = true → InferredField isLast ep "end_time" (.num (.fin 0))

/-- the object `e` with the field `k` removed if it is given as `null` -/
def dropNull (k : String) (e : Obj) : Obj :=
  match lookup k e with
  | some .null => erase k e
  | _ => e

/-! ### deme header -/

/-- The raw start time of a deme: the one in force (explicit or `defaults.deme`), else the end
time of its single ancestor, else infinity when it has no ancestors.  A deme with several
ancestors and no start time in force cannot be resolved. -/
def specStartTime (g : Graph) (inForce : Option Value) (ancestors : List String) : Option Value :=
  match inForce with
  | some v => some v
  | none =>
    match ancestors with
    | [] => some (.num .pinf)
    | [a] => (g.deme? a).map (fun d => .num (.fin d.endTime))
    | _ => none

/-- The raw ancestors list: the one in force, else `[]`. -/
def specAncestors (inForce : Option Value) : Value := inForce.getD (.list [])

/-- The raw proportions: the ones in force, else `[1]` for a single ancestor and `[]` otherwise. -/
def specProportions (inForce : Option Value) (ancestors : List String) : Value :=
  match inForce with
  | some v => v
  | none => if ancestors.length = 1 then .list [.num (.fin 1)] else .list []

/-! ### migrations -/

/-- A symmetric migration among `names` stands for one asymmetric migration for every ordered
pair of distinct positions, in the order of `itertools.permutations(names, 2)`:
`(n₀,n₁), (n₀,n₂), …, (n₁,n₀), (n₁,n₂), …`. -/
def specSymmetricExpansion {α} (names : List α) : List (α × α) :=
  (List.range names.length).flatMap (fun i =>
    (List.range names.length).filterMap (fun j =>
      if i ≠ j then
        match names[i]?, names[j]? with
        | some a, some b => some (a, b)
        | _, _ => none
      else none))

/-- The asymmetric migration written out for the ordered pair `(source, dest)`, with the raw
`rate`, `start_time` and `end_time` in force for the symmetric migration it comes from
(a bound not in force is left out again, so each pair gets its own default bound). -/
def asymmetricDict (rate startTime endTime : Option Value) (sd : Value × Value) : Obj :=
  [("source", sd.1), ("dest", sd.2)]
    ++ (match rate with | some v => [("rate", v)] | none => [])
    ++ (match startTime with | some v => [("start_time", v)] | none => [])
    ++ (match endTime with | some v => [("end_time", v)] | none => [])

/-- the top-level object `data` with its `migrations` list replaced by `ms` -/
def withMigrations (data : Obj) (ms : List Obj) : Obj :=
  Obj.set "migrations" (.list (ms.map Value.obj)) data

/-! ### pulses -/

/-- `ys` is `xs` stably sorted by descending `key`: a permutation of `xs`, in descending key
order, and for every key value the elements having it appear in the same order as in `xs`. -/
structure StableSortedDesc {α} (key : α → Q) (xs ys : List α) : Prop where
  perm : ys.Perm xs
  sorted : ys.Pairwise (fun a b => key b ≤ key a)
  stable : ∀ k : Q, ys.filter (fun a => key a = k) = xs.filter (fun a => key a = k)

end Demes.Spec
