/-
  C07 — `popsMatch`: the populations of the emitted command are the graph's demes, with the
  graph's lifetimes (from the present) and sizes.
-/
import DemesVerif.Proofs.ToMsSemPops
set_option linter.unusedSimpArgs false
set_option linter.unusedVariables false
namespace Demes.Proofs.ToMs
open Demes Demes.Ms Demes.Spec Demes.Spec.C07 Demes.Proofs.RV
open Demes.Spec.MsSem

def initUpd (N0 : Q) : Upd := ⟨0, some N0, some .zero⟩

/-- the updates of population `k+1` of the emitted command -/
def updsOfDeme (N0 : Q) (k : Nat) (d : Deme) : List Upd :=
  initUpd N0 :: (sizeEvs N0 ((k + 1 : Nat) : Int) N0 .zero d.epochs.reverse).map (updClean N0)

section
variable {g : Graph} (c : Clauses g) (hx : MsExpressible g = true) {N0 : Q} (hN : 0 < N0)
include c hx hN

theorem run_pops_orig {k : Nat} {d : Deme} (hd : g.demes[k]? = some d) :
    (runP N0 (s0Of N0 g.demes.length) (finalEvs g N0)).pops[k]?
      = some { lo := 0, hi := d.startTime, upd := updsOfDeme N0 k d } := by
  have hklt : k < g.demes.length := (List.getElem?_eq_some_iff.mp hd).1
  have h0 : (s0Of N0 g.demes.length).pops[k]? = some { lo := 0, upd := [initUpd N0] } := by
    simp [s0Of, List.getElem?_replicate, hklt, initUpd]
  rw [runP_pops_get _ h0, hiFrom_finalEvs c hx hN hd, filterMap_updOf_finalEvs c hx hN hd]
  rfl

theorem run_newDead : NewDead g.demes.length (runP N0 (s0Of N0 g.demes.length) (finalEvs g N0)) := by
  apply pending_run
  · intro e he hsj i hi
    obtain ⟨y, hy, rfl⟩ := finalEvs_mem c hx he
    rw [isSplitJoin_scale] at hsj
    rw [targets_scale] at hi
    obtain ⟨h1, h2, _⟩ := targetTime c hx hy hsj hi
    unfold idx; omega
  · intro e he hsp
    have hsj : isSplitJoin e = true := by cases e <;> simp [isSplitEv] at hsp <;> rfl
    obtain ⟨y, _, hy, hok⟩ := finalEvs_anc c hx he hsj
    have hok' := ancEvOk_scale (N0 := N0) hok
    rw [← hy] at hok'
    cases e with
    | split o t i p =>
      obtain ⟨_, ⟨v, rfl, _⟩, _⟩ := hok'
      rfl
    | _ => simp [isSplitEv] at hsp
  · simp [s0Of]
  · left
    refine ⟨?_, ?_⟩
    · intro k p hk hp
      have : (s0Of N0 g.demes.length).pops.length = g.demes.length := by simp [s0Of]
      have := (List.getElem?_eq_some_iff.mp hp).1
      omega
    · have : (s0Of N0 g.demes.length).pops.length = g.demes.length := by simp [s0Of]
      rw [this, finalEvs_filter_splitJoin c hx hN]
      exact wellNumbered_ancEvs N0 _ _ (dpOk_of_valid c hx)

end

/-! ### the reported populations -/

theorem popsObs_get (P : List PopG) (n0 : Nat)
    (horig : ∀ k p, k < n0 → P[k]? = some p → ETime.fin p.lo < p.hi)
    (hnew : ∀ k p, n0 ≤ k → P[k]? = some p → ¬ ETime.fin p.lo < p.hi) (hlen : n0 ≤ P.length) :
    popsObs P = ((P.take n0).zipIdx).map (fun (pk : PopG × Nat) => { id := pk.2 + 1, lo := pk.1.lo, hi := pk.1.hi, upd := pk.1.upd }) := by
  have hsplit : P = P.take n0 ++ P.drop n0 := (List.take_append_drop n0 P).symm
  unfold popsObs
  conv => lhs; rw [hsplit]
  rw [List.zipIdx_append, List.filterMap_append]
  have h2 : ((P.drop n0).zipIdx (0 + (P.take n0).length)).filterMap (fun (pk : PopG × Nat) =>
      if decide (ETime.fin pk.1.lo < pk.1.hi) then some ({ id := pk.2 + 1, lo := pk.1.lo, hi := pk.1.hi, upd := pk.1.upd } : PopSemG) else none) = [] := by
    rw [List.filterMap_eq_nil_iff]
    intro pk hpk
    have hm := List.mem_zipIdx hpk
    obtain ⟨h1, h2, h3⟩ := hm
    have hlt : (P.take n0).length = n0 := by simp; omega
    have hget : P[pk.2]? = some pk.1 := by
      have h3' : (P.drop n0)[pk.2 - (0 + (P.take n0).length)]? = some pk.1 := by
        rw [h3]; exact List.getElem?_eq_getElem _
      rw [List.getElem?_drop] at h3'
      rw [← h3']; congr 1; omega
    have := hnew pk.2 pk.1 (by omega) hget
    simp [this]
  have h1 : ((P.take n0).zipIdx).filterMap (fun (pk : PopG × Nat) =>
      if decide (ETime.fin pk.1.lo < pk.1.hi) then some ({ id := pk.2 + 1, lo := pk.1.lo, hi := pk.1.hi, upd := pk.1.upd } : PopSemG) else none)
      = ((P.take n0).zipIdx).map (fun (pk : PopG × Nat) => { id := pk.2 + 1, lo := pk.1.lo, hi := pk.1.hi, upd := pk.1.upd }) := by
    apply filterMap_eq_map_of
    intro pk hpk
    have hm := List.mem_zipIdx hpk
    obtain ⟨_, h2, h3⟩ := hm
    have hk : pk.2 < n0 := by
      have : (P.take n0).length ≤ n0 := by simp; omega
      omega
    have hget : P[pk.2]? = some pk.1 := by
      have h3' : (P.take n0)[pk.2 - 0]? = some pk.1 := by rw [h3]; exact List.getElem?_eq_getElem _
      rw [List.getElem?_take] at h3'
      simpa [hk] using h3'
    have := horig pk.2 pk.1 hk hget
    simp [this]
  rw [h1, h2, List.append_nil]

/-! ### the graph's populations -/

theorem insertKey_of_le {β} {x : Nat × β} {l : List (Nat × β)} (h : ∀ y ∈ l.head?, x.1 ≤ y.1) :
    insertKey x l = x :: l := by
  cases l with
  | nil => rfl
  | cons y ys => simp [insertKey, h y (by simp)]

theorem sortKey_of_sorted {β} : ∀ (l : List (Nat × β)), l.Pairwise (fun a b => a.1 ≤ b.1) → sortKey l = l
  | [], _ => rfl
  | x :: l, h => by
    have hx := List.pairwise_cons.1 h
    show insertKey x (sortKey l) = x :: l
    rw [sortKey_of_sorted l hx.2]
    exact insertKey_of_le (fun y hy => hx.1 y (List.mem_of_mem_head? hy))

theorem pidOf_getElem {g : Graph} (c : Clauses g) {k : Nat} {d : Deme} (hd : g.demes[k]? = some d) :
    pidOf g d.name = k + 1 := by
  simp [pidOf, demeId_of_getElem (nodup_names c) hd]

theorem gSem_pops {g : Graph} (c : Clauses g) : (gSem g).pops = g.demes.map (gPopOf g) := by
  unfold gSem
  simp only []
  rw [sortKey_of_sorted]
  · simp [List.map_map, Function.comp_def]
  · rw [List.pairwise_iff_getElem]
    intro i j hi hj hij
    simp only [List.length_map] at hi hj
    simp only [List.getElem_map, gPopOf]
    rw [pidOf_getElem c (List.getElem?_eq_getElem hi), pidOf_getElem c (List.getElem?_eq_getElem hj)]
    omega

section
variable {g : Graph} (c : Clauses g) (hx : MsExpressible g = true) {N0 : Q} (hN : 0 < N0)
include c hx hN

/-- the updates of population `k+1` realise the segments of deme `k` -/
theorem popMatch_deme {k : Nat} {d : Deme} (hd : g.demes[k]? = some d) :
    popMatch N0 (updsOfDeme N0 k d) (gPopOf g d) = true := by
  have hdm : d ∈ g.demes := List.mem_of_getElem? hd
  have h5 := c.h5
  simp only [v5, List.all_eq_true, Bool.and_eq_true] at h5
  obtain ⟨hlt, hpw⟩ := reverse_epochs_facts (h5 d hdm).2
  have hok : ∀ e ∈ d.epochs.reverse, EpochOk e ∧ ETime.fin e.endTime < e.startTime := fun e he =>
    ⟨epochOk_of_valid c hx hdm (List.mem_reverse.1 he), hlt e he⟩
  -- every update other than the initial one is scheduled at or after the deme's end time
  have hU : ∀ u ∈ (sizeEvs N0 ((k + 1 : Nat) : Int) N0 .zero d.epochs.reverse).map (updClean N0), d.endTime ≤ u.t := by
    intro u hu
    obtain ⟨e, he, ht⟩ := mem_sizeEvs_upd hu
    rw [ht]
    cases hes : d.epochs.reverse with
    | nil => rw [hes] at he; cases he
    | cons e1 rest =>
      rw [deme_endTime_eq hes]
      rw [hes] at he hpw hlt
      rcases List.mem_cons.1 he with rfl | he
      · exact Rat.le_refl
      · exact Rat.le_of_lt (et_lt_of_lt_of_le (hlt e1 List.mem_cons_self) ((List.pairwise_cons.1 hpw).1 e he))
  have hend0 : 0 ≤ d.endTime := deme_end_nonneg (migFacts_of c.h1 c.h6 c.h8 c.h9) hdm
  have hUfilter : ((sizeEvs N0 ((k + 1 : Nat) : Int) N0 .zero d.epochs.reverse).map (updClean N0)).filter
      (fun u => decide (u.t < d.endTime)) = [] := by
    rw [List.filter_eq_nil_iff]
    intro u hu
    have := hU u hu
    simp only [decide_eq_true_eq]
    grind
  have hseg := fun (st : Q × Growth) (hst : ∀ e ∈ d.epochs.reverse.head?,
      ([initUpd N0].filter (fun u => u.t = e.endTime)).foldl applyUpd st = (N0, Growth.zero)) =>
    segsMatch_sizeEvs hN ((k + 1 : Nat) : Int) d.epochs.reverse N0 .zero [initUpd N0] st hok hpw (Or.inl rfl)
      (fun u hu e he => by
        simp only [List.mem_singleton] at hu
        subst hu
        exact (hok e he).1.endTime) hst
  unfold popMatch updsOfDeme gPopOf
  dsimp only
  simp only [List.filter_cons, hUfilter]
  by_cases hlo : 0 < d.endTime
  · have h1 : decide ((initUpd N0).t < d.endTime) = true := by simp [initUpd, hlo]
    simp only [h1, if_true, List.all_cons, List.all_nil, List.foldl_cons, List.foldl_nil, Bool.and_true]
    refine Bool.and_eq_true_iff.2 ⟨by simp [initUpd], ?_⟩
    apply hseg
    intro e he
    have : e.endTime = d.endTime := by
      cases hes : d.epochs.reverse with
      | nil => rw [hes] at he; cases he
      | cons e1 rest => rw [hes] at he; simp at he; subst he; exact (deme_endTime_eq hes).symm
    have hne : ¬ ((0 : Q) = e.endTime) := by rw [this]; grind
    simp [List.filter_cons, applyUpd, initUpd]
    rw [if_neg hne]; rfl
  · have h1 : decide ((initUpd N0).t < d.endTime) = false := by simp [initUpd, hlo]
    simp only [h1, Bool.false_eq_true, if_false, List.all_nil, List.foldl_nil, Bool.true_and]
    apply hseg
    intro e he
    have : e.endTime = d.endTime := by
      cases hes : d.epochs.reverse with
      | nil => rw [hes] at he; cases he
      | cons e1 rest => rw [hes] at he; simp at he; subst he; exact (deme_endTime_eq hes).symm
    have h0 : d.endTime = 0 := by grind
    have heq : (0 : Q) = e.endTime := by rw [this, h0]
    simp [List.filter_cons, applyUpd, initUpd]
    rw [if_pos heq]; rfl

omit hx hN in
theorem start_pos {d : Deme} (hd : d ∈ g.demes) : ETime.fin 0 < d.startTime := by
  have h3 := c.h3
  simp only [v3, List.all_eq_true, Bool.and_eq_true, decide_eq_true_eq, beq_iff_eq] at h3
  exact (h3 d hd).2

/-- the `k`-th reported population of the emitted command -/
theorem semPops_get (k : Nat) :
    (popsObs (runP N0 (s0Of N0 g.demes.length) (finalEvs g N0)).pops)[k]?
      = (g.demes[k]?).map (fun d => ({ id := k + 1, lo := 0, hi := d.startTime, upd := updsOfDeme N0 k d } : PopSemG)) := by
  have hlen : g.demes.length ≤ (runP N0 (s0Of N0 g.demes.length) (finalEvs g N0)).pops.length := by
    have := runP_pops_length N0 (finalEvs g N0) (s0Of N0 g.demes.length)
    simpa [s0Of] using this
  rw [popsObs_get _ g.demes.length ?_ ?_ hlen]
  · rw [List.getElem?_map, List.getElem?_zipIdx, List.getElem?_take]
    by_cases hk : k < g.demes.length
    · have hd : g.demes[k]? = some g.demes[k] := List.getElem?_eq_getElem hk
      rw [if_pos hk, run_pops_orig c hx hN hd, hd]
      simp
    · rw [if_neg hk, List.getElem?_eq_none (by omega)]
      rfl
  · intro k p hk hp
    have hd : g.demes[k]? = some g.demes[k] := List.getElem?_eq_getElem hk
    rw [run_pops_orig c hx hN hd] at hp
    cases hp
    exact start_pos c (List.getElem_mem hk)
  · intro k p hk hp
    rw [run_newDead c hx hN k p hk hp]
    exact Rat.lt_irrefl

/-- the population part of `≈` -/
theorem popsMatch_run (sem : DemogSemG)
    (hs : sem.pops = popsObs (runP N0 (s0Of N0 g.demes.length) (finalEvs g N0)).pops) :
    popsMatch N0 sem (gSem g) = true := by
  have hget : ∀ k : Nat, sem.pops[k]? = (g.demes[k]?).map (fun d =>
      ({ id := k + 1, lo := 0, hi := d.startTime, upd := updsOfDeme N0 k d } : PopSemG)) := by
    intro k; rw [hs]; exact semPops_get c hx hN k
  have hgs : ∀ k : Nat, (gSem g).pops[k]? = (g.demes[k]?).map (gPopOf g) := by
    intro k; rw [gSem_pops c, List.getElem?_map]
  unfold popsMatch
  rw [Bool.and_eq_true]
  constructor
  · rw [beq_iff_eq]
    apply List.ext_getElem?
    intro k
    rw [List.getElem?_map, List.getElem?_map, hget, hgs]
    cases hd : g.demes[k]? with
    | none => rfl
    | some d => simp [gPopOf, pidOf_getElem c hd]
  · rw [List.all_eq_true]
    intro ab hab
    obtain ⟨k, hk⟩ := List.mem_iff_getElem?.mp hab
    rw [List.getElem?_zip_eq_some, hget, hgs] at hk
    cases hd : g.demes[k]? with
    | none => rw [hd] at hk; simp at hk
    | some d =>
      rw [hd] at hk
      simp only [Option.map_some, Option.some.injEq] at hk
      rw [← hk.1, ← hk.2]
      have hdm : d ∈ g.demes := List.mem_of_getElem? hd
      have hend0 : 0 ≤ d.endTime := deme_end_nonneg (migFacts_of c.h1 c.h6 c.h8 c.h9) hdm
      simp only [Bool.and_eq_true, beq_iff_eq, decide_eq_true_eq]
      exact ⟨⟨rfl, hend0⟩, popMatch_deme c hx hN hd⟩

end

end Demes.Proofs.ToMs
