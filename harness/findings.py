"""Matchers for /verif/known_findings.json: a known finding suppresses only violations whose
minimised input matches its matcher, so a different failure of the same property is still
reported."""
from __future__ import annotations


def m_always(v, k):
    return True


def m_what_contains(v, k):
    return all(s in v.get("what", "") for s in k.get("needles", []))


MATCHERS = {"what_contains": m_what_contains}


def match(pid, violation, known):
    for k in known:
        if k.get("property") != pid:
            continue
        fn = MATCHERS.get(k.get("matcher"))
        if fn is not None and fn(violation, k):
            return k
    return None
