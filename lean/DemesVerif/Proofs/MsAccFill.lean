/-
  C09 (acceptance), forward direction, part 2 — the document of `build_graph` is well-formed and of
  acceptable shape; with `doc_fill` (part 1) and C03's `resolve_of_fill`, `Demes.resolve` accepts the
  document as soon as the explicit graph `docGraph tab doc` is valid, and returns that graph.
-/
import DemesVerif.Proofs.MsAccFill1
namespace Demes.Proofs.MsAcc
open Demes Demes.Ms Demes.Spec Demes.Spec.C08 Demes.Obj Demes.Proofs.FromMs
open Demes.Proofs.Accepts (schemaOK_iff demeSchemaOK_iff wf_obj wf_list)

/-! ## the document is well-formed -/

/-- distinct literal keys -/
local macro "keys_nd" : tactic => `(tactic| simp [keys, migObj, pulseObj])

theorem wfL_map {α} (f : α → Value) : ∀ (l : List α), (∀ x ∈ l, (f x).wf = true) → Value.wfL (l.map f) = true := by
  intro l
  induction l with
  | nil => intro _; rfl
  | cons x xs ih =>
    intro h
    simp only [List.map_cons, Value.wfL, Bool.and_eq_true]
    exact ⟨h x List.mem_cons_self, ih (fun y hy => h y (List.mem_cons_of_mem _ hy))⟩

theorem wf_listMap {α} (f : α → Value) (l : List α) (h : ∀ x ∈ l, (f x).wf = true) :
    (Value.list (l.map f)).wf = true := wf_list.2 (wfL_map f l h)

theorem epoch_wf (tab : List (Sz × Q)) (e : BEpoch) : (BEpoch.toValue tab e).wf = true := by
  rw [epochToValue_eq, wf_obj]
  unfold epochObj
  cases e.startSize <;> cases e.growthRate <;> exact ⟨by keys_nd, rfl⟩

theorem deme_wf (tab : List (Sz × Q)) (d : BDeme) : (BDeme.toValue tab d).wf = true := by
  rw [toValue_eq, wf_obj]
  have he : (Value.list (d.epochs.map (BEpoch.toValue tab))).wf = true :=
    wf_listMap _ _ (fun e _ => epoch_wf tab e)
  have ht : (tV d.startTime).wf = true := rfl
  unfold demeObj
  cases d.ancestors with
  | none =>
    cases d.proportions with
    | none => exact ⟨by keys_nd, by simp only [List.append_nil, Value.wfO, he, ht]; rfl⟩
    | some p =>
      have hp : (Value.list (p.map nV)).wf = true := wf_listMap _ _ (fun _ _ => rfl)
      exact ⟨by keys_nd, by simp only [List.append_nil, List.cons_append, List.nil_append, Value.wfO, he, ht, hp]; rfl⟩
  | some a =>
    have ha : (Value.list (a.map Value.str)).wf = true := wf_listMap _ _ (fun _ _ => rfl)
    cases d.proportions with
    | none => exact ⟨by keys_nd, by simp only [List.append_nil, List.cons_append, List.nil_append, Value.wfO, he, ht, ha]; rfl⟩
    | some p =>
      have hp : (Value.list (p.map nV)).wf = true := wf_listMap _ _ (fun _ _ => rfl)
      exact ⟨by keys_nd, by simp only [List.cons_append, List.nil_append, Value.wfO, he, ht, ha, hp]; rfl⟩

theorem mig_wf (m : BMigration) : (BMigration.toValue m).wf = true := by
  rw [migToValue_eq, wf_obj]
  exact ⟨by keys_nd, rfl⟩

theorem pulse_wf (p : BPulse) : (BPulse.toValue p).wf = true := by
  rw [pulseToValue_eq, wf_obj]
  have hs : (Value.list (p.sources.map Value.str)).wf = true := wf_listMap _ _ (fun _ _ => rfl)
  have hp : (Value.list (p.proportions.map nV)).wf = true := wf_listMap _ _ (fun _ _ => rfl)
  exact ⟨by keys_nd, by simp only [pulseObj, Value.wfO, hs, hp]; rfl⟩

/-- **the document of `build_graph` has distinct keys in every mapping** -/
theorem doc_wf (tab : List (Sz × Q)) (doc : MsDoc) : (doc.toValue tab).wf = true := by
  rw [docToValue_eq, wf_obj]
  have hd : (Value.list (doc.demes.map (BDeme.toValue tab))).wf = true := wf_listMap _ _ (fun d _ => deme_wf tab d)
  have hm : (Value.list (doc.migrations.map BMigration.toValue)).wf = true := wf_listMap _ _ (fun m _ => mig_wf m)
  unfold docObj
  cases doc.pulses with
  | none => exact ⟨by keys_nd, by simp only [List.append_nil, Value.wfO, hd, hm]; rfl⟩
  | some ps =>
    have hp : (Value.list (ps.map BPulse.toValue)).wf = true := wf_listMap _ _ (fun p _ => pulse_wf p)
    exact ⟨by keys_nd, by simp only [List.cons_append, List.nil_append, Value.wfO, hd, hm, hp]; rfl⟩

/-! ## the document has an acceptable shape -/

theorem demeSchemaOK_demeObj (tab : List (Sz × Q)) (d : BDeme) (hne : d.epochs ≠ [])
    (hc : ∀ e ∈ d.epochs, e.startSize.isSome = true) (hg : ∀ e ∈ d.epochs, e.growthRate = none) :
    demeSchemaOK (demeObj tab d) = true := by
  obtain ⟨l1, _, _, _, l5, l6⟩ := demeObj_lookups tab d
  refine demeSchemaOK_iff.2 ⟨by rw [l1]; rfl, ?_, [], [], d.epochs.map (epObj tab), ?_, rfl, rfl, rfl, ?_, ?_, ?_⟩
  · unfold demeObj
    cases d.ancestors <;> cases d.proportions <;> rfl
  · unfold sectionOf; rw [l5]; rfl
  · unfold Demes.Proofs.Accepts.epochsOf
    rw [l6, epochs_objs tab d hc hg]
    exact Demes.Proofs.Accepts.mapOpt_objOf.2 rfl
  · intro h; exact hne (List.map_eq_nil_iff.1 h)
  · intro e he
    obtain ⟨b, _, rfl⟩ := List.mem_map.1 he
    rfl

/-- **the document of `build_graph` has the shape the specification wants** -/
theorem doc_schemaOK (tab : List (Sz × Q)) (doc : MsDoc) (h : DocShape doc) :
    schemaOK (doc.toValue tab) = true := by
  rw [docToValue_eq]
  refine schemaOK_iff.2 ⟨docObj tab doc, [], [], [], [], [], doc.demes.map (demeObj tab),
    doc.migrations.map migObj, (doc.pulses.getD []).map pulseObj, rfl, ?_, ?_, rfl, rfl, rfl, rfl, rfl, rfl, rfl,
    rfl, rfl, ?_, demes_objs tab doc, ?_, ?_, objListOf_migrations tab doc, ?_, objListOf_pulses tab doc, ?_⟩
  · unfold docObj
    cases doc.pulses <;> rfl
  · unfold sectionOf; rw [(docObj_lookups tab doc).1]; rfl
  · rw [(docObj_lookups' tab doc).2.1]; rfl
  · intro h'; exact h.demes_ne (List.map_eq_nil_iff.1 h')
  · intro dd hdd
    obtain ⟨d, hd, rfl⟩ := List.mem_map.1 hdd
    exact demeSchemaOK_demeObj tab d (h.epochs_ne d hd) (h.closed d hd) (h.nogrowth d hd)
  · intro m hm
    obtain ⟨b, _, rfl⟩ := List.mem_map.1 hm
    rfl
  · intro p hp
    obtain ⟨b, _, rfl⟩ := List.mem_map.1 hp
    rfl

/-! ## acceptance reduces to validity of the explicit graph -/

/-- **`resolve` accepts the document of `build_graph` as soon as the explicit graph `docGraph` is
valid, and returns that graph** -/
theorem resolve_doc_of_valid (tab : List (Sz × Q)) (doc : MsDoc) (h : DocShape doc)
    (hv : validGraph (docGraph tab doc) = true) : Demes.resolve (doc.toValue tab) = .ok (docGraph tab doc) :=
  Demes.Proofs.Accepts.resolve_of_fill (doc_wf tab doc) (doc_schemaOK tab doc h) (doc_fill tab doc h) hv

/-! ## non-vacuity -/

/-- decidable equality of graphs, for the closed examples below only -/
@[instance_reducible] def graphDecEq : DecidableEq Graph := fun a b =>
  open Demes.Proofs.Asdict in
  match a, b with
  | ⟨a1, a2, a3, a4, a5, a6, a7, a8, a9⟩, ⟨b1, b2, b3, b4, b5, b6, b7, b8, b9⟩ =>
    decidable_of_iff (a1 = b1 ∧ a2 = b2 ∧ a3 = b3 ∧ a4 = b4 ∧ a5 = b5 ∧ a6 = b6 ∧ a7 = b7 ∧ a8 = b8 ∧ a9 = b9)
      (by rw [Graph.mk.injEq])
attribute [local instance] graphDecEq

example : DocShape FromMs.readbackDoc := docShape_of_B (by decide +kernel)

/-- `doc_fill`, checked by evaluation on a concrete document -/
example : fill (FromMs.readbackDoc.toValue []) = some (docGraph [] FromMs.readbackDoc) := by decide +kernel

/-- five demes (one with two ancestors and explicit proportions, one with one ancestor and the
proportions left out), one migration, two pulses written in ascending time order -/
def accDoc : MsDoc :=
  { demes := [
      { name := "deme1", startTime := .inf,
        epochs := [{ endSize := Sz.ofQ 100, endTime := 50, startSize := some (Sz.ofQ 100) }] },
      { name := "deme2", startTime := .inf,
        epochs := [{ endSize := Sz.ofQ 200, endTime := 50, startSize := some (Sz.ofQ 200) }] },
      { name := "deme3", startTime := .fin 50,
        epochs := [{ endSize := Sz.ofQ 30, endTime := 20, startSize := some (Sz.ofQ 10) },
                   { endSize := Sz.ofQ 30, endTime := 0, startSize := some (Sz.ofQ 30) }],
        ancestors := some ["deme1", "deme2"], proportions := some [1/4, 3/4] },
      { name := "deme4", startTime := .inf,
        epochs := [{ endSize := Sz.ofQ 40, endTime := 0, startSize := some (Sz.ofQ 40) }] },
      { name := "deme5", startTime := .fin 10,
        epochs := [{ endSize := Sz.ofQ 5, endTime := 0, startSize := some (Sz.ofQ 5) }],
        ancestors := some ["deme4"] }],
    migrations := [{ source := "deme3", dest := "deme4", startTime := .fin 40, endTime := 5,
                     rate := .fin (1/100) }],
    pulses := some [{ sources := ["deme4"], dest := "deme3", time := 15, proportions := [1/10] },
                    { sources := ["deme3"], dest := "deme4", time := 30, proportions := [1/5] }] }

example : DocShape accDoc := docShape_of_B (by decide +kernel)

example : fill (accDoc.toValue []) = some (docGraph [] accDoc) := by decide +kernel

/-- the pulses of `docGraph` are sorted, the defaulted proportions are `[1]` -/
example : (docGraph [] accDoc).pulses.map (·.time) = [30, 15]
    ∧ ((docGraph [] accDoc).demes.map (·.proportions)) = [[], [], [1/4, 3/4], [], [1]] := by decide +kernel

/-- the hypotheses of `resolve_doc_of_valid` are satisfiable: the document resolves to `docGraph` -/
example : Demes.resolve (accDoc.toValue []) = .ok (docGraph [] accDoc) :=
  resolve_doc_of_valid [] accDoc (docShape_of_B (by decide +kernel)) (by decide +kernel)

example : Demes.resolve (FromMs.readbackDoc.toValue []) = .ok (docGraph [] FromMs.readbackDoc) :=
  resolve_doc_of_valid [] _ (docShape_of_B (by decide +kernel)) (by decide +kernel)

/-- `mig_names` is needed: a migration naming a deme that is not in the document is not filled in -/
example : fill (({ FromMs.readbackDoc with
    migrations := [{ source := "deme1", dest := "nobody", startTime := .fin 40, endTime := 5,
                     rate := .fin (1/100) }] } : MsDoc).toValue []) = none := by decide +kernel

/-- `rates` is needed: an infinite rate is not filled in -/
example : fill (({ FromMs.readbackDoc with
    migrations := [{ source := "deme1", dest := "deme2", startTime := .fin 40, endTime := 5,
                     rate := .pinf }] } : MsDoc).toValue []) = none := by decide +kernel

#print axioms doc_wf
#print axioms doc_schemaOK
#print axioms doc_fill
#print axioms resolve_doc_of_valid

end Demes.Proofs.MsAcc
