/-
  C08, link C (movements) — assembly: the lineage movements of the graph `from_ms` returns are
  those of the ms interpreter, on the fragment `Tame'`.
-/
import DemesVerif.Proofs.FromMsApplyRun
import DemesVerif.Proofs.FromMsSem
namespace Demes.Proofs.FromMs
open Demes Demes.Ms Demes.Spec Demes.Spec.MsSem Demes.Spec.C08

/-! ## the pulses of one time keep their order under the sort -/

theorem insertPulse_filter (T : Q) (p : Pulse) : ∀ (qs : List Pulse),
    (insertPulse p qs).filter (fun x => decide (x.time = T)) = (p :: qs).filter (fun x => decide (x.time = T)) := by
  intro qs
  induction qs with
  | nil => rfl
  | cons q qs ih =>
    unfold insertPulse
    split
    · rfl
    · rename_i hle
      have hlt : p.time < q.time := Rat.not_le.mp hle
      have ih' := ih
      simp only [List.filter_cons] at ih' ⊢
      rw [ih']
      by_cases hp : p.time = T
      · have hq : ¬ q.time = T := fun e => by rw [hp, e] at hlt; exact Rat.lt_irrefl hlt
        simp [hp, hq]
      · simp [hp]

theorem sortPulses_filter (T : Q) : ∀ (l : List Pulse),
    (sortPulses l).filter (fun x => decide (x.time = T)) = l.filter (fun x => decide (x.time = T)) := by
  intro l
  induction l with
  | nil => rfl
  | cons p l ih =>
    show (insertPulse p (sortPulses l)).filter _ = _
    rw [insertPulse_filter, List.filter_cons, List.filter_cons, ih]

/-! ## the graph and the final Builder state -/

section
variable {N0 : Q} {s : BState} {doc : MsDoc} {tab : List (Sz × Q)} {g : Graph}

/-- the graph and the final Builder state, as `graphSem` sees them -/
theorem graph_state_views (hfin : finishDoc N0 s = .ok doc) (hres : resolve (doc.toValue tab) = .ok g)
    (hn : NameInv s) :
    (g.demes.map viewG).Perm ((s.demes.filter nonTransient).map viewB)
    ∧ (∀ T, (g.demes.map viewG).filter (bornC T) = ((s.demes.filter nonTransient).map viewB).filter (bornC T))
    ∧ (∀ T, (g.pulses.filter (fun p => decide (p.time = T))).reverse
        = ((s.pulses.getD []).filter (fun p => decide (p.time = T))).map bp2p)
    ∧ doc.numPops = s.numDemes := by
  obtain ⟨ds, hv, hdemes, hpul, hnum⟩ := finishDoc_views hfin hn
  obtain ⟨hg1, hg2⟩ := resolve_doc_views hres
  have hC : (ds.filter nonTransient).map viewB = (s.demes.filter nonTransient).map viewB := filter_views hv
  have hB : g.demes.map viewG = (sortDemesByAncestry (ds.filter nonTransient)).map viewB := by rw [hg1, hdemes]
  refine ⟨?_, ?_, ?_, hnum⟩
  · rw [hB, ← hC]
    exact (sortBy_perm _ _).map viewB
  · intro T
    rw [hB, ← hC, List.filter_map, List.filter_map]
    have e : (bornC T ∘ viewB) = fun (d : BDeme) => decide ((fun d : BDeme => d.startTime) d = ETime.fin T) := rfl
    rw [e, (sortDemesByAncestry_stable (ds.filter nonTransient)).stable (ETime.fin T)]
  · intro T
    rw [hg2, sortPulses_filter, hpul]
    have e : (s.pulses.map List.reverse).getD [] = (s.pulses.getD []).reverse := by cases s.pulses <;> rfl
    rw [e, List.filter_map, List.filter_reverse, List.map_reverse, List.reverse_reverse]
    rfl

theorem views_names_nodup (hn : NameInv s) : (((s.demes.filter nonTransient).map viewB).map (·.name)).Nodup := by
  rw [List.map_map]
  have : ((s.demes.filter nonTransient).map ((·.name) ∘ viewB)).Sublist (s.demes.map (·.name)) :=
    List.Sublist.map _ List.filter_sublist
  apply List.Nodup.sublist this
  rw [hn]
  unfold List.Nodup
  rw [List.pairwise_map]
  exact (List.nodup_range).imp (fun hab e => hab (demeName_inj e))

/-- the movement of time `T` that `graphSem` reads off the graph is the one `groupMoves` reads off the
final Builder state -/
theorem graph_vs_state (hfin : finishDoc N0 s = .ok doc) (hres : resolve (doc.toValue tab) = .ok g)
    (hn : NameInv s) {names : List String} {T : Q} {L : List (Nat × Row)}
    (hL : groupMoves names T s.demes (s.pulses.getD []) = .ok L) :
    graphMoveAt names g T = .ok { time := T, rows := canonRows L } := by
  obtain ⟨hperm, hstab, hP, _⟩ := graph_state_views hfin hres hn
  rw [groupMoves_view] at hL
  obtain ⟨L', hL', hc⟩ := viewMoves_perm hperm (hstab T) (views_names_nodup hn) hL
  rw [graphMoveAt_eq, hP, hL', ok_bind, hc]
  rfl

end

/-! ## the event times -/

theorem insertBy_le_sorted (t : Q) : ∀ (acc : List Q), acc.Pairwise (· < ·) → t ∉ acc →
    (insertBy (fun a b => decide (a ≤ b)) t acc).Pairwise (· < ·) := by
  intro acc
  induction acc with
  | nil => intro _ _; simp [insertBy]
  | cons y ys ih =>
    intro hp hn
    unfold insertBy
    have hne : t ≠ y := fun e => hn (by rw [e]; exact List.mem_cons_self ..)
    split
    · rename_i hle
      have hle' : t ≤ y := by simpa using hle
      have hlt : t < y := lt_of_le_of_ne hle' hne
      refine List.Pairwise.cons ?_ hp
      intro b hb
      rcases List.mem_cons.mp hb with rfl | hb
      · exact hlt
      · exact lt_trans hlt (List.rel_of_pairwise_cons hp hb)
    · rename_i hle
      have hlt : y < t := by
        have : ¬ t ≤ y := by simpa using hle
        exact Rat.not_le.mp this
      refine List.Pairwise.cons ?_ (ih hp.tail (fun h => hn (List.mem_cons_of_mem _ h)))
      intro b hb
      rcases (insertBy_mem _ t ys b).mp hb with rfl | hb
      · exact hlt
      · exact List.rel_of_pairwise_cons hp hb

/-- the sorted duplicate-free list of event times that `graphSem` builds -/
theorem dedup_times (l : List Q) :
    let r := l.foldr (fun t acc => if acc.contains t then acc else insertBy (fun a b => decide (a ≤ b)) t acc) []
    r.Pairwise (· < ·) ∧ ∀ t, t ∈ r ↔ t ∈ l := by
  induction l with
  | nil => exact ⟨List.Pairwise.nil, fun t => Iff.rfl⟩
  | cons x xs ih =>
    obtain ⟨i1, i2⟩ := ih
    dsimp only at i1 i2 ⊢
    rw [List.foldr_cons]
    by_cases hc : (xs.foldr (fun t acc => if acc.contains t then acc else insertBy (fun a b => decide (a ≤ b)) t acc) []).contains x = true
    · rw [if_pos hc]
      refine ⟨i1, fun t => ?_⟩
      rw [i2 t, List.mem_cons]
      constructor
      · exact Or.inr
      · rintro (rfl | h)
        · exact (i2 t).mp (by simpa using hc)
        · exact h
    · rw [if_neg hc]
      refine ⟨insertBy_le_sorted x _ i1 (by simpa using hc), fun t => ?_⟩
      rw [insertBy_mem, i2 t, List.mem_cons]

theorem graphTimes_spec (g : Graph) :
    (graphTimes g).Pairwise (· < ·) ∧ ∀ t, t ∈ graphTimes g ↔
      (∃ p ∈ g.pulses, p.time = t) ∨ (∃ d ∈ g.demes, d.startTime = ETime.fin t) := by
  obtain ⟨h1, h2⟩ := dedup_times (g.pulses.map (·.time) ++ g.demes.filterMap (fun d =>
    match d.startTime with | .fin t => some t | .inf => none))
  refine ⟨h1, fun t => ?_⟩
  refine Iff.trans (h2 t) ?_
  rw [List.mem_append, List.mem_map, List.mem_filterMap]
  constructor
  · rintro (⟨p, hp, e⟩ | ⟨d, hd, e⟩)
    · exact Or.inl ⟨p, hp, e⟩
    · right
      refine ⟨d, hd, ?_⟩
      cases hs : d.startTime with
      | inf => rw [hs] at e; cases e
      | fin t' => rw [hs] at e; cases e; rfl
  · rintro (⟨p, hp, e⟩ | ⟨d, hd, e⟩)
    · exact Or.inl ⟨p, hp, e⟩
    · exact Or.inr ⟨d, hd, by rw [e]⟩

/-! ## nothing happens at a time without an event -/

theorem canonRows_identity : ∀ (L : List (Nat × Row)), (∀ ir ∈ L, ir.2 = [(ir.1, (1 : Q))]) → canonRows L = [] := by
  intro L h
  unfold canonRows
  have : (L.map (fun (ir : Nat × Row) => (ir.1, sortKey (ir.2.filter (fun e => e.2 ≠ 0))))).filter
      (fun ir => ir.2 ≠ [(ir.1, (1 : Q))]) = [] := by
    rw [List.filter_eq_nil_iff]
    intro x hx
    obtain ⟨ir, hir, rfl⟩ := List.mem_map.mp hx
    rw [h ir hir]
    simp [sortKey, insertKey]
  rw [this]
  rfl

theorem rows_identity {names : List String} : ∀ (ds : List BDeme) (L0 : List (Nat × Row)),
    ds.mapM (fun d => do let id ← popId names d.name; pure (id, ([(id, (1 : Q))] : Row))) = .ok L0 →
    ∀ ir ∈ L0, ir.2 = [(ir.1, (1 : Q))] := by
  intro ds
  induction ds with
  | nil => intro L0 h0 ir hir; cases h0; cases hir
  | cons d ds ih =>
    intro L0 h0 ir hir
    rw [List.mapM_cons] at h0
    obtain ⟨y, hy, h0⟩ := sbind_ok.1 h0
    obtain ⟨ys, hys, h0⟩ := sbind_ok.1 h0
    rw [spure_ok] at h0
    subst h0
    obtain ⟨id, _, hy⟩ := sbind_ok.1 hy
    rw [spure_ok] at hy
    subst hy
    rcases List.mem_cons.mp hir with rfl | hir
    · rfl
    · exact ih ys hys ir hir

theorem groupMoves_noevent {names : List String} {T : Q} {s : BState} {L : List (Nat × Row)}
    (hL : groupMoves names T s.demes (s.pulses.getD []) = .ok L) (hne : ¬ EventAt s T) : canonRows L = [] := by
  rw [groupMoves_eq] at hL
  have hp : (s.pulses.getD []).filter (fun p => decide (p.time = T)) = [] := by
    rw [List.filter_eq_nil_iff]
    intro p hp
    simp only [decide_eq_true_eq]
    intro e
    exact hne (Or.inl ⟨p, hp, e⟩)
  have hb : s.demes.filter (bornP T) = [] := by
    rw [List.filter_eq_nil_iff]
    intro d hd
    unfold bornP
    simp only [Bool.and_eq_true, decide_eq_true_eq, not_and]
    intro e hn
    exact hne (Or.inr ⟨d, hd, hn, e⟩)
  rw [hp, hb] at hL
  obtain ⟨L0, h0, hL⟩ := sbind_ok.1 hL
  simp only [List.foldlM_nil] at hL
  have e1 : L = L0 := by
    obtain ⟨L1, h1, hL⟩ := sbind_ok.1 hL
    rw [spure_ok] at h1 hL
    rw [← hL, ← h1]
  subst e1
  exact canonRows_identity _ (rows_identity _ _ h0)

/-! ## the event times of the graph are those of the final Builder state -/

theorem exists_iff_filter {α} (P : α → Bool) (l : List α) : (∃ x ∈ l, P x = true) ↔ l.filter P ≠ [] := by
  rw [Ne, List.filter_eq_nil_iff]
  constructor
  · rintro ⟨x, hx, hp⟩ h; exact h x hx hp
  · intro h
    by_contra hne
    apply h
    intro x hx hp
    exact hne ⟨x, hx, hp⟩

section
variable {N0 : Q} {s : BState} {doc : MsDoc} {tab : List (Sz × Q)} {g : Graph}

theorem graph_events (hfin : finishDoc N0 s = .ok doc) (hres : resolve (doc.toValue tab) = .ok g)
    (hn : NameInv s) (t : Q) : t ∈ graphTimes g ↔ EventAt s t := by
  obtain ⟨hperm, _, hP, _⟩ := graph_state_views hfin hres hn
  rw [(graphTimes_spec g).2 t]
  unfold EventAt
  apply or_congr
  · have h1 : (∃ p ∈ g.pulses, p.time = t) ↔ (g.pulses.filter (fun p => decide (p.time = t))).reverse ≠ [] := by
      rw [Ne, List.reverse_eq_nil_iff, ← Ne, ← exists_iff_filter]
      simp
    have h2 : (∃ p ∈ s.pulses.getD [], p.time = t)
        ↔ ((s.pulses.getD []).filter (fun p => decide (p.time = t))).map bp2p ≠ [] := by
      rw [Ne, List.map_eq_nil_iff, ← Ne, ← exists_iff_filter]
      simp
    rw [h1, h2, hP t]
  · constructor
    · rintro ⟨d, hd, hs⟩
      have : viewG d ∈ (s.demes.filter nonTransient).map viewB :=
        hperm.subset (List.mem_map.mpr ⟨d, hd, rfl⟩)
      obtain ⟨b, hb, e⟩ := List.mem_map.mp this
      obtain ⟨hb1, hb2⟩ := List.mem_filter.mp hb
      refine ⟨b, hb1, hb2, ?_⟩
      have : (viewB b).startTime = (viewG d).startTime := by rw [e]
      exact this.trans hs
    · rintro ⟨b, hb, hnt, hs⟩
      have : viewB b ∈ g.demes.map viewG :=
        hperm.symm.subset (List.mem_map.mpr ⟨b, List.mem_filter.mpr ⟨hb, hnt⟩, rfl⟩)
      obtain ⟨d, hd, e⟩ := List.mem_map.mp this
      refine ⟨d, hd, ?_⟩
      have : (viewG d).startTime = (viewB b).startTime := by rw [e]
      exact this.trans hs

theorem mapM_forall2 {α β} {f : α → Except String β} : ∀ (l : List α), (∀ a ∈ l, ∃ b, f a = .ok b) →
    ∃ bs, l.mapM f = .ok bs ∧ List.Forall₂ (fun a b => f a = .ok b) l bs := by
  intro l
  induction l with
  | nil => intro _; exact ⟨[], rfl, List.Forall₂.nil⟩
  | cons a l ih =>
    intro h
    obtain ⟨b, hb⟩ := h a (List.mem_cons_self ..)
    obtain ⟨bs, hbs, hf⟩ := ih (fun a' ha' => h a' (List.mem_cons_of_mem _ ha'))
    exact ⟨b :: bs, by rw [List.mapM_cons, hb, hbs]; rfl, List.Forall₂.cons hb hf⟩

theorem forall2_keys {α β} {f : α → Except String β} {key : β → α} (hk : ∀ a b, f a = .ok b → key b = a) :
    ∀ {l : List α} {bs : List β}, List.Forall₂ (fun a b => f a = .ok b) l bs → bs.map key = l := by
  intro l bs h
  induction h with
  | nil => rfl
  | cons hab _ ih => rw [List.map_cons, ih, hk _ _ hab]

theorem forall2_mem {α β} {f : α → Except String β} :
    ∀ {l : List α} {bs : List β}, List.Forall₂ (fun a b => f a = .ok b) l bs →
    ∀ b, b ∈ bs ↔ ∃ a ∈ l, f a = .ok b := by
  intro l bs h
  induction h with
  | nil => intro b; simp
  | @cons a b0 l1 l2 hab _ ih =>
    intro b
    rw [List.mem_cons, ih]
    constructor
    · rintro (rfl | ⟨t, ht, h⟩)
      · exact ⟨a, List.mem_cons_self .., hab⟩
      · exact ⟨t, List.mem_cons_of_mem _ ht, h⟩
    · rintro ⟨t, ht, h⟩
      rcases List.mem_cons.mp ht with rfl | ht
      · left; rw [hab] at h; exact (Except.ok.inj h).symm
      · right; exact ⟨t, ht, h⟩

theorem graphMoveAt_time {names : List String} {T : Q} {m : Move} (h : graphMoveAt names g T = .ok m) : m.time = T := by
  rw [graphMoveAt_eq] at h
  obtain ⟨L, _, h⟩ := sbind_ok.1 h
  rw [spure_ok] at h
  rw [← h]

/-- the movements `graphSem` computes for the graph are the ones the interpreter has recorded -/
theorem graph_moves_eq {T : Q} {σ : St} (hinv : MovesInv T s σ) (hn : NameInv s)
    (hfin : finishDoc N0 s = .ok doc) (hres : resolve (doc.toValue tab) = .ok g) :
    ∃ ms, (graphTimes g).mapM (graphMoveAt (popNames s.numDemes) g) = .ok ms
      ∧ ms.filter (fun m => !m.rows.isEmpty) = σ.moves := by
  have hat : ∀ t, EventAt s t → ∃ L, groupMoves (popNames s.numDemes) t s.demes (s.pulses.getD []) = .ok L ∧
      graphMoveAt (popNames s.numDemes) g t = .ok { time := t, rows := canonRows L } ∧
      (canonRows L = [] ∨ ({ time := t, rows := canonRows L } : Move) ∈ σ.moves) := by
    intro t he
    obtain ⟨_, L, hL, hc⟩ := hinv.ev t he
    exact ⟨L, hL, graph_vs_state hfin hres hn hL, hc⟩
  obtain ⟨ms, hms, hf2⟩ := mapM_forall2 (f := graphMoveAt (popNames s.numDemes) g) (graphTimes g) (by
    intro t ht
    obtain ⟨L, _, h2, _⟩ := hat t ((graph_events hfin hres hn t).mp ht)
    exact ⟨_, h2⟩)
  refine ⟨ms, hms, ?_⟩
  -- both lists are strictly increasing in time and have the same members
  have htimes : ms.map (·.time) = graphTimes g :=
    forall2_keys (key := fun m : Move => m.time) (fun a b hab => graphMoveAt_time hab) hf2
  have hsorted : ms.Pairwise (fun a b => a.time < b.time) := by
    have := (graphTimes_spec g).1
    rw [← htimes, List.pairwise_map] at this
    exact this
  have hmem : ∀ m, m ∈ ms ↔ ∃ t ∈ graphTimes g, graphMoveAt (popNames s.numDemes) g t = .ok m :=
    forall2_mem hf2
  apply List.Perm.eq_of_pairwise (le := fun a b => a.time < b.time)
  · intro a b _ _ h1 h2
    exact (Rat.lt_irrefl (lt_trans h1 h2)).elim
  · exact hsorted.sublist List.filter_sublist
  · exact hinv.sorted
  · have nd : ∀ (l : List Move), l.Pairwise (fun a b => a.time < b.time) → l.Nodup := by
      intro l hl
      exact hl.imp (fun hab e => by rw [e] at hab; exact Rat.lt_irrefl hab)
    rw [List.perm_ext_iff_of_nodup (nd _ (hsorted.sublist List.filter_sublist)) (nd _ hinv.sorted)]
    intro m
    rw [List.mem_filter, hmem]
    constructor
    · rintro ⟨⟨t, ht, hm⟩, hne⟩
      obtain ⟨L, _, h2, hc⟩ := hat t ((graph_events hfin hres hn t).mp ht)
      rw [hm] at h2
      have e := Except.ok.inj h2
      subst e
      rcases hc with hc | hc
      · simp [hc] at hne
      · exact hc
    · intro hm
      obtain ⟨_, hne, L, hL, hc⟩ := hinv.recd m hm
      have hev : EventAt s m.time := by
        by_contra hno
        exact hne (hc ▸ groupMoves_noevent hL hno)
      have hg := graph_vs_state hfin hres hn hL
      rw [hc] at hg
      refine ⟨⟨m.time, (graph_events hfin hres hn m.time).mpr hev, hg⟩, ?_⟩
      cases hr : m.rows with
      | nil => exact (hne hr).elim
      | cons _ _ => rfl

end

/-! ## `from_ms` and `msSem` -/

theorem find_name {g : Graph} {nm : String} {d : Deme} (h : findDeme g nm = some d) : d ∈ g.demes ∧ d.name = nm := by
  unfold findDeme at h
  exact ⟨List.mem_of_find?_eq_some h, by simpa using List.find?_some h⟩

/-- **the lineage movements of `from_ms`, on the fragment `Tame'`.**  If `from_ms` returns a graph, the
command has a meaning, the two parsers agree on what it says, and every time group of the command
is a `GoodGroup`, then the demography of the graph exists and its lineage movements are those of
the ms interpreter. -/
theorem fromMs_moves_partial {c : List String} {N0 : Q} {mg : MsGraph} {sem : DemogSem} {pr : Parsed}
    (h : fromMs c N0 none = .ok mg) (hsem : msSem c N0 = .ok sem) (hp : parsersAgree c = true)
    (hpr : parse c = .ok pr) (ht : Tame' pr = true) :
    ∃ gsem, resultSem mg = .ok gsem ∧ gsem.moves = sem.moves := by
  obtain ⟨args, s, hargs, hs, hf⟩ := fromMs_buildState h
  obtain ⟨pr', σ, hpr', hσ, he⟩ := msSem_runState hsem
  rw [hpr] at hpr'
  cases hpr'
  have ha : ArgsAgree args pr := by
    unfold parsersAgree at hp
    rw [hargs, hpr] at hp
    exact argsAgree_of_B hp
  obtain ⟨T, hinv, hn⟩ := buildState_movesInv ha ht hs hσ
  obtain ⟨args', _, hb⟩ := fromMs_none_ok h
  have hres := (buildGraph_ok hb).2.2
  obtain ⟨hperm, _, _, hnum⟩ := graph_state_views hf hres hn
  obtain ⟨ms, hms, hfil⟩ := graph_moves_eq hinv hn hf hres
  have hname : ∀ d ∈ mg.graph.demes, ∃ i, popId (popNames s.numDemes) d.name = .ok i := by
    intro d hd
    have : viewG d ∈ (s.demes.filter nonTransient).map viewB := hperm.subset (List.mem_map.mpr ⟨d, hd, rfl⟩)
    obtain ⟨b, hb', e⟩ := List.mem_map.mp this
    obtain ⟨j, hj⟩ := List.mem_iff_getElem?.mp (List.mem_filter.mp hb').1
    obtain ⟨hnm, hlt⟩ := name_at hn hj
    have e' : d.name = b.name := by
      have : (viewG d).name = (viewB b).name := by rw [e]
      exact this
    exact ⟨j + 1, by rw [e', hnm]; exact popId_popNamesC _ _ hlt⟩
  have hv := fromMs_valid h
  have hv8 : v8 mg.graph = true := by
    simp only [validGraph, validData, Bool.and_eq_true] at hv
    exact hv.2.1.1.1.1.1.2
  have hmig : ∀ m ∈ mg.graph.migrations, (∃ i, popId (popNames s.numDemes) m.dest = .ok i)
      ∧ ∃ j, popId (popNames s.numDemes) m.source = .ok j := by
    intro m hm
    unfold v8 at hv8
    rw [List.all_eq_true] at hv8
    have := hv8 m hm
    simp only [Bool.and_eq_true] at this
    obtain ⟨_, hmatch⟩ := this
    cases hs' : findDeme mg.graph m.source with
    | none => rw [hs'] at hmatch; cases hmatch
    | some sd =>
      cases hd' : findDeme mg.graph m.dest with
      | none => rw [hs', hd'] at hmatch; cases hmatch
      | some dd =>
        obtain ⟨a1, a2⟩ := find_name hs'
        obtain ⟨b1, b2⟩ := find_name hd'
        exact ⟨by rw [← b2]; exact hname dd b1, by rw [← a2]; exact hname sd a1⟩
  obtain ⟨gsem, hg, hgm⟩ := graphSemWith_ok (sz := mg.size) hname hmig hms
  refine ⟨gsem, ?_, ?_⟩
  · unfold resultSem msGraphSem
    rw [hnum]
    exact hg
  · rw [hgm, hfil, he]
    rfl

theorem semEquiv_split (A B : DemogSem) : semEquiv A B = (semEquivSizesMigs A B && decide (A.moves = B.moves)) := rfl

/-- **the assembled statement, on the fragment `Tame'`**, with the sizes-and-migrations component
(link B's `fromMs_sizes_migs_sem`, proved for every command) as a hypothesis: both demographies
exist and are equivalent. -/
theorem fromMs_sem_partial {c : List String} {N0 : Q} {mg : MsGraph} {sem : DemogSem} {pr : Parsed}
    (h : fromMs c N0 none = .ok mg) (hsem : msSem c N0 = .ok sem) (hp : parsersAgree c = true)
    (hpr : parse c = .ok pr) (ht : Tame' pr = true)
    (hB : ∃ rs, resultSem mg = .ok rs ∧ semEquivSizesMigs sem rs = true) :
    SemAgree (msSem c N0) (resultSem mg) = true := by
  obtain ⟨gsem, hg, hm⟩ := fromMs_moves_partial h hsem hp hpr ht
  obtain ⟨rs, hrs, hsm⟩ := hB
  rw [hg] at hrs
  cases hrs
  rw [hsem, hg]
  show semEquiv sem gsem = true
  rw [semEquiv_split, hsm, hm]
  simp

/-! ## `GoodGroup` is weaker than `tameGroup` -/

theorem groupOpsAux_filter (n : Nat) (pend : Option (Nat × Q)) : ∀ (cmds : List Cmd),
    groupOpsAux n pend cmds = groupOpsAux n pend (cmds.filter isMove) := by
  intro cmds
  induction cmds generalizing n pend with
  | nil => rfl
  | cons c cmds ih =>
    by_cases hm : isMove c = true
    · rw [List.filter_cons_of_pos hm]
      cases c with
      | split t i p => show _ ++ _ = _ ++ _; rw [ih]
      | join t a k =>
        cases pend with
        | none => show _ :: _ = _ :: _; rw [ih]
        | some iq =>
          obtain ⟨i, q⟩ := iq
          show (if a = n then _ else _) = (if a = n then _ else _)
          rw [ih]
      | _ => cases hm
    · rw [List.filter_cons_of_neg hm, groupOpsAux_nonmove _ _ _ _ (by simpa using hm), ih]

/-- a time group with at most one `-es`, one `-ej`, or one `-es`/`-ej` pair (the previous fragment
`tameGroup`), with split fractions in `(0, 1]` and not at time 0, is a `GoodGroup` -/
theorem goodGroup_of_tame (n : Nat) (cmds : List Cmd) (h1 : tameGroup (cmds.filter isMove) = true)
    (h2 : ∀ c ∈ cmds, FracOK c)
    (h3 : (cmds.filter isMove).all (fun c => decide (0 < c.t)) = true) : GoodGroup n cmds = true := by
  unfold GoodGroup
  rw [h3, Bool.and_true, Bool.and_eq_true]
  refine ⟨?_, by
    rw [List.all_eq_true]
    intro c hc
    have := h2 c hc
    cases c <;> first | rfl | (simpa [FracOK] using this)⟩
  unfold groupOps
  rw [groupOpsAux_filter]
  generalize hl : cmds.filter isMove = l at h1
  have hall : ∀ c ∈ l, isMove c = true := by
    intro c hc
    rw [← hl] at hc
    exact (List.mem_filter.mp hc).2
  match l, h1, hall with
  | [], _, _ => rfl
  | [c], _, hall =>
    have := hall c (List.mem_cons_self ..)
    cases c <;> first | rfl | cases this
  | [a, b], h1, _ =>
    simp only [tameGroup, Bool.and_eq_true] at h1
    cases a with
    | split t i p =>
      cases b with
      | join t' x k =>
        show noSourceAfterTarget (if x = n + 1 then _ else _) = true
        by_cases hx : x = n + 1
        · rw [if_pos hx]; rfl
        · rw [if_neg hx]
          simp [noSourceAfterTarget, groupOpsAux, flushOp]
          exact fun e => hx e.symm
      | _ => cases h1.2
    | _ => cases h1.1
  | _ :: _ :: _ :: _, h1, _ => cases h1

end Demes.Proofs.FromMs
