/-
  C12: intervals versus activity, deme positions, and the loop over the migrations.
-/
import DemesVerif.Proofs.MatBasic
namespace Demes.Proofs
open Demes Demes.Spec

/-! ### intervals versus activity -/

/-- the (finite) times of `m` occur in `ends` -/
def TimesIn (ends : List Q) (m : Migration) : Prop :=
  m.endTime ∈ ends ∧ ∀ q, m.startTime = .fin q → q ∈ ends

theorem desc_lt {ends : List Q} (hp : ends.Pairwise (· > ·)) {p q : Nat} (hq : q < ends.length)
    (hpq : p < q) : ends[q] < ends[p] :=
  (List.pairwise_iff_getElem.mp hp) p q (by omega) hq hpq

theorem desc_le {ends : List Q} (hp : ends.Pairwise (· > ·)) {p q : Nat} (hq : q < ends.length)
    (hpq : p ≤ q) : ends[q] ≤ ends[p] := by
  rcases Nat.lt_or_eq_of_le hpq with h | rfl
  · exact Rat.le_of_lt (desc_lt hp hq h)
  · exact Rat.le_refl

theorem intervalOf_spec {ends : List Q} {t : Q} {k : Nat} (h : intervalOf ends t = some k) :
    ∃ hk : k < ends.length, ends[k] ≤ t ∧ ∀ j (hj : j < k), t < ends[j] := by
  simp only [intervalOf, List.findIdx?_eq_some_iff_getElem, decide_eq_true_eq] at h
  obtain ⟨hk, h1, h2⟩ := h
  exact ⟨hk, h1, fun j hj => Rat.not_le.mp (h2 j hj)⟩

theorem intervalOf_self {ends : List Q} (hp : ends.Pairwise (· > ·)) {k : Nat} (hk : k < ends.length) :
    intervalOf ends ends[k] = some k := by
  simp only [intervalOf, List.findIdx?_eq_some_iff_getElem, decide_eq_true_eq]
  exact ⟨hk, Rat.le_refl, fun j hj => Rat.not_le.mpr (desc_lt hp hk hj)⟩

theorem intervalOf_exists {ends : List Q} (hl : ends.getLast? = some 0) {t : Q} (ht : 0 ≤ t) :
    ∃ k, intervalOf ends t = some k := by
  cases h : intervalOf ends t with
  | some k => exact ⟨k, rfl⟩
  | none =>
    simp only [intervalOf, List.findIdx?_eq_none_iff, decide_eq_false_iff_not] at h
    exact absurd ht (h 0 (List.mem_of_getLast? hl))

theorem startAt_gt {ends : List Q} {t : Q} {k : Nat} (h : intervalOf ends t = some k) :
    ETime.fin t < startAt .inf ends k := by
  obtain ⟨hk, _, h2⟩ := intervalOf_spec h
  cases k with
  | zero => simp [startAt]
  | succ k =>
    have hk' : k < ends.length := by omega
    simp only [startAt, List.getElem?_eq_getElem hk', fin_lt_fin]
    exact h2 k (by omega)

theorem cov_eq_active {ends : List Q} (hp : ends.Pairwise (· > ·)) {t : Q} {k : Nat}
    (h : intervalOf ends t = some k) (m : Migration) (hm : TimesIn ends m) :
    cov m .inf ends k = activeAt m t := by
  have hs := startAt_gt h
  obtain ⟨hk, h1, h2⟩ := intervalOf_spec h
  rw [Bool.eq_iff_iff]
  simp only [cov, activeAt, Bool.and_eq_true, decide_eq_true_eq, List.getElem?_eq_getElem hk]
  constructor
  · rintro ⟨hc1, hc2⟩
    constructor
    · cases hst : m.startTime with
      | inf => simp
      | fin q =>
        rw [hst] at hc2
        simp only [fin_lt_fin] at hc2 ⊢
        obtain ⟨p, hp', rfl⟩ := List.mem_iff_getElem.mp (hm.2 q hst)
        by_cases hpk : p < k
        · exact h2 p hpk
        · have := desc_le hp hp' (Nat.le_of_not_lt hpk)
          grind
    · obtain ⟨p, hp', hpe⟩ := List.mem_iff_getElem.mp hm.1
      by_cases hpk : p < k
      · cases k with
        | zero => omega
        | succ k =>
          have hk' : k < ends.length := by omega
          simp only [startAt, List.getElem?_eq_getElem hk', fin_lt_fin] at hc1
          have := desc_le hp hk' (Nat.le_of_lt_succ hpk)
          grind
      · have := desc_le hp hp' (Nat.le_of_not_lt hpk)
        grind
  · rintro ⟨ha1, ha2⟩
    constructor
    · cases hst : startAt .inf ends k with
      | inf => simp
      | fin s => rw [hst] at hs; simp only [fin_lt_fin] at hs ⊢; grind
    · cases hst : m.startTime with
      | inf => simp
      | fin q => rw [hst] at ha1; simp only [fin_lt_fin] at ha1 ⊢; grind

/-- two migrations written into the same matrix are active at a common time -/
theorem not_disjoint_of_cov {ends : List Q} (hp : ends.Pairwise (· > ·)) {k : Nat}
    (a b : Migration) (ha : TimesIn ends a) (hb : TimesIn ends b)
    (hca : cov a .inf ends k = true) (hcb : cov b .inf ends k = true) : disjoint a b = false := by
  have hk : k < ends.length := by
    by_cases hk : k < ends.length
    · exact hk
    · simp [cov, List.getElem?_eq_none (Nat.le_of_not_lt hk)] at hca
  have hi := intervalOf_self hp hk
  rw [cov_eq_active hp hi a ha] at hca
  rw [cov_eq_active hp hi b hb] at hcb
  simp only [activeAt, Bool.and_eq_true, decide_eq_true_eq] at hca hcb
  simp only [disjoint, Bool.not_eq_false', Bool.and_eq_true, decide_eq_true_eq]
  constructor
  · cases hst : a.startTime with
    | inf => simp
    | fin q => rw [hst] at hca; simp only [fin_lt_fin] at hca ⊢; grind
  · cases hst : b.startTime with
    | inf => simp
    | fin q => rw [hst] at hcb; simp only [fin_lt_fin] at hcb ⊢; grind

/-! ### positions of demes -/

theorem demeId_some {g : Graph} {name : String} {j : Nat} (h : g.demeId? name = some j) :
    ∃ d, g.demes[j]? = some d ∧ d.name = name := by
  simp only [Graph.demeId?] at h
  have := List.find?_some h
  simp only [decide_eq_true_eq] at this
  cases hd : g.demes[j]? with
  | none => simp [hd] at this
  | some d => rw [hd] at this; exact ⟨d, rfl, by simpa using this⟩

theorem demeId_of_getElem {g : Graph} (hn : (g.demes.map (·.name)).Nodup) {j : Nat} {d : Deme}
    (h : g.demes[j]? = some d) : g.demeId? d.name = some j := by
  have hj : j < g.demes.length := (List.getElem?_eq_some_iff.mp h).1
  cases hf : g.demeId? d.name with
  | none =>
    simp only [Graph.demeId?, List.find?_eq_none, List.mem_reverse, List.mem_range,
      decide_eq_true_eq] at hf
    exact absurd (by simp [h]) (hf j hj)
  | some j' =>
    obtain ⟨d', hd', hname⟩ := demeId_some hf
    have hj' : j' < g.demes.length := (List.getElem?_eq_some_iff.mp hd').1
    have : (g.demes.map (·.name))[j']? = (g.demes.map (·.name))[j]? := by
      simp [List.getElem?_map, h, hd', hname]
    rw [List.getElem?_inj (by simpa using hj') hn] at this
    rw [this]

theorem findDeme_some {g : Graph} {name : String} {d : Deme} (h : findDeme g name = some d) :
    d ∈ g.demes ∧ d.name = name := by
  simp only [findDeme] at h
  exact ⟨List.mem_of_find?_eq_some h, by simpa using List.find?_some h⟩

theorem demeId_of_findDeme {g : Graph} (hn : (g.demes.map (·.name)).Nodup) {name : String} {d : Deme}
    (h : findDeme g name = some d) : ∃ j, g.demeId? name = some j ∧ g.demes[j]? = some d := by
  obtain ⟨hm, rfl⟩ := findDeme_some h
  obtain ⟨j, hj⟩ := List.mem_iff_getElem?.mp hm
  exact ⟨j, demeId_of_getElem hn hj, hj⟩

/-- under distinct names, `demeId?` returns `i` exactly for the name of `demes[i]` -/
theorem demeId_eq_iff {g : Graph} (hn : (g.demes.map (·.name)).Nodup) {i : Nat} {d : Deme}
    (h : g.demes[i]? = some d) (name : String) : g.demeId? name = some i ↔ name = d.name := by
  constructor
  · intro hi
    obtain ⟨d', hd', hname⟩ := demeId_some hi
    rw [h] at hd'; cases hd'; exact hname.symm
  · rintro rfl; exact demeId_of_getElem hn h

/-! ### the loop over the migrations -/

/-- body of the `for migration in self.migrations` loop -/
def step (g : Graph) (ends : List Q) (mms : List Matrix) (mig : Migration) : Except Err (List Matrix) :=
  match g.demeId? mig.source, g.demeId? mig.dest with
  | some s, some d => sweep mig s d ETime.inf ends mms
  | _, _ => keyErr "deme_id"

def Good (g : Graph) (ends : List Q) (m : Migration) : Prop :=
  TimesIn ends m ∧ (∃ s, g.demeId? m.source = some s) ∧ (∃ d, g.demeId? m.dest = some d)

/-- `m` is written into entry `(i, j)` of matrix `k` -/
def hit (g : Graph) (ends : List Q) (k i j : Nat) (m : Migration) : Bool :=
  (g.demeId? m.dest == some i) && (g.demeId? m.source == some j) && cov m .inf ends k

def SamePair (g : Graph) (a b : Migration) : Prop :=
  g.demeId? a.source = g.demeId? b.source → g.demeId? a.dest = g.demeId? b.dest → disjoint a b = true

theorem hit_iff {g : Graph} {ends : List Q} {k i j : Nat} {m : Migration} {s d : Nat}
    (hs : g.demeId? m.source = some s) (hd : g.demeId? m.dest = some d) :
    hit g ends k i j m = true ↔ (i = d ∧ j = s) ∧ cov m .inf ends k = true := by
  simp only [hit, hs, hd, Bool.and_eq_true, beq_iff_eq, Option.some.injEq]
  grind

theorem lt_of_demeId {g : Graph} {name : String} {j : Nat} (h : g.demeId? name = some j) :
    j < g.demes.length := by
  obtain ⟨d, hd, _⟩ := demeId_some h
  exact (List.getElem?_eq_some_iff.mp hd).1

theorem get_ite_set {n : Nat} {mm : Matrix} (h : Shape n mm) {d s : Nat} (hd : d < n) (hs : s < n)
    (c : Bool) (r : Q) (i j : Nat) :
    (if c = true then mm.set d s r else mm).get i j
      = if (i = d ∧ j = s) ∧ c = true then r else mm.get i j := by
  cases c
  · simp
  · simp [get_set h hd hs]

theorem no_two_hits {g : Graph} {ends : List Q} (hp : ends.Pairwise (· > ·)) {k i j : Nat}
    {a b : Migration} (ha : Good g ends a) (hb : Good g ends b) (hab : SamePair g a b)
    (h1 : hit g ends k i j a = true) (h2 : hit g ends k i j b = true) : False := by
  obtain ⟨hta, ⟨sa, hsa⟩, ⟨da, hda⟩⟩ := ha
  obtain ⟨htb, ⟨sb, hsb⟩, ⟨db, hdb⟩⟩ := hb
  rw [hit_iff hsa hda] at h1
  rw [hit_iff hsb hdb] at h2
  have hdis := hab (by rw [hsa, hsb, ← h1.1.2, ← h2.1.2]) (by rw [hda, hdb, ← h1.1.1, ← h2.1.1])
  have := not_disjoint_of_cov hp a b hta htb h1.2 h2.2
  rw [hdis] at this; cases this

theorem fold_ok (g : Graph) (ends : List Q) (hp : ends.Pairwise (· > ·)) :
    ∀ (ms : List Migration) (mms : List Matrix), mms.length = ends.length →
      (∀ mm ∈ mms, Shape g.demes.length mm) →
      (∀ m ∈ ms, Good g ends m) →
      ms.Pairwise (SamePair g) →
      (∀ m ∈ ms, ∀ k mm i j, mms[k]? = some mm → hit g ends k i j m = true → mm.get i j = 0) →
      ∃ mms', ms.foldlM (step g ends) mms = .ok mms' ∧ mms'.length = ends.length ∧
        (∀ mm ∈ mms', Shape g.demes.length mm) ∧
        ∀ k mm mm' i j, mms[k]? = some mm → mms'[k]? = some mm' →
          mm'.get i j = match ms.find? (hit g ends k i j) with
            | some m => m.rate
            | none => mm.get i j
  | [], mms, hl, hsh, _, _, _ => by
    refine ⟨mms, rfl, hl, hsh, ?_⟩
    intro k mm mm' i j h1 h2
    rw [h1] at h2; cases h2; simp
  | m :: ms, mms, hl, hsh, hg, hpw, hz => by
    have hgm := hg m (by simp)
    obtain ⟨htm, ⟨s, hs⟩, ⟨d, hd⟩⟩ := hgm
    have hsn := lt_of_demeId hs
    have hdn := lt_of_demeId hd
    rw [List.pairwise_cons] at hpw
    -- the sweep for `m`
    have hsw := sweep_ok m s d ends .inf mms hl.symm (fun e _ => by simp) hp
      (fun k mm hk hc => by
        have := hz m (by simp) k mm d s hk ((hit_iff hs hd).mpr ⟨⟨rfl, rfl⟩, hc⟩)
        rw [this]; exact Rat.lt_irrefl)
    obtain ⟨mms1, hsw, hl1, hget1⟩ := hsw
    have hstep : step g ends mms m = .ok mms1 := by simp only [step, hs, hd]; exact hsw
    -- every matrix of `mms1` comes from one of `mms`
    have hfrom : ∀ k mm1, mms1[k]? = some mm1 → ∃ mm, mms[k]? = some mm ∧
        mm1 = if cov m .inf ends k = true then mm.set d s m.rate else mm := by
      intro k mm1 hk
      have hk' : k < mms.length := by rw [← hl1]; exact (List.getElem?_eq_some_iff.mp hk).1
      refine ⟨mms[k], List.getElem?_eq_getElem hk', ?_⟩
      have := hget1 k mms[k] (List.getElem?_eq_getElem hk')
      rw [hk] at this; exact Option.some.inj this
    have hsh1 : ∀ mm ∈ mms1, Shape g.demes.length mm := by
      intro mm1 hmem
      obtain ⟨k, hk⟩ := List.mem_iff_getElem?.mp hmem
      obtain ⟨mm, hmm, rfl⟩ := hfrom k mm1 hk
      have := hsh mm (List.mem_of_getElem? hmm)
      split
      · exact shape_set this _ _ _
      · exact this
    have hz1 : ∀ m' ∈ ms, ∀ k mm1 i j, mms1[k]? = some mm1 → hit g ends k i j m' = true →
        mm1.get i j = 0 := by
      intro m' hm' k mm1 i j hk hh
      obtain ⟨mm, hmm, rfl⟩ := hfrom k mm1 hk
      rw [get_ite_set (hsh mm (List.mem_of_getElem? hmm)) hdn hsn]
      split
      · rename_i hc
        exact (no_two_hits hp (hg m (by simp)) (hg m' (by simp [hm'])) (hpw.1 m' hm')
          ((hit_iff hs hd).mpr hc) hh).elim
      · exact hz m' (by simp [hm']) k mm i j hmm hh
    obtain ⟨mms', hfold, hl', hsh', hget'⟩ :=
      fold_ok g ends hp ms mms1 (by rw [hl1, hl]) hsh1 (fun x hx => hg x (by simp [hx])) hpw.2 hz1
    refine ⟨mms', ?_, hl', hsh', ?_⟩
    · rw [List.foldlM_cons, hstep]; exact hfold
    · intro k mm mm' i j hk hk'
      have hk1 : k < mms1.length := by rw [hl1]; exact (List.getElem?_eq_some_iff.mp hk).1
      obtain ⟨mm0, hmm0, hmm1⟩ := hfrom k mms1[k] (List.getElem?_eq_getElem hk1)
      rw [hk] at hmm0; cases hmm0
      have := hget' k mms1[k] mm' i j (List.getElem?_eq_getElem hk1) hk'
      rw [this, hmm1, get_ite_set (hsh mm (List.mem_of_getElem? hk)) hdn hsn, List.find?_cons]
      cases hh : hit g ends k i j m with
      | true =>
        have hnone : ms.find? (hit g ends k i j) = none := by
          rw [List.find?_eq_none]
          intro m' hm' hh'
          exact no_two_hits hp (hg m (by simp)) (hg m' (by simp [hm'])) (hpw.1 m' hm') hh hh'
        rw [hnone]
        simp [(hit_iff hs hd).mp hh]
      | false =>
        have : ¬ ((i = d ∧ j = s) ∧ cov m .inf ends k = true) := by
          rw [← hit_iff hs hd, hh]; simp
        simp [this]

end Demes.Proofs
