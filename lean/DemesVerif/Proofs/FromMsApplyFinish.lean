/-
  C08, link C (movements) — the steps after the event loop, for what `graphSem` looks at in a deme:
  `finaliseGrowth` keeps it, `_remove_transient_demes` drops exactly the transient demes,
  `_sort_demes_by_ancestry` is a stable sort on the start time; the pulse list is reversed.
-/
import DemesVerif.Proofs.FromMsApplyResolve
namespace Demes.Proofs.FromMs
open Demes Demes.Ms Demes.Spec Demes.Spec.C08

theorem finaliseGrowth_view {d d' : BDeme} (h : finaliseGrowth d = .ok d') : viewB d' = viewB d := by
  have hh := finaliseGrowth_header h
  have hb : bEndTime d' = bEndTime d := by
    unfold finaliseGrowth at h
    split at h
    · cases h
    · rename_i e older he
      dsimp only at h
      unfold bEndTime
      rw [he]
      split at h
      · split at h
        · cases h
        · cases h; exact getLast_head_endTime e _ older rfl
      · cases h; exact getLast_head_endTime e _ older rfl
  unfold viewB bAncestors bProportions bAncestors
  rw [hh.1, hh.2.1, hh.2.2.1, hh.2.2.2, hb]

theorem mapM_finalise_views : ∀ {l l' : List BDeme}, l.mapM finaliseGrowth = .ok l' → l'.map viewB = l.map viewB := by
  intro l
  induction l with
  | nil => intro l' h; cases h; rfl
  | cons x xs ih =>
    intro l' h
    rw [List.mapM_cons] at h
    obtain ⟨y, hy, h⟩ := RV.bind_ok.1 h
    obtain ⟨ys, hys, h⟩ := RV.bind_ok.1 h
    cases h
    rw [List.map_cons, List.map_cons, ih hys, finaliseGrowth_view hy]

/-- the test of `_remove_transient_demes` -/
def transientB (d : BDeme) : Bool := !nonTransient d

theorem nonTransient_eq (d : BDeme) :
    nonTransient d = (match d.startTime with
      | .inf => true
      | .fin st => if st = 0 then true else if st = lastEndTime d then false else true) := by
  unfold nonTransient
  cases d.startTime with
  | inf => rfl
  | fin st =>
    dsimp only
    have hb : lastEndTime d = bEndTime d := rfl
    rw [hb]
    by_cases h0 : st = 0
    · simp [h0]
    · by_cases h1 : st = bEndTime d
      · simp [h0, h1]
      · simp [h0, h1]

/-- one step of the loop of `_remove_transient_demes` -/
theorem removeStep {doc : MsDoc} {cur cur' : List BDeme} {d : BDeme}
    (h : (match d.startTime with
      | .inf => pure cur
      | .fin st =>
        if st = 0 then pure cur
        else if st = lastEndTime d then do
          if (doc.pulses.getD []).any (fun p => p.sources.contains d.name || p.dest = d.name) then
            assertionErr "transient deme used by a pulse"
          if doc.migrations.any (fun m => m.source = d.name || m.dest = d.name) then
            assertionErr "transient deme used by a migration"
          if cur.any (fun o => (o.ancestors.getD []).contains d.name) then
            assertionErr "transient deme is an ancestor"
          pure (cur.filter (fun o => o.name ≠ d.name))
        else pure cur : Except Err (List BDeme)) = .ok cur') :
    cur' = if nonTransient d then cur else cur.filter (fun o => o.name ≠ d.name) := by
  cases hs : d.startTime with
  | inf =>
    rw [hs] at h
    have hnt : nonTransient d = true := by rw [nonTransient_eq, hs]
    rw [hnt]; cases h; rfl
  | fin st =>
    rw [hs] at h
    dsimp only at h
    by_cases h0 : st = 0
    · have hnt : nonTransient d = true := by rw [nonTransient_eq, hs]; simp [h0]
      rw [hnt]; rw [if_pos h0] at h; cases h; rfl
    · rw [if_neg h0] at h
      by_cases h1 : st = lastEndTime d
      · have hnt : nonTransient d = false := by
          rw [nonTransient_eq, hs]; dsimp only; rw [if_neg h0, if_pos h1]
        rw [hnt]
        rw [if_pos h1] at h
        have hfin : cur' = List.filter (fun o => decide (o.name ≠ d.name)) cur := by
          repeat' split at h
          all_goals first
            | exact (assertionErr_bind_ok.1 h).elim
            | (rw [RV.pure_ok] at h; exact h.symm)
        rw [hfin]; rfl
      · have hnt : nonTransient d = true := by
          rw [nonTransient_eq, hs]; dsimp only; rw [if_neg h0, if_neg h1]
        rw [hnt]; rw [if_neg h1] at h; cases h; rfl

theorem removeFold {doc : MsDoc} : ∀ (ds : List BDeme) (cur cur' : List BDeme),
    ds.foldlM (fun (cur : List BDeme) (d : BDeme) =>
      match d.startTime with
      | .inf => pure cur
      | .fin st =>
        if st = 0 then pure cur
        else if st = lastEndTime d then do
          if (doc.pulses.getD []).any (fun p => p.sources.contains d.name || p.dest = d.name) then
            assertionErr "transient deme used by a pulse"
          if doc.migrations.any (fun m => m.source = d.name || m.dest = d.name) then
            assertionErr "transient deme used by a migration"
          if cur.any (fun o => (o.ancestors.getD []).contains d.name) then
            assertionErr "transient deme is an ancestor"
          pure (cur.filter (fun o => o.name ≠ d.name))
        else pure cur) cur = .ok cur' →
    cur' = cur.filter (fun o => ds.all (fun d => nonTransient d || decide (o.name ≠ d.name))) := by
  intro ds
  induction ds with
  | nil => intro cur cur' h; cases h; simp
  | cons d ds ih =>
    intro cur cur' h
    rw [List.foldlM_cons] at h
    obtain ⟨c1, h1, h2⟩ := RV.bind_ok.1 h
    have e1 := removeStep h1
    rw [ih c1 cur' h2, e1]
    by_cases hn : nonTransient d = true
    · simp [hn]
    · have hn' : nonTransient d = false := by simpa using hn
      simp only [hn', Bool.false_eq_true, if_false, List.filter_filter, List.all_cons, Bool.false_or]
      apply List.filter_congr
      intro o _
      rw [Bool.and_comm]

theorem eq_of_name_eq : ∀ {l : List BDeme} {o d : BDeme}, l.Pairwise (fun a b => a.name ≠ b.name) →
    o ∈ l → d ∈ l → o.name = d.name → o = d := by
  intro l
  induction l with
  | nil => intro o d _ ho; cases ho
  | cons x xs ih =>
    intro o d hpw ho hd' e
    rw [List.pairwise_cons] at hpw
    rcases List.mem_cons.mp ho with ho1 | ho2 <;> rcases List.mem_cons.mp hd' with hd1 | hd2
    · rw [ho1, hd1]
    · exact (hpw.1 d hd2 (by rw [← ho1, e])).elim
    · exact (hpw.1 o ho2 (by rw [← hd1, e])).elim
    · exact ih hpw.2 ho2 hd2 e

/-- `_remove_transient_demes` drops exactly the transient demes (distinct names) -/
theorem removeTransientDemes_eqC {doc doc' : MsDoc} (h : removeTransientDemes doc = .ok doc')
    (hnd : (doc.demes.map (·.name)).Nodup) :
    doc' = { doc with demes := doc.demes.filter nonTransient } := by
  unfold removeTransientDemes at h
  split at h
  · exact (assertionErr_bind_ok.1 h).elim
  · obtain ⟨demes, hd, h⟩ := RV.bind_ok.1 h
    cases h
    have := removeFold doc.demes doc.demes demes hd
    rw [this]
    congr 1
    apply List.filter_congr
    intro o ho
    by_cases hn : nonTransient o = true
    · rw [hn, List.all_eq_true]
      intro d hd'
      by_cases hnd' : nonTransient d = true
      · simp [hnd']
      · have : o.name ≠ d.name := by
          intro e
          have hod : o = d := by
            have hpw : doc.demes.Pairwise (fun a b => a.name ≠ b.name) := by
              unfold List.Nodup at hnd
              rwa [List.pairwise_map] at hnd
            exact eq_of_name_eq hpw ho hd' e
          rw [hod] at hn
          exact hnd' hn
        simp [this]
    · have hn' : nonTransient o = false := by simpa using hn
      rw [hn']
      rw [Bool.eq_false_iff]
      intro hall
      rw [List.all_eq_true] at hall
      have := hall o ho
      simp [hn'] at this

/-- what `finishDoc` does to the demes and pulses -/
theorem finishDoc_views {N0 : Q} {s : BState} {doc : MsDoc} (h : finishDoc N0 s = .ok doc) (hn : NameInv s) :
    ∃ ds : List BDeme, ds.map viewB = s.demes.map viewB ∧ doc.demes = sortDemesByAncestry (ds.filter nonTransient)
      ∧ doc.pulses = s.pulses.map List.reverse ∧ doc.numPops = s.numDemes := by
  unfold finishDoc at h
  obtain ⟨demes, hdemes, h⟩ := RV.bind_ok.1 h
  obtain ⟨migs, _, h⟩ := RV.bind_ok.1 h
  dsimp only at h
  obtain ⟨doc1, hdoc1, h⟩ := RV.bind_ok.1 h
  cases h
  have hv := mapM_finalise_views hdemes
  have hnames : demes.map (·.name) = s.demes.map (·.name) := by
    have : (demes.map viewB).map (·.name) = (s.demes.map viewB).map (·.name) := by rw [hv]
    simpa [List.map_map, Function.comp_def, viewB] using this
  have hnd : (demes.map (·.name)).Nodup := by
    rw [hnames, hn]
    unfold List.Nodup
    rw [List.pairwise_map]
    exact (List.nodup_range).imp (fun hab e => hab (demeName_inj e))
  have := removeTransientDemes_eqC hdoc1 hnd
  subst this
  exact ⟨demes, hv, rfl, rfl, rfl⟩

end Demes.Proofs.FromMs
