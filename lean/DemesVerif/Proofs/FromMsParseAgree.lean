/-
  C08 — agreement of the two parsers on plain command lines.

  `spec_to_model`: whatever the manual's parser (`MsSem.parse`) accepts, the argparse loop accepts,
  and the two read the same options (`Inv`).  `model_to_spec`: whatever the argparse loop accepts,
  the manual's parser accepts, provided no string reads as `inf` / `nan`.  Both by induction along
  the option groups of a plain command line.
-/
import DemesVerif.Proofs.FromMsParseI
namespace Demes.Proofs.FromMsParse
open Demes.Proofs.FromMs
open Demes Demes.Ms Demes.Spec Demes.Spec.MsSem Demes.Spec.C08
open Demes.Proofs.RV (bind_ok pure_ok)

/-! ### the `-I` group, both directions -/

theorem Inv.setI {fs fs' : Except String (Nat × Q)} {npop0 : Nat} {rate0 : Q} {a : Args} {acc : Parsed}
    (h : Inv fs npop0 rate0 a acc) (st : Structure) (h1 : st.npop.toNat = npop0) (h2 : st.rate = .fin rate0) :
    Inv fs' npop0 rate0 { a with structure_ := some st } { acc with sawI := true } :=
  ⟨h.initial, h.events, h.initial0, h.nonneg, h.npop, h.rate, ⟨rfl, h1, h2⟩⟩

theorem take_drop_I_B (nS r : String) (samples post : List String) {k : Nat} (h : samples.length = k) :
    (nS :: (samples ++ r :: post)).take (2 + k) = nS :: (samples ++ [r])
    ∧ (nS :: (samples ++ r :: post)).drop (2 + k) = post := by
  have e : samples ++ r :: post = (samples ++ [r]) ++ post := by simp
  have hl : (samples ++ [r]).length = k + 1 := by simp [h]
  have h2 : 2 + k = 1 + (k + 1) := by omega
  rw [e, h2, take_I _ _ _ hl, drop_I _ _ _ hl]
  exact ⟨rfl, rfl⟩

theorem mkStructure_fin {n : Int} {samples : List String} {q : Q} (hn1 : 1 ≤ n) (hlen : samples.length = n.toNat)
    (hq : 0 ≤ q) : mkStructure n samples (.fin q) = .ok ⟨n, samples, .fin q⟩ := by
  unfold mkStructure
  rw [vPosInt_ok.2 hn1, vNonNegative_fin.2 hq]
  simp only [eok_bind]
  rw [if_neg (by rw [hlen]; omega)]
  rfl

theorem mkStructure_ok {n : Int} {samples : List String} {x : Num} {s : Structure}
    (h : mkStructure n samples x = .ok s) : vNonNegative x = .ok () := by
  unfold mkStructure at h
  obtain ⟨_, _, h⟩ := bind_ok.1 h
  obtain ⟨_, h2, h⟩ := bind_ok.1 h
  exact h2

theorem C_I {npop0 : Nat} {rate0 : Q} {f : Nat} {pr : Parsed} {rest : List String} {a : Args} {acc : Parsed}
    (ih : CHyp npop0 rate0 f pr) (hlen : rest.length ≤ f) (hp : PSuf npop0 ("-I" :: rest))
    (hinv : Inv (findStructure ("-I" :: rest)) npop0 rate0 a acc)
    (h2 : parseFrom npop0 (f + 1) ("-I" :: rest) acc = .ok pr) :
    ∃ args, ML ("-I" :: rest) a = .ok args ∧ Inv (.ok (1, 0)) npop0 rate0 args pr := by
  obtain ⟨_, _, hg, hnext, hargs, hl⟩ := hp.group_split
  have har : arity.lookup "-I" = some .plus := by decide
  have hst := hinv.struct
  cases hs : a.structure_ with
  | some st =>
    rw [hs] at hst
    simp (decide := true) only [parseFrom, if_true, hst.1] at h2
    exact (sthrow_bind_ok.1 h2).elim
  | none =>
    rw [hs] at hst
    obtain ⟨hsaw, hfs0⟩ := hst
    obtain ⟨nS, n, samples, post, hn, hn1, hlen', hshape⟩ := I_shape hp
    rcases hshape with ⟨rfl, hk, hA⟩ | ⟨r, rfl, hk, hnum, hdash⟩
    · rw [pf_I_A hsaw hn hn1 hlen' hA] at h2
      rw [fs_I_A hn hn1 hlen' hA] at hfs0
      cases hfs0
      rw [ML_plus _ a (clsOf_known (known_mem _ (by decide))) har (by omega), hk, drop_I _ _ _ hlen',
        take_I _ _ _ hlen', ta_I_A a hn hn1 hlen']
      rw [hk, drop_I _ _ _ hlen'] at hnext
      exact ih post _ _ (by simp only [List.length_cons, List.length_append] at hlen; omega) hnext
        (hinv.setI _ rfl rfl) h2
    · rw [pf_I_B hsaw hn hn1 hlen' hnum hdash] at h2
      rw [fs_I_B hn hn1 hlen' hnum hdash] at hfs0
      obtain ⟨q, hq, hfs0⟩ := sbind_ok.1 hfs0
      rw [spure_ok] at hfs0
      cases hfs0
      obtain ⟨hfq, hq0⟩ := nonneg_ok.1 hq
      obtain ⟨e1, e2⟩ := take_drop_I_B nS r samples post hlen'
      rw [ML_plus _ a (clsOf_known (known_mem _ (by decide))) har (by omega), hk, e1, e2,
        ta_I_B a r hn hlen' hn1, cFloat_some hfq, eok_bind, mkStructure_fin hn1 hlen' hq0]
      rw [hk, e2] at hnext
      exact ih post _ _ (by simp only [List.length_cons, List.length_append] at hlen; omega) hnext
        (hinv.setI _ rfl rfl) h2

theorem B_I {npop0 : Nat} {f : Nat} {args : Args} {rest : List String} {a : Args} {acc : Parsed}
    (ih : BHyp npop0 f args) (hlen : rest.length ≤ f) (hp : PSuf npop0 ("-I" :: rest))
    (hfin : ∀ s ∈ "-I" :: rest, C08.finTok s = true) (hI : acc.sawI = true → "-I" ∉ "-I" :: rest)
    (h1 : ML ("-I" :: rest) a = .ok args) :
    ∃ pr, parseFrom npop0 (f + 1) ("-I" :: rest) acc = .ok pr := by
  obtain ⟨_, _, hg, hnext, hargs, hl⟩ := hp.group_split
  have har : arity.lookup "-I" = some .plus := by decide
  have hsaw : acc.sawI = false := by
    cases h : acc.sawI with
    | false => rfl
    | true => exact absurd (List.mem_cons_self ..) (hI h)
  have hno := hp.no_second_I (C08.argRun rest)
  obtain ⟨nS, n, samples, post, hn, hn1, hlen', hshape⟩ := I_shape hp
  rcases hshape with ⟨rfl, hk, hA⟩ | ⟨r, rfl, hk, hnum, hdash⟩
  · rw [pf_I_A hsaw hn hn1 hlen' hA]
    rw [ML_plus _ a (clsOf_known (known_mem _ (by decide))) har (by omega), hk, drop_I _ _ _ hlen'] at h1
    obtain ⟨a', _, h1⟩ := bind_ok.1 h1
    rw [hk, drop_I _ _ _ hlen'] at hnext hno
    exact ih post a' _ (by simp only [List.length_cons, List.length_append] at hlen; omega) hnext
      (fun s hs => hfin s (by simp [hs])) (fun _ => hno) h1
  · rw [pf_I_B hsaw hn hn1 hlen' hnum hdash]
    obtain ⟨e1, e2⟩ := take_drop_I_B nS r samples post hlen'
    rw [ML_plus _ a (clsOf_known (known_mem _ (by decide))) har (by omega), hk, e2] at h1
    obtain ⟨a', _, h1⟩ := bind_ok.1 h1
    rw [hk, e2] at hnext hno
    exact ih post a' _ (by simp only [List.length_cons, List.length_append] at hlen; omega) hnext
      (fun s hs => hfin s (by simp [hs])) (fun _ => hno) h1

/-! ### the two inductions -/

/-- **the manual's parser ⟹ argparse**, along the groups of a plain command line -/
theorem spec_to_model {npop0 : Nat} {rate0 : Q} (hN : 1 ≤ npop0) (pr : Parsed) : ∀ f, CHyp npop0 rate0 f pr := by
  intro f
  induction f with
  | zero =>
    intro l a acc hl _ hinv h2
    have : l = [] := List.eq_nil_of_length_eq_zero (by omega)
    subst this
    simp only [parseFrom] at h2
    rw [spure_ok] at h2
    subst h2
    exact ⟨a, rfl, hinv⟩
  | succ f ih =>
    intro l a acc hl hp hinv h2
    cases l with
    | nil =>
      simp only [parseFrom] at h2
      rw [spure_ok] at h2
      subst h2
      exact ⟨a, rfl, hinv⟩
    | cons flag rest =>
      have hlen : rest.length ≤ f := by simp only [List.length_cons] at hl; omega
      obtain ⟨_, hmem, _, _, _, _⟩ := hp.group_split
      rcases hmem with hk | hi
      · simp only [C08.knownFlags, arity, List.map_cons, List.map_nil, List.mem_cons, List.not_mem_nil,
          or_false] at hk
        rcases hk with rfl | rfl | rfl | rfl | rfl | rfl | rfl | rfl | rfl | rfl | rfl | rfl | rfl | rfl | rfl
        · exact C_I ih hlen hp hinv h2
        · exact C_n ih hlen hp hinv h2
        · exact C_g ih hlen hp hinv h2
        · exact C_G ih hlen hp hinv h2
        · exact C_m ih hlen hp hinv h2
        · exact C_ma hN ih hlen hp hinv h2
        · exact C_eG ih hlen hp hinv h2
        · exact C_eg ih hlen hp hinv h2
        · exact C_eN ih hlen hp hinv h2
        · exact C_en ih hlen hp hinv h2
        · exact C_eM ih hlen hp hinv h2
        · exact C_em ih hlen hp hinv h2
        · exact C_ema ih hlen hp hinv h2
        · exact C_es ih hlen hp hinv h2
        · exact C_ej ih hlen hp hinv h2
      · exact C_ignored hi ih hlen hp hinv h2

/-- **argparse ⟹ the manual's parser**, along the groups of a plain command line without
`inf` / `nan` -/
theorem model_to_spec {npop0 : Nat} (hN : 1 ≤ npop0) (args : Args) : ∀ f, BHyp npop0 f args := by
  intro f
  induction f with
  | zero =>
    intro l a acc hl _ _ _ _
    exact ⟨acc, by simp only [parseFrom]; rfl⟩
  | succ f ih =>
    intro l a acc hl hp hfin hI h1
    cases l with
    | nil => exact ⟨acc, by simp only [parseFrom]; rfl⟩
    | cons flag rest =>
      have hlen : rest.length ≤ f := by simp only [List.length_cons] at hl; omega
      obtain ⟨_, hmem, _, _, _, _⟩ := hp.group_split
      rcases hmem with hk | hi
      · simp only [C08.knownFlags, arity, List.map_cons, List.map_nil, List.mem_cons, List.not_mem_nil,
          or_false] at hk
        rcases hk with rfl | rfl | rfl | rfl | rfl | rfl | rfl | rfl | rfl | rfl | rfl | rfl | rfl | rfl | rfl
        · exact B_I ih hlen hp hfin hI h1
        · exact B_n ih hlen hp hfin hI h1
        · exact B_g ih hlen hp hfin hI h1
        · exact B_G ih hlen hp hfin hI h1
        · exact B_m ih hlen hp hfin hI h1
        · exact B_ma hN ih hlen hp hfin hI h1
        · exact B_eG ih hlen hp hfin hI h1
        · exact B_eg ih hlen hp hfin hI h1
        · exact B_eN ih hlen hp hfin hI h1
        · exact B_en ih hlen hp hfin hI h1
        · exact B_eM ih hlen hp hfin hI h1
        · exact B_em ih hlen hp hfin hI h1
        · exact B_ema ih hlen hp hfin hI h1
        · exact B_es ih hlen hp hfin hI h1
        · exact B_ej ih hlen hp hfin hI h1
      · exact B_ignored hi ih hlen hp hfin hI h1

/-! ### `findStructure` succeeds where argparse does -/

theorem known_lookup_some : ∀ s ∈ C08.knownFlags, (arity.lookup s).isSome = true := by decide +kernel

/-- a `+` option needs at least one argument -/
theorem ML_plus_ok {flag : String} {rest : List String} {a args : Args} (hc : clsOf flag = .opt flag none)
    (har : arity.lookup flag = some .plus) (h : ML (flag :: rest) a = .ok args) : 1 ≤ C08.argRun rest := by
  by_contra h0
  have h0 : C08.argRun rest = 0 := by omega
  unfold ML at h
  simp only [tag, List.map_cons, List.length_cons, hc, parseLoop, har] at h
  have hl := leadingArgs_tag rest
  simp only [tag] at hl
  rw [hl, h0, if_pos rfl] at h
  cases h

/-- the argparse loop goes on after the group -/
theorem ML_next {N : Nat} {flag : String} {rest : List String} {a args : Args} (hp : PSuf N (flag :: rest))
    (h : ML (flag :: rest) a = .ok args) : ∃ a', ML (rest.drop (C08.argRun rest)) a' = .ok args := by
  obtain ⟨_, hmem, hg, _, hargs, _⟩ := hp.group_split
  rcases hmem with hk | hi
  · obtain ⟨na, hna⟩ := Option.isSome_iff_exists.1 (known_lookup_some flag hk)
    cases na with
    | fixed n =>
      have h1 : flag ≠ "-I" := by
        intro he; subst he
        have : arity.lookup "-I" = some .plus := by decide
        rw [this] at hna; cases hna
      have h2 : flag ≠ "-ma" := by
        intro he; subst he
        have : arity.lookup "-ma" = some .plus := by decide
        rw [this] at hna; cases hna
      have h3 : flag ≠ "-ema" := by
        intro he; subst he
        have : arity.lookup "-ema" = some .plus := by decide
        rw [this] at hna; cases hna
      have hkk := groupOK_fixed hna h1 h2 h3 hg
      rw [ML_fixed rest a (clsOf_known hk) hna hkk] at h
      obtain ⟨a', _, h⟩ := bind_ok.1 h
      exact ⟨a', by rw [hkk]; exact h⟩
    | plus =>
      have hk1 := ML_plus_ok (clsOf_known hk) hna h
      rw [ML_plus rest a (clsOf_known hk) hna hk1] at h
      obtain ⟨a', _, h⟩ := bind_ok.1 h
      exact ⟨a', h⟩
  · obtain ⟨u, hu⟩ := ML_skip (C08.argRun rest) rest { a with unknown := a.unknown ++ [flag] } hargs
    rw [ML_unknown rest a (clsOf_ignored hi), hu] at h
    exact ⟨_, h⟩

theorem fs_exists {N : Nat} : ∀ (f : Nat) (l : List String) (a args : Args), l.length ≤ f → PSuf N l →
    (∀ s ∈ l, C08.finTok s = true) → ML l a = .ok args → ∃ nr, findStructure l = .ok nr := by
  intro f
  induction f with
  | zero =>
    intro l a args hl _ _ _
    have : l = [] := List.eq_nil_of_length_eq_zero (by omega)
    subst this
    exact ⟨(1, 0), rfl⟩
  | succ f ih =>
    intro l a args hl hp hfin h
    cases l with
    | nil => exact ⟨(1, 0), rfl⟩
    | cons flag rest =>
      obtain ⟨_, _, _, hnext, hargs, hle⟩ := hp.group_split
      by_cases hI : flag = "-I"
      · subst hI
        have har : arity.lookup "-I" = some .plus := by decide
        obtain ⟨nS, n, samples, post, hn, hn1, hlen', hshape⟩ := I_shape hp
        rcases hshape with ⟨rfl, hk, hA⟩ | ⟨r, rfl, hk, hnum, hdash⟩
        · exact ⟨_, fs_I_A hn hn1 hlen' hA⟩
        · obtain ⟨e1, e2⟩ := take_drop_I_B nS r samples post hlen'
          rw [ML_plus _ a (clsOf_known (known_mem _ (by decide))) har (by omega), hk, e1, e2,
            ta_I_B a r hn hlen' hn1] at h
          obtain ⟨a', hT, _⟩ := bind_ok.1 h
          obtain ⟨x, hx, hT⟩ := bind_ok.1 hT
          obtain ⟨s, hs, _⟩ := bind_ok.1 hT
          obtain ⟨q, hq⟩ := nonneg_of hx (hfin r (by simp)) (mkStructure_ok hs)
          exact ⟨(n.toNat, q), by rw [fs_I_B hn hn1 hlen' hnum hdash, hq]; rfl⟩
      · obtain ⟨a', h'⟩ := ML_next hp h
        rw [← fs_group (C08.argRun rest) hI hargs]
        exact ih _ a' args (by simp only [List.length_cons] at hl; omega) hnext
          (fun s hs => hfin s (List.mem_cons_of_mem _ ((List.drop_sublist _ _).subset hs))) h'

/-! ### the theorems -/

theorem Inv.init (tokens : List String) (npop0 : Nat) (rate0 : Q) (h : findStructure tokens = .ok (npop0, rate0)) :
    Inv (findStructure tokens) npop0 rate0 {} { npop := npop0, islandRate := rate0 } :=
  ⟨rfl, rfl, fun _ hc => (by cases hc), fun _ hc => (by cases hc), rfl, rfl, ⟨rfl, h⟩⟩

theorem Inv.argsAgree {npop0 : Nat} {rate0 : Q} {args : Args} {pr : Parsed} (hN : 1 ≤ npop0)
    (h : Inv (.ok (1, 0)) npop0 rate0 args pr) : ArgsAgree args pr := by
  have hs := h.struct
  refine ⟨?_, by rw [h.npop]; exact hN, ?_, h.initial, h.events, h.initial0, h.nonneg⟩
  · cases hst : args.structure_ with
    | none =>
      rw [hst] at hs
      obtain ⟨_, he⟩ := hs
      cases he
      exact h.npop.symm
    | some st =>
      rw [hst] at hs
      rw [h.npop]
      exact hs.2.1
  · cases hst : args.structure_ with
    | none =>
      rw [hst] at hs
      obtain ⟨_, he⟩ := hs
      cases he
      rw [h.rate]
    | some st =>
      rw [hst] at hs
      rw [h.rate]
      exact hs.2.2

theorem parse_ok {tokens : List String} {pr : Parsed} (h : parse tokens = .ok pr) :
    ∃ npop0 rate0, findStructure tokens = .ok (npop0, rate0)
      ∧ parseFrom npop0 tokens.length tokens { npop := npop0, islandRate := rate0 } = .ok pr := by
  unfold parse at h
  obtain ⟨⟨npop0, rate0⟩, hfs, h⟩ := sbind_ok.1 h
  exact ⟨npop0, rate0, hfs, h⟩

theorem parse_of {tokens : List String} {pr : Parsed} {npop0 : Nat} {rate0 : Q}
    (hfs : findStructure tokens = .ok (npop0, rate0))
    (h : parseFrom npop0 tokens.length tokens { npop := npop0, islandRate := rate0 } = .ok pr) :
    parse tokens = .ok pr := by
  unfold parse
  rw [hfs]
  exact h

/-- on a plain command line, whatever the manual's parser accepts argparse accepts, and the two
read the same options -/
theorem spec_accepts_model_accepts {tokens : List String} {pr : Parsed} (hpl : C08.PlainTokens tokens = true)
    (h2 : parse tokens = .ok pr) : ∃ args, parseKnownArgs tokens = .ok args ∧ ArgsAgree args pr := by
  obtain ⟨npop0, rate0, hfs, h2⟩ := parse_ok h2
  obtain ⟨hsn, hN⟩ := fs_npop tokens npop0 rate0 hfs
  have hp := PSuf.of_plainTokens hpl
  rw [hsn] at hp
  obtain ⟨args, hM, hinv⟩ := spec_to_model hN pr tokens.length tokens {} _ (Nat.le_refl _) hp
    (Inv.init tokens npop0 rate0 hfs) h2
  exact ⟨args, by rw [parseKnownArgs_plain hp.plain]; exact hM, hinv.argsAgree hN⟩

/-- **parser agreement**: on a plain command line the two parsers read the same options -/
theorem parsers_agree {tokens : List String} {args : Args} {pr : Parsed} (hpl : C08.PlainTokens tokens = true)
    (h1 : parseKnownArgs tokens = .ok args) (h2 : parse tokens = .ok pr) : ArgsAgree args pr := by
  obtain ⟨args', h1', ha⟩ := spec_accepts_model_accepts hpl h2
  rw [h1] at h1'
  cases h1'
  exact ha

/-- on a plain command line without `inf` / `nan`, whatever argparse accepts the manual's parser
accepts -/
theorem parse_exists {tokens : List String} {args : Args} (hpl : C08.PlainTokens tokens = true)
    (hfin : C08.FiniteToks tokens = true) (h1 : parseKnownArgs tokens = .ok args) :
    ∃ pr, parse tokens = .ok pr := by
  have hp := PSuf.of_plainTokens hpl
  rw [parseKnownArgs_plain hp.plain] at h1
  have hfin' : ∀ s ∈ tokens, C08.finTok s = true := List.all_eq_true.1 hfin
  obtain ⟨⟨npop0, rate0⟩, hfs⟩ := fs_exists tokens.length tokens {} args (Nat.le_refl _) hp hfin' h1
  obtain ⟨hsn, hN⟩ := fs_npop tokens npop0 rate0 hfs
  rw [hsn] at hp
  obtain ⟨pr, h⟩ := model_to_spec hN args tokens.length tokens {} { npop := npop0, islandRate := rate0 }
    (Nat.le_refl _) hp hfin' (fun h => by cases h) h1
  exact ⟨pr, parse_of hfs h⟩

theorem argsAgreeB_of {args : Args} {pr : Parsed} (h : ArgsAgree args pr) : argsAgreeB args pr = true := by
  simp only [argsAgreeB, Bool.and_eq_true, decide_eq_true_eq, List.all_eq_true]
  exact ⟨⟨⟨⟨⟨⟨h.npop, h.npos⟩, h.rate⟩, h.initial⟩, h.events⟩, h.initial0⟩, h.nonneg⟩

/-- the decidable form used by the stage theorems -/
theorem parsersAgree_of_plain {tokens : List String} {args : Args} {pr : Parsed}
    (hpl : C08.PlainTokens tokens = true) (h1 : parseKnownArgs tokens = .ok args) (h2 : parse tokens = .ok pr) :
    parsersAgree tokens = true := by
  unfold parsersAgree
  rw [h1, h2]
  exact argsAgreeB_of (parsers_agree hpl h1 h2)

end Demes.Proofs.FromMsParse
