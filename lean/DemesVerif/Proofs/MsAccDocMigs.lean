/-
  C09, acceptance — the migrations `finishDoc` emits from the matrix history (3): the total rate
  into a deme (`DocMigsWF.ingress`), and the assembled statements

  * `addMigrations_ok`      the sweep `_add_migrations_from_matrices` does not fail on a history that
                            satisfies `MigWF`;
  * `docMigsWF_of_migWF`    what it emits, with the rates divided by `4·N0`, satisfies `DocMigsWF`.
-/
import DemesVerif.Proofs.MsAccDocMigs2
namespace Demes.Proofs.MsAcc
open Demes Demes.Ms Demes.Spec Demes.Spec.MsSem Demes.Spec.C08 Demes.Proofs.FromMs

/-! ## regrouping a sum by a key -/

/-- a filtered sum, regrouped: every element that passes `P` belongs to exactly one group `G k`,
`k ∈ ks` -/
theorem qsumS_group {α} (f : α → Q) (P : α → Bool) (G : Nat → α → Bool) (ks : List Nat) (hks : ks.Nodup) :
    ∀ l : List α, (∀ x ∈ l, P x = true → ∃ k0 ∈ ks, ∀ k ∈ ks, G k x = decide (k = k0)) →
      qsumS ((l.filter P).map f) = qsumS (ks.map (fun k => qsumS ((l.filter (fun x => P x && G k x)).map f)))
  | [], _ => by
    symm
    exact qsumS_map_zero _ ks (fun _ _ => rfl)
  | x :: l, h => by
    have ih := qsumS_group f P G ks hks l (fun y hy => h y (List.mem_cons_of_mem _ hy))
    cases hP : P x with
    | false =>
      have e1 : (x :: l).filter P = l.filter P := by rw [List.filter_cons, hP]; rfl
      have e2 : ∀ k, (x :: l).filter (fun x => P x && G k x) = l.filter (fun x => P x && G k x) := by
        intro k
        rw [List.filter_cons, hP]
        rfl
      rw [e1, ih]
      simp only [e2]
    | true =>
      obtain ⟨k0, hk0, hG⟩ := h x (List.mem_cons_self ..) hP
      have e1 : (x :: l).filter P = x :: l.filter P := by rw [List.filter_cons, hP]; rfl
      have e2 : ∀ k ∈ ks, qsumS (((x :: l).filter (fun x => P x && G k x)).map f)
          = (if id k = k0 then f x else 0) + qsumS ((l.filter (fun x => P x && G k x)).map f) := by
        intro k hk
        rw [List.filter_cons, hP, hG k hk, Bool.true_and]
        by_cases hkk : k = k0
        · simp only [hkk, decide_true, if_true, id, List.map_cons, qsumS_cons]
        · simp only [hkk, decide_false, Bool.false_eq_true, if_false, id, Rat.zero_add]
      rw [e1, List.map_cons, qsumS_cons, ih, List.map_congr_left e2, qsumS_map_add,
        qsumS_map_single id k0 (f x) ks (by simpa using hks) (by simpa using hk0)]

theorem qsumS_map_div {α} (g : α → Q) (d : Q) : ∀ l : List α,
    qsumS (l.map (fun x => g x / d)) = qsumS (l.map g) / d
  | [] => (zero_div d).symm
  | x :: xs => by
    simp only [List.map_cons, qsumS_cons, qsumS_map_div g d xs, add_div]

/-! ## `ingress` -/

/-- the per-generation value of an emitted rate -/
def scaledQ (N0 : Q) (m : BMigration) : Q := rateQ (scaleRate N0 m.rate)

theorem scaled_filter (N0 : Q) (P : BMigration → Bool) (hP : ∀ m, P (scaleMig N0 m) = P m) (migs : List BMigration) :
    (((migs.map (scaleMig N0)).filter P).map (fun m => rateQ m.rate)) = (migs.filter P).map (scaledQ N0) := by
  induction migs with
  | nil => rfl
  | cons m migs ih =>
    rw [List.map_cons, List.filter_cons, List.filter_cons, hP]
    cases P m with
    | true => simp only [if_true, List.map_cons, ih]; rfl
    | false => simpa using ih

/-- the rates of one ordered pair that are active at `t` sum to the scaled matrix entry in force -/
theorem pair_sum {N0 : Q} {s : BState} (hw : MigWF N0 s) {migs : List BMigration}
    (hs : SweepSem (namesOf s.numDemes) s.mmList s.mmEndTimes migs) {j k : Nat} (hj : j < s.numDemes)
    (hk : k < s.numDemes) (hjk : j ≠ k) (t : Q) :
    qsumS ((migs.filter (fun m => (decide (m.dest = Ms.demeName j) && covers t m)
        && pairIs (namesOf s.numDemes) j k m)).map (scaledQ N0))
      = rowEntry s j k t / (4 * N0) := by
  have e1 : migs.filter (fun m => (decide (m.dest = Ms.demeName j) && covers t m) && pairIs (namesOf s.numDemes) j k m)
      = (migs.filter (pairIs (namesOf s.numDemes) j k)).filter (covers t) := by
    rw [List.filter_filter]
    apply List.filter_congr
    intro m _
    cases hp : pairIs (namesOf s.numDemes) j k m with
    | false => simp
    | true =>
      have := ((pairIs_namesOf hj hk).mp hp).1
      simp [this]
  have e2 : ((migs.filter (pairIs (namesOf s.numDemes) j k)).filter (covers t)).map (scaledQ N0)
      = (activeRates (namesOf s.numDemes) migs j k t).map (fun r => rateQ (scaleRate N0 r)) := by
    unfold activeRates
    rw [List.map_map]
    rfl
  rw [e1, e2, hs.act j k (by rw [namesOf_length]; exact hj) (by rw [namesOf_length]; exact hk) hjk t]
  unfold rowEntry
  cases hr : mmRateAt s.mmList s.mmEndTimes j k t with
  | none => exact (zero_div _).symm
  | some r =>
    obtain ⟨q, rfl, _⟩ := hw.fin j k t r hjk hr
    by_cases hq : q = 0
    · subst hq
      have : expectedRates (some (Num.fin 0)) = [] := expectedRates_zero (by decide)
      rw [this]
      exact (zero_div _).symm
    · rw [expectedRates_nz (numEq_fin_zero.mpr hq)]
      show q / (4 * N0) + 0 = q / (4 * N0)
      exact Rat.add_zero _

theorem docMigs_ingress {N0 : Q} (_hN : 0 < N0) {s : BState} (hw : MigWF N0 s) {migs : List BMigration}
    (hs : SweepSem (namesOf s.numDemes) s.mmList s.mmEndTimes migs) (j : Nat) (t : Q) :
    ingressOk (qsumS (((migs.map (scaleMig N0)).filter (fun m => decide (m.dest = Ms.demeName j) && covers t m)).map
      (fun m => rateQ m.rate))) = true := by
  rw [scaled_filter N0 _ (fun _ => rfl)]
  by_cases hj : j < s.numDemes
  · have hgrp := qsumS_group (scaledQ N0) (fun m => decide (m.dest = Ms.demeName j) && covers t m)
      (fun k m => pairIs (namesOf s.numDemes) j k m) ((List.range s.numDemes).filter (fun k => k != j))
      (List.nodup_range.filter _) migs ?_
    · rw [hgrp]
      have e : ((List.range s.numDemes).filter (fun k => k != j)).map (fun k =>
            qsumS ((migs.filter (fun m => (decide (m.dest = Ms.demeName j) && covers t m)
              && pairIs (namesOf s.numDemes) j k m)).map (scaledQ N0)))
          = ((List.range s.numDemes).filter (fun k => k != j)).map (fun k => rowEntry s j k t / (4 * N0)) := by
        apply List.map_congr_left
        intro k hk
        obtain ⟨hk1, hk2⟩ := List.mem_filter.mp hk
        have hkj : k ≠ j := by simpa using hk2
        exact pair_sum hw hs hj (List.mem_range.mp hk1) (fun h => hkj h.symm) t
      rw [e, qsumS_map_div, ← ingressRow_eq]
      exact hw.ingress j t
    · intro m hm hP
      simp only [Bool.and_eq_true, decide_eq_true_eq] at hP
      obtain ⟨j', k', hj', hk', hjk', hp, _⟩ := hs.wf m hm
      rw [namesOf_length] at hj' hk'
      obtain ⟨hdst, hsrc⟩ := (pairIs_namesOf hj' hk').mp hp
      have hjj : j' = j := demeName_inj (hdst.symm.trans hP.1)
      subst hjj
      refine ⟨k', ?_, ?_⟩
      · rw [List.mem_filter]
        refine ⟨List.mem_range.mpr hk', ?_⟩
        simpa using fun h => hjk' h.symm
      · intro k hk
        have hk1 : k < s.numDemes := List.mem_range.mp (List.mem_filter.mp hk).1
        by_cases hkk : k = k'
        · subst hkk
          simp [hp]
        · rw [decide_eq_false hkk]
          cases hp' : pairIs (namesOf s.numDemes) j' k m with
          | false => rfl
          | true =>
            have := ((pairIs_namesOf hj' hk1).mp hp').2
            exact absurd (demeName_inj (this.symm.trans hsrc)) hkk
  · have hnil : migs.filter (fun m => decide (m.dest = Ms.demeName j) && covers t m) = [] := by
      rw [List.filter_eq_nil_iff]
      intro m hm hP
      simp only [Bool.and_eq_true, decide_eq_true_eq] at hP
      obtain ⟨j', k', hj', hk', _, hp, _⟩ := hs.wf m hm
      rw [namesOf_length] at hj' hk'
      obtain ⟨hdst, _⟩ := (pairIs_namesOf hj' hk').mp hp
      have hjj : j' = j := demeName_inj (hdst.symm.trans hP.1)
      exact hj (hjj ▸ hj')
    rw [hnil]
    show ingressOk 0 = true
    decide +kernel

/-! ## the statements -/

theorem sweepSem_of_ok {N0 : Q} {s : BState} (hw : MigWF N0 s) {migs : List BMigration}
    (h : addMigrationsFromMatrices ((List.range s.numDemes).map Ms.demeName) s.mmList s.mmEndTimes = .ok migs) :
    SweepSem (namesOf s.numDemes) s.mmList s.mmEndTimes migs := by
  obtain ⟨h1, h2⟩ := addMigrations_sem (names := namesOf s.numDemes) h (namesOf_nodup _) hw.dec
  exact ⟨h1, h2⟩

/-- **what the sweep emits, scaled, is well-formed**: on a matrix history that satisfies `MigWF`, the
migrations `_add_migrations_from_matrices` emits, with their rates divided by `4·N0`, go between two
different demes of the state over an interval inside the lifetimes of both, with a rate in `[0, 1]`; two
migrations of one ordered pair do not overlap; and the rates into a deme sum to at most one at every time, up to the tolerance of the validation
(`ingressOk`) -/
theorem docMigsWF_of_migWF {N0 : Q} (hN : 0 < N0) {s : BState} (hw : MigWF N0 s) {migs : List BMigration}
    (h : addMigrationsFromMatrices ((List.range s.numDemes).map Ms.demeName) s.mmList s.mmEndTimes = .ok migs) :
    DocMigsWF s (migs.map (scaleMig N0)) :=
  have hs := sweepSem_of_ok hw h
  ⟨docMigs_shape hN hw hs, docMigs_disjoint hs N0, docMigs_ingress hN hw hs⟩

/-- … with the names of the demes of the state, and the rates scaled as `finishDoc` writes it -/
theorem docMigsWF_of_migWF' {N0 : Q} (hN : 0 < N0) {s : BState} (hw : MigWF N0 s) (hn : NameInv s)
    {migs : List BMigration}
    (h : addMigrationsFromMatrices (s.demes.map (·.name)) s.mmList s.mmEndTimes = .ok migs) :
    DocMigsWF s (migs.map (fun m => { m with rate := numDivQ m.rate (4 * N0) })) := by
  rw [hn] at h
  exact docMigsWF_of_migWF hN hw h

/-- both together: the sweep succeeds and its scaled output is well-formed -/
theorem docMigs_of_migWF {N0 : Q} (hN : 0 < N0) {s : BState} (hw : MigWF N0 s) (hn : NameInv s)
    (hpos : 1 ≤ s.numDemes) :
    ∃ migs, addMigrationsFromMatrices (s.demes.map (·.name)) s.mmList s.mmEndTimes = .ok migs
      ∧ DocMigsWF s (migs.map (fun m => { m with rate := numDivQ m.rate (4 * N0) })) := by
  obtain ⟨migs, h⟩ := addMigrations_ok' hw hn hpos
  exact ⟨migs, h, docMigsWF_of_migWF' hN hw hn h⟩

end Demes.Proofs.MsAcc

#print axioms Demes.Proofs.MsAcc.addMigrations_ok
#print axioms Demes.Proofs.MsAcc.docMigsWF_of_migWF
#print axioms Demes.Proofs.MsAcc.docMigs_of_migWF
