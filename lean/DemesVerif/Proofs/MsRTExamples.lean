/-
  C09, first sentence — non-vacuity of `ms_roundtrip_sem_partial` / `ms_roundtrip_sem_tame`: concrete
  multi-deme graphs that satisfy every hypothesis (checked in the kernel), and the witnesses for the
  hypotheses that are forced.
-/
import DemesVerif.Proofs.MsRTCompose
import DemesVerif.Proofs.MsRoundTripExamples
namespace Demes.Proofs.MsRT
open Demes Demes.Ms Demes.Spec Demes.Spec.C07 Demes.Spec.C09
open Demes.Spec.MsSem (msSem graphSem parse)
open Demes.Spec.C08 (semEquiv SemAgree resultSem Tame' PlainTokens)
open Demes.Proofs.MsPrint (tableCodec growthStr twoDemePulse branchMig)

/-- every hypothesis of `ms_roundtrip_sem_partial` (with `samples = none`, the codec `tableCodec`
and the growth printer `growthStr`), decided -/
def roundTripHyps (g : Graph) (N0 : Q) : Bool :=
  validGraph g && MsExpressible g && ExactProportions g && ConstSizes g && decide (0 < N0) &&
  match toMs g N0 none with
  | .ok toks =>
    decide (CodecCovers tableCodec toks) &&
    (match fromMs (renderG tableCodec growthStr toks) N0 none, parse (renderG tableCodec growthStr toks) with
     | .ok _, .ok pr => Tame' pr
     | _, _ => false)
  | .error _ => false

/-- `roundTripHyps` is exactly the list of hypotheses -/
theorem roundTripHyps_spec {g : Graph} {N0 : Q} (h : roundTripHyps g N0 = true) :
    validGraph g = true ∧ MsExpressible g = true ∧ ExactProportions g = true ∧ ConstSizes g = true ∧ 0 < N0 ∧
    ∃ toks mg pr, toMs g N0 none = .ok toks ∧ CodecCovers tableCodec toks
      ∧ fromMs (renderG tableCodec growthStr toks) N0 none = .ok mg
      ∧ parse (renderG tableCodec growthStr toks) = .ok pr ∧ Tame' pr = true := by
  unfold roundTripHyps at h
  simp only [Bool.and_eq_true, decide_eq_true_eq] at h
  obtain ⟨⟨⟨⟨⟨h1, h2⟩, h3⟩, h4⟩, h5⟩, h6⟩ := h
  refine ⟨h1, h2, h3, h4, h5, ?_⟩
  cases ht : toMs g N0 none with
  | error e => rw [ht] at h6; cases h6
  | ok toks =>
    rw [ht] at h6
    simp only [Bool.and_eq_true, decide_eq_true_eq] at h6
    obtain ⟨h7, h8⟩ := h6
    cases hf : fromMs (renderG tableCodec growthStr toks) N0 none with
    | error e => rw [hf] at h8; cases h8
    | ok mg =>
      cases hp : parse (renderG tableCodec growthStr toks) with
      | error e => rw [hf, hp] at h8; cases h8
      | ok pr =>
        rw [hf, hp] at h8
        exact ⟨toks, mg, pr, rfl, h7, hf, hp, h8⟩

/-- the conclusion of the theorem for a graph that meets the hypotheses -/
theorem roundTrip_of_hyps {g : Graph} {N0 : Q} (h : roundTripHyps g N0 = true) :
    ∃ toks mg sem rs gs, toMs g N0 none = .ok toks
      ∧ fromMs (renderG tableCodec growthStr toks) N0 none = .ok mg
      ∧ msSem (renderG tableCodec growthStr toks) N0 = .ok sem ∧ resultSem mg = .ok rs
      ∧ graphSem (inGenerations g) none = .ok gs
      ∧ semEquiv sem rs = true ∧ SemRefines sem gs ∧ SemRefines rs gs := by
  obtain ⟨h1, h2, h3, h4, h5, toks, mg, pr, h6, h7, h8, h9, h10⟩ := roundTripHyps_spec h
  obtain ⟨sem, rs, gs, r⟩ := ms_roundtrip_sem_partial tableCodec growthStr h1 h2 h3 h4 h5 (samples := none) rfl h6 h7 h8 h9 h10
  exact ⟨toks, mg, sem, rs, gs, h6, h8, r⟩

/-! ### the graphs -/

def cEpoch (st : ETime) (en N : Q) : Epoch :=
  { startTime := st, endTime := en, startSize := N, endSize := N, sizeFunction := "constant",
    selfingRate := 0, cloningRate := 0 }

/-- an admixture with two ancestors: `A` from the infinite past (size 2); `B` branches off `A` at
time 8 (size 1); `C` is formed at time 4 from `A` and `B` in proportions 1/2, 1/2 (size 1/2) -/
def admixture : Graph :=
  { description := "", timeUnits := "generations", generationTime := 1, doi := [], metadata := [],
    demes := [constDeme "A" "" 2 0 0,
              { name := "B", description := "", startTime := .fin 8, ancestors := ["A"], proportions := [1],
                epochs := [cEpoch (.fin 8) 0 1] },
              { name := "C", description := "", startTime := .fin 4, ancestors := ["A", "B"], proportions := [1/2, 1/2],
                epochs := [cEpoch (.fin 4) 0 (1/2)] }],
    migrations := [], pulses := [], index := [("A", 0), ("B", 1), ("C", 2)] }

/-- in years: an ancestor with two epochs that changes size when its descendant starts (`-en` and `-ej`
at one time), and a migration over the older half of the descendant's lifetime (`-em`) -/
def twoEpochs : Graph :=
  { description := "", timeUnits := "years", generationTime := 25, doi := [], metadata := [],
    demes := [{ name := "A", description := "", startTime := .inf, ancestors := [], proportions := [],
                epochs := [cEpoch .inf 100 2, cEpoch (.fin 100) 0 1] },
              { name := "B", description := "", startTime := .fin 100, ancestors := ["A"], proportions := [1],
                epochs := [cEpoch (.fin 100) 0 (1/2)] }],
    migrations := [{ source := "A", dest := "B", startTime := .fin 100, endTime := 50, rate := 1/16 }],
    pulses := [], index := [("A", 0), ("B", 1)] }

/-- a branch with a migration (`branchMig`), an admixture with two ancestors, a pulse of proportion
1/2, and a graph in years with two epochs and a migration that starts late: all hypotheses hold -/
example : roundTripHyps branchMig 1 = true := by decide +kernel
example : roundTripHyps admixture 1 = true := by decide +kernel
example : roundTripHyps (twoDemePulse (1/2)) 1 = true := by decide +kernel
example : roundTripHyps twoEpochs 1 = true := by decide +kernel
example : roundTripHyps admixture 2 = true := by decide +kernel

/-- … and the graph condition of `ms_roundtrip_sem_tame` holds for them too -/
example : [branchMig, admixture, twoDemePulse (1/2), twoEpochs].all PulsesTame = true := by decide +kernel

/-- the printed commands -/
example : (toMs admixture 1 none).toOption.map (renderG tableCodec growthStr)
    = some ["-I", "3", "0", "0", "0", "-n", "1", "2.0", "-n", "3", "0.5", "-es", "1.0", "3", "0.5", "-ej", "1.0", "4", "1",
            "-ej", "1.0", "3", "2", "-ej", "2.0", "2", "1"] := by decide +kernel
example : (toMs twoEpochs 1 none).toOption.map (renderG tableCodec growthStr)
    = some ["-I", "2", "0", "0", "-n", "2", "0.5", "-em", "0.5", "2", "1", "0.25", "-en", "1.0", "1", "2.0", "-ej", "1.0", "2", "1"] := by
  decide +kernel

/-- the theorem at work -/
example := roundTrip_of_hyps (g := admixture) (N0 := 1) (by decide +kernel)

/-! ### the hypotheses that are forced -/

/-- **acceptance by `from_ms` is a hypothesis (F6).**  `twoDemePulse 1` (a pulse of proportion 1)
satisfies every other hypothesis — valid, ms-expressible, exact proportions, constant sizes, the
codec covers the command, the string interpreter gives the command a meaning — and `from_ms`
rejects the command; the command is not in `Tame'` either, and the graph is not `PulsesTame`. -/
theorem acceptance_counterexample :
    validGraph (twoDemePulse 1) = true ∧ MsExpressible (twoDemePulse 1) = true
    ∧ ExactProportions (twoDemePulse 1) = true ∧ ConstSizes (twoDemePulse 1) = true
    ∧ (match toMs (twoDemePulse 1) 1 none with
       | .ok toks => decide (CodecCovers tableCodec toks)
           && (msSem (renderG tableCodec growthStr toks) 1).toOption.isSome
           && !(fromMs (renderG tableCodec growthStr toks) 1 none).toOption.isSome
           && ((parse (renderG tableCodec growthStr toks)).toOption.map Tame' == some false)
       | .error _ => false) = true
    ∧ PulsesTame (twoDemePulse 1) = false ∧ roundTripHyps (twoDemePulse 1) 1 = false := by decide +kernel

/-! ### the conclusion is not vacuous

`SemRefines` quantifies over all times; `refinesAt ts` is the decidable consequence that samples the
sizes at the times `ts`.  The graph `from_ms` returns for the command of `branchMig` passes it against
`branchMig`, and fails it against `branchMig` with another size for `A`, another migration rate, or
another ancestor. -/

open Demes.Spec.MsSem (DemogSem) in
/-- a decidable consequence of `SemRefines A gs`: sizes sampled at the times `ts` -/
def refinesAt (A gs : DemogSem) (ts : List Q) : Bool :=
  decide (A.pops.map (·.id) = gs.pops.map (·.id))
  && (A.pops.zip gs.pops).all (fun ab => decide (ab.1.hi = ab.2.hi) && decide (ab.1.lo ≤ ab.2.lo))
  && (A.pops.zip gs.pops).all (fun ab => ts.all (fun t =>
        !(decide (ab.2.lo ≤ t) && decide (ETime.fin t < ab.2.hi))
          || ((C09.sizeAt ab.2 t).isSome && decide (C09.sizeAt ab.1 t = C09.sizeAt ab.2 t))))
  && migsRefine A gs && decide (restrictMoves gs A.moves = some gs.moves)

open Demes.Spec.MsSem (DemogSem) in
theorem refinesAt_of_refines {A gs : DemogSem} (h : SemRefines A gs) (ts : List Q) : refinesAt A gs ts = true := by
  unfold refinesAt
  simp only [Bool.and_eq_true, decide_eq_true_eq, List.all_eq_true, Bool.or_eq_true, Bool.not_eq_true',
    Bool.and_eq_false_iff, decide_eq_false_iff_not]
  refine ⟨⟨⟨⟨h.ids, fun ab hab => h.lives ab hab⟩, ?_⟩, h.migs⟩, h.moves⟩
  intro ab hab t _
  by_cases h1 : ab.2.lo ≤ t
  · by_cases h2 : ETime.fin t < ab.2.hi
    · exact Or.inr (h.sizes ab hab t h1 h2)
    · exact Or.inl (Or.inr h2)
  · exact Or.inl (Or.inl h1)

/-- the observable of the graph `from_ms` returns for the command `to_ms` prints for `g`, against the
observable of `g'` -/
def roundTripAgainst (g g' : Graph) (N0 : Q) (ts : List Q) : Option Bool :=
  match toMs g N0 none with
  | .ok toks =>
    match fromMs (renderG tableCodec growthStr toks) N0 none with
    | .ok mg =>
      match resultSem mg, graphSem (inGenerations g') none with
      | .ok rs, .ok gs => some (refinesAt rs gs ts)
      | _, _ => none
    | .error _ => none
  | .error _ => none

/-- `branchMig` with size `3` for `A` / migration rate `1/4` / `B` without ancestor -/
def branchMigSize : Graph :=
  { branchMig with demes := branchMig.demes.map (fun d => if d.name = "A" then constDeme "A" "" 3 0 0 else d) }
def branchMigRate : Graph :=
  { branchMig with migrations := branchMig.migrations.map (fun m => { m with rate := 1/4 }) }
def lateB : Deme :=
  { name := "B", description := "", startTime := .fin 8, ancestors := ["A"], proportions := [1],
    epochs := [cEpoch (.fin 8) 0 (1/2)] }
def branchMigTime : Graph :=
  { branchMig with demes := [constDeme "A" "" 2 0 0, lateB], migrations := [] }

example : roundTripAgainst branchMig branchMig 1 [0, 1, 2, 4, 5, 100] = some true := by decide +kernel
example : roundTripAgainst admixture admixture 1 [0, 1, 4, 5, 8, 9] = some true := by decide +kernel
example : roundTripAgainst twoEpochs twoEpochs 1 [0, 1, 2, 3, 4, 5] = some true := by decide +kernel
example : validGraph branchMigSize = true ∧ roundTripAgainst branchMig branchMigSize 1 [0] = some false := by
  decide +kernel
example : validGraph branchMigRate = true ∧ roundTripAgainst branchMig branchMigRate 1 [0] = some false := by
  decide +kernel
example : validGraph branchMigTime = true ∧ roundTripAgainst branchMig branchMigTime 1 [0] = some false := by
  decide +kernel

/-- `Tame'` / `PulsesTame` are sufficient, not necessary: pulses `A → B` (listed first) and `B → C` at
one time.  The graph is not `PulsesTame`, the printed command is not in `Tame'`, `from_ms` accepts it,
and the returned graph passes `refinesAt` against the graph (and is `SemAgree` with the command). -/
def chainGraph : Graph :=
  { description := "", timeUnits := "generations", generationTime := 1, doi := [], metadata := [],
    demes := [constDeme "A" "" 1 0 0, constDeme "B" "" 1 0 0, constDeme "C" "" 1 0 0],
    migrations := [],
    pulses := [{ sources := ["A"], dest := "B", time := 4, proportions := [1/2] },
               { sources := ["B"], dest := "C", time := 4, proportions := [1/2] }],
    index := [("A", 0), ("B", 1), ("C", 2)] }

theorem tame_not_necessary :
    validGraph chainGraph = true ∧ PulsesTame chainGraph = false ∧ roundTripHyps chainGraph 1 = false
    ∧ (match toMs chainGraph 1 none with
       | .ok toks =>
         (match fromMs (renderG tableCodec growthStr toks) 1 none, parse (renderG tableCodec growthStr toks) with
          | .ok mg, .ok pr => !Tame' pr && SemAgree (msSem (renderG tableCodec growthStr toks) 1) (resultSem mg)
          | _, _ => false)
       | .error _ => false) = true
    ∧ roundTripAgainst chainGraph chainGraph 1 [0, 3, 4, 5] = some true := by decide +kernel

#print axioms roundTrip_of_hyps
#print axioms acceptance_counterexample

end Demes.Proofs.MsRT
