/-
  C05 — helpers for the final assembly on top of the field-level round trips: the deme loop of
  `Graph.fromdict` (Model `resolveDeme`, folded over the simplified demes) rebuilds the demes and
  the name index; the migration loop on the simplified migration list appends, in the order of
  `expandAll`, the migrations the records were stripped from.
-/
import DemesVerif.Proofs.SimplifyDemes
namespace Demes.Proofs.C05
open Demes Demes.Spec Demes.Obj

theorem dm_name (g : Graph) (d : Deme) :
    lookup "name" (demeSimplifiedObj g d) = some (.str d.name) := by
  simp [demeSimplifiedObj, lookup_cons]

theorem dm_defaults (g : Graph) (d : Deme) :
    lookup "defaults" (demeSimplifiedObj g d) = none := by
  simp only [demeSimplifiedObj, lookup_append, lookup_cons, lookup_nil,
    apply_ite (lookup "defaults")]
  by_cases h1 : d.description.isEmpty = true <;> by_cases h2 : dropStart g d = true <;>
  by_cases h3 : d.ancestors.isEmpty = true <;> by_cases h4 : dropProps d = true <;>
  simp [h1, h2, h3, h4]

theorem dm_epochs (g : Graph) (d : Deme) :
    lookup "epochs" (demeSimplifiedObj g d) = some (.list (d.epochs.map Epoch.simplified)) := by
  simp only [demeSimplifiedObj, lookup_append, lookup_cons, lookup_nil,
    apply_ite (lookup "epochs")]
  by_cases h1 : d.description.isEmpty = true <;> by_cases h2 : dropStart g d = true <;>
  by_cases h3 : d.ancestors.isEmpty = true <;> by_cases h4 : dropProps d = true <;>
  simp [h1, h2, h3, h4]

theorem dm_keys_allowed (g : Graph) (d : Deme) :
    ∀ kv ∈ demeSimplifiedObj g d, allowedDemeInner.contains kv.1 = true := by
  intro kv h
  simp only [demeSimplifiedObj, List.mem_append, List.mem_cons, List.mem_ite_nil_left,
    List.not_mem_nil, or_false] at h
  rcases h with ((((h | ⟨_, h⟩) | ⟨_, h⟩) | ⟨_, h⟩) | ⟨_, h⟩) | h <;> subst h <;> dsimp only <;> decide

/-- one iteration of the deme loop on the simplified deme, with no defaults at any level -/
theorem resolveDeme_simplified (g g' : Graph) (h0 : v0 g = true) (h1 : v1 g = true)
    (h2 : v2 g = true) (h3 : v3 g = true) (h4 : v4 g = true) (h5 : v5 g = true) (h6 : v6 g = true)
    (i : Nat) (d : Deme) (hi : g.demes[i]? = some d)
    (hdm : g'.demes = g.demes.take i) (hix : g'.index = g.index.take i) :
    resolveDeme [] [] g' (demeSimplifiedObj g d)
      = .ok { g' with demes := g'.demes ++ [d], index := g'.index ++ [(d.name, g'.demes.length)] } := by
  have hd : d ∈ g.demes := List.mem_of_getElem? hi
  have hhdr := deme_simplified_header_roundtrip g g' h0 h1 h2 h3 h4 i d hi hdm hix
  have heps := deme_epochs_roundtrip_of_valid g h5 h6 d hd
  have hne : d.epochs ≠ [] := by
    have := List.all_eq_true.1 h5 d hd
    simp only [Bool.and_eq_true, Bool.not_eq_true', List.isEmpty_eq_false_iff] at this
    exact this.1
  have hobjs : (d.epochs.map Epoch.simplified).mapM instObj = .ok (d.epochs.map epochSimplifiedObj) :=
    mapM_ok_map instObj Epoch.simplified epochSimplifiedObj d.epochs (fun _ _ => rfl)
  have hce : contains "epochs" (demeSimplifiedObj g d) = true := by simp [contains, dm_epochs]
  have hne' : (d.epochs.map epochSimplifiedObj).isEmpty = false := by
    cases h : d.epochs with
    | nil => exact absurd h hne
    | cons _ _ => rfl
  have hca0 : ∀ l, checkAllowed [] l = .ok () := fun _ => rfl
  have hcd0 : ∀ t, checkDefaults [] t = .ok () := fun _ => rfl
  unfold resolveDeme
  simp only [dm_name, checkAllowed_ok _ _ (dm_keys_allowed g d), insertDefaults, List.foldl_nil,
    hhdr, popObject, dm_defaults, dm_epochs, lookup_nil, hca0, hcd0,
    update, popObjList, instList, hobjs, hce, hne', heps, ok_bind, pure_bind, Bool.not_true,
    Bool.and_false, Bool.false_eq_true, if_false]
  rfl


theorem index_getElem? {g : Graph} (h0 : v0 g = true) {i : Nat} {d : Deme} (hi : g.demes[i]? = some d) :
    g.index[i]? = some (d.name, i) := by
  rw [v0_iff] at h0
  rw [h0]
  unfold expectedIndex
  simp [List.getElem?_map, List.getElem?_zipIdx, hi]

theorem index_length {g : Graph} (h0 : v0 g = true) : g.index.length = g.demes.length := by
  rw [v0_iff] at h0
  rw [h0]; unfold expectedIndex; simp

/-- the deme loop on the simplified demes, from any graph holding the first `i` demes -/
theorem resolveDemes_from (g : Graph) (h0 : v0 g = true) (h1 : v1 g = true)
    (h2 : v2 g = true) (h3 : v3 g = true) (h4 : v4 g = true) (h5 : v5 g = true) (h6 : v6 g = true) :
    ∀ (k i : Nat) (g' : Graph), k = g.demes.length - i → i ≤ g.demes.length →
      g'.demes = g.demes.take i → g'.index = g.index.take i →
      ((g.demes.drop i).map (demeSimplifiedObj g)).foldlM (resolveDeme [] []) g'
        = .ok { g' with demes := g.demes, index := g.index } := by
  intro k
  induction k with
  | zero =>
    intro i g' hk hle hdm hix
    have hi : i = g.demes.length := by omega
    subst hi
    rw [List.drop_length, List.map_nil, List.foldlM_nil]
    rw [List.take_length] at hdm
    rw [← index_length h0, List.take_length] at hix
    rw [← hdm, ← hix]
    rfl
  | succ k ih =>
    intro i g' hk hle hdm hix
    have hlt : i < g.demes.length := by omega
    have hi : g.demes[i]? = some g.demes[i] := List.getElem?_eq_getElem hlt
    rw [List.drop_eq_getElem_cons hlt, List.map_cons, List.foldlM_cons,
      resolveDeme_simplified g g' h0 h1 h2 h3 h4 h5 h6 i _ hi hdm hix, ok_bind]
    have hlen : g'.demes.length = i := by rw [hdm, List.length_take]; omega
    have := ih (i + 1) { g' with demes := g'.demes ++ [g.demes[i]], index := g'.index ++ [(g.demes[i].name, g'.demes.length)] } (by omega) (by omega)
      (show (g'.demes ++ [g.demes[i]]) = g.demes.take (i + 1) by
        rw [hdm, List.take_add_one, hi]; rfl)
      (show (g'.index ++ [(g.demes[i].name, g'.demes.length)]) = g.index.take (i + 1) by
        rw [hix, List.take_add_one, index_getElem? h0 hi, hlen]; rfl)
    rw [this]

/-- the whole deme loop of `fromdict` on the simplified demes rebuilds the demes and the index -/
theorem resolveDemes_simplified (g g0 : Graph) (h0 : v0 g = true) (h1 : v1 g = true)
    (h2 : v2 g = true) (h3 : v3 g = true) (h4 : v4 g = true) (h5 : v5 g = true) (h6 : v6 g = true)
    (hd0 : g0.demes = []) (hi0 : g0.index = []) :
    (g.demes.map (demeSimplifiedObj g)).foldlM (resolveDeme [] []) g0
      = .ok { g0 with demes := g.demes, index := g.index } := by
  have := resolveDemes_from g h0 h1 h2 h3 h4 h5 h6 g.demes.length 0 g0 (by omega) (by omega)
    (by simpa using hd0) (by simpa using hi0)
  simpa using this


/-! ### the migration loop -/

/-- `_add_asymmetric_migration` applied to the fields of an asymmetric record -/
def addA (g' : Graph) (a : AMig) : Except Err Graph :=
  addAsymmetricMigration g' (.str a.source) (.str a.dest) (numV a.rate) (a.start.map timeV)
    (a.stop.map numV)

theorem optField_key {α} {k : String} {o : Option α} {f : α → Value} {kv : String × Value}
    (h : kv ∈ optField k o f) : kv.1 = k := by
  cases o with
  | none => cases h
  | some a => simp only [optField, List.mem_singleton] at h; rw [h]

theorem amig_keys_allowed (a : AMig) : ∀ kv ∈ amigObj a, allowedMigration.contains kv.1 = true := by
  intro kv h
  simp only [amigObj, List.mem_append, List.mem_cons, List.not_mem_nil, or_false] at h
  rcases h with (((h | h) | h) | h) | h
  · subst h; dsimp only; decide
  · subst h; dsimp only; decide
  · rw [optField_key h]; decide
  · rw [optField_key h]; decide
  · subst h; dsimp only; decide

theorem smig_keys_allowed (a : SMig) : ∀ kv ∈ smigObj a, allowedMigration.contains kv.1 = true := by
  intro kv h
  simp only [smigObj, List.mem_append, List.mem_cons, List.not_mem_nil, or_false] at h
  rcases h with ((h | h) | h) | h
  · subst h; dsimp only; decide
  · subst h; dsimp only; decide
  · rw [optField_key h]; decide
  · rw [optField_key h]; decide

theorem resolveMigration_asym (g' : Graph) (a : AMig) :
    resolveMigration [] g' (amigObj a) = addA g' a := by
  unfold resolveMigration addA
  rw [checkAllowed_ok _ _ (amig_keys_allowed a)]
  obtain ⟨s, d, st, en, r⟩ := a
  cases st <;> cases en <;>
    simp [amigObj, optField, insertDefaults, lookup, lookupNN, ok_bind, timeV, numV]

theorem resolveMigration_sym (g' : Graph) (a : SMig) :
    resolveMigration [] g' (smigObj a)
      = addSymmetricMigration g' (strsV a.demes) (numV a.rate) (a.start.map timeV) (a.stop.map numV) := by
  unfold resolveMigration
  rw [checkAllowed_ok _ _ (smig_keys_allowed a)]
  obtain ⟨ds, r, st, en⟩ := a
  cases st <;> cases en <;>
    simp [smigObj, optField, insertDefaults, lookup, lookupNN, ok_bind, timeV, numV, strsV]


theorem permutations2_map {α β} (f : α → β) (l : List α) :
    permutations2 (l.map f)
      = (permutations2 l).map (fun p => (f p.1, f p.2)) := by
  unfold permutations2
  rw [List.zipIdx_map, List.flatMap_map, List.map_flatMap]
  congr 1
  funext ai
  obtain ⟨a, i⟩ := ai
  simp only [Prod.map, id]
  rw [List.filterMap_map, List.map_filterMap]
  congr 1
  funext bj
  obtain ⟨b, j⟩ := bj
  simp only [Function.comp, Prod.map, id]
  split <;> rfl

theorem permutations2_eq_perms2 (l : List String) : permutations2 l = perms2 l := rfl

theorem addA_mkA (g' : Graph) (k : RateKey) (p : String × String) :
    addA g' (mkA k p)
      = addAsymmetricMigration g' (.str p.1) (.str p.2) (numV k.1) (k.2.1.map timeV) (k.2.2.map numV) := rfl

/-- a symmetric record resolves as its expansion, record by record -/
theorem addSymmetric_expand (g' : Graph) (m : SMig) (h2 : 2 ≤ m.demes.length) :
    addSymmetricMigration g' (strsV m.demes) (numV m.rate) (m.start.map timeV) (m.stop.map numV)
      = (expandS m).foldlM addA g' := by
  unfold addSymmetricMigration strsV
  have hl : ¬ (m.demes.map Value.str).length < 2 := by simpa using h2
  simp only [hl, if_false, pure_bind]
  rw [permutations2_map, permutations2_eq_perms2, List.foldlM_map]
  unfold expandS
  rw [List.foldlM_map]
  rfl

theorem foldlM_flatMap {σ α β : Type} (step : σ → α → Except Err σ) (one : σ → β → Except Err σ)
    (e : α → List β) :
    ∀ (l : List α) (s0 : σ), (∀ s, ∀ a ∈ l, step s a = (e a).foldlM one s) →
      l.foldlM step s0 = (l.flatMap e).foldlM one s0 := by
  intro l
  induction l with
  | nil => intro s0 _; rfl
  | cons a l ih =>
    intro s0 h
    rw [List.foldlM_cons, List.flatMap_cons, List.foldlM_append, h s0 a List.mem_cons_self]
    congr 1
    funext s1
    exact ih s1 (fun s b hb => h s b (List.mem_cons_of_mem _ hb))

/-- the migration loop on the simplified migration list is `addA` folded over `expandAll` -/
theorem resolveMigrations_expand (g0 : Graph) (sym : List SMig) (asym : List AMig)
    (hwf : ∀ m ∈ sym, 2 ≤ m.demes.length) :
    (sym.map smigObj ++ asym.map amigObj).foldlM (resolveMigration []) g0
      = (expandAll (sym, asym)).foldlM addA g0 := by
  unfold expandAll
  rw [List.foldlM_append, List.foldlM_append]
  have h1 : ∀ s0, (sym.map smigObj).foldlM (resolveMigration []) s0 = (sym.flatMap expandS).foldlM addA s0 := by
    intro s0
    rw [List.foldlM_map]
    exact foldlM_flatMap _ addA expandS sym s0 (fun s m hm => by
      rw [resolveMigration_sym, addSymmetric_expand s m (hwf m hm)])
  have h2 : ∀ s0, (asym.map amigObj).foldlM (resolveMigration []) s0 = asym.foldlM addA s0 := by
    intro s0
    rw [List.foldlM_map]
    congr 1
    funext s a
    exact resolveMigration_asym s a
  rw [h1]
  congr 1
  funext s1
  exact h2 s1


/-- the implementation's test for "another migration of the same ordered pair overlaps `m`" -/
def overlaps (m o : Migration) : Bool :=
  o.source = m.source && o.dest = m.dest
    && decide (ETime.fin m.endTime < o.startTime) && decide (ETime.fin o.endTime < m.startTime)

theorem pairwise_forall_symm {α} {R : α → α → Prop} (hs : ∀ a b, R a b → R b a) :
    ∀ l : List α, l.Pairwise R → ∀ a ∈ l, ∀ b ∈ l, a ≠ b → R a b := by
  intro l
  induction l with
  | nil => intro _ a ha; cases ha
  | cons x xs ih =>
    intro h a ha b hb hne
    rw [List.pairwise_cons] at h
    rcases List.mem_cons.1 ha with ea | ha' <;> rcases List.mem_cons.1 hb with eb | hb'
    · exact absurd (ea.trans eb.symm) hne
    · exact ea ▸ h.1 b hb'
    · exact eb ▸ hs _ _ (h.1 a ha')
    · exact ih h.2 a ha' b hb' hne

/-- V9 — among migrations of the graph, none other than `m` itself overlaps `m` -/
theorem no_overlap_of_v9 {g : Graph} (h9 : v9 g = true) (ms : List Migration) (m : Migration)
    (hsub : ∀ o ∈ ms, o ∈ g.migrations) (hm : m ∈ g.migrations) (hnot : m ∉ ms) :
    ms.any (overlaps m) = false := by
  unfold v9 at h9
  rw [pairwiseB_iff] at h9
  have hS : g.migrations.Pairwise (fun a b => overlaps a b = false) := by
    refine h9.imp ?_
    intro a b hr
    simp only [Bool.or_eq_true, Bool.not_eq_true', Bool.and_eq_false_iff, beq_eq_false_iff_ne,
      disjoint, decide_eq_false_iff_not] at hr
    unfold overlaps
    simp only [Bool.and_eq_false_iff, decide_eq_false_iff_not]
    rcases hr with (h | h) | h
    · exact Or.inl (Or.inl (Or.inl (fun e => h e.symm)))
    · exact Or.inl (Or.inl (Or.inr (fun e => h e.symm)))
    · by_cases c : ETime.fin a.endTime < b.startTime
      · exact Or.inr (fun c' => by simp [c, c'] at h)
      · exact Or.inl (Or.inr c)
  have hsymm : ∀ a b : Migration, overlaps a b = false → overlaps b a = false := by
    intro a b h
    unfold overlaps at h ⊢
    simp only [Bool.and_eq_false_iff, decide_eq_false_iff_not] at h ⊢
    rcases h with ((h | h) | h) | h
    · exact Or.inl (Or.inl (Or.inl (fun e => h e.symm)))
    · exact Or.inl (Or.inl (Or.inr (fun e => h e.symm)))
    · exact Or.inr h
    · exact Or.inl (Or.inr h)
  rw [List.any_eq_false]
  intro o ho
  have hne : m ≠ o := fun e => hnot (e ▸ ho)
  have := pairwise_forall_symm hsymm _ hS m hm o (hsub o ho) hne
  simp [this]

theorem exists_perm_map {α β} [DecidableEq α] (f : α → β) :
    ∀ (l' : List β) (l : List α), l'.Perm (l.map f) → ∃ ms : List α, ms.Perm l ∧ ms.map f = l' := by
  intro l'
  induction l' with
  | nil =>
    intro l h
    have : l = [] := by simpa using h.symm.eq_nil
    exact ⟨[], this ▸ List.Perm.refl _, rfl⟩
  | cons b t ih =>
    intro l h
    have hb : b ∈ l.map f := h.subset List.mem_cons_self
    obtain ⟨a, ha, rfl⟩ := List.mem_map.1 hb
    have h1 : (l.map f).Perm (f a :: (l.erase a).map f) := ((List.perm_cons_erase ha).map f)
    have h2 : t.Perm ((l.erase a).map f) := (h.trans h1).cons_inv
    obtain ⟨ms, hms, hmap⟩ := ih _ h2
    exact ⟨a :: ms, (List.Perm.cons a hms).trans (List.perm_cons_erase ha).symm, by simp [hmap]⟩

/-- folding `addA` over the stripped records of a duplicate-free list of migrations of `g`
appends exactly those migrations -/
theorem addA_fold (g : Graph) (h0 : v0 g = true) (h1 : v1 g = true) (h6 : v6 g = true)
    (h8 : v8 g = true) (h9 : v9 g = true) :
    ∀ (ms : List Migration) (g' : Graph), g'.demes = g.demes → g'.index = g.index →
      (∀ o ∈ g'.migrations, o ∈ g.migrations) → (∀ m ∈ ms, m ∈ g.migrations) →
      (g'.migrations ++ ms).Nodup →
      (ms.map (stripBounds g)).foldlM addA g' = .ok { g' with migrations := g'.migrations ++ ms } := by
  intro ms
  induction ms with
  | nil => intro g' _ _ _ _ _; simp [pure, Except.pure]
  | cons m ms ih =>
    intro g' hdm hix hsub hms hnd
    have hm : m ∈ g.migrations := hms m List.mem_cons_self
    have hnot : m ∉ g'.migrations := by
      intro hmem
      rw [List.nodup_append] at hnd
      exact hnd.2.2 m hmem m List.mem_cons_self rfl
    have hno := no_overlap_of_v9 h9 g'.migrations m hsub hm hnot
    have hB := stripBounds_roundtrip g g' h0 h1 h6 h8 hdm hix m hm hno
    have hB' : addA g' (stripBounds g m) = .ok { g' with migrations := g'.migrations ++ [m] } := hB
    rw [List.map_cons, List.foldlM_cons, hB', ok_bind]
    have := ih { g' with migrations := g'.migrations ++ [m] } hdm hix
      (by
        intro o ho
        rcases List.mem_append.1 ho with ho | ho
        · exact hsub o ho
        · simp only [List.mem_singleton] at ho; exact ho ▸ hm)
      (fun m' hm' => hms m' (List.mem_cons_of_mem _ hm'))
      (by simpa [List.append_assoc] using hnd)
    rw [this]
    simp [List.append_assoc]

/-- the migration loop of `fromdict` on the simplified migration list of a graph satisfying
V0, V1, V6, V8, V9, started from a graph with `g`'s demes and index and no migrations, succeeds
and leaves a permutation of `g`'s migrations (in the order of `expandAll`) -/
theorem resolveMigrations_simplified (g g0 : Graph) (h0 : v0 g = true) (h1 : v1 g = true)
    (h6 : v6 g = true) (h8 : v8 g = true) (h9 : v9 g = true)
    (hdm : g0.demes = g.demes) (hix : g0.index = g.index) (hm0 : g0.migrations = []) :
    ∃ ms : List Migration, ms.Perm g.migrations
      ∧ ms.map (stripBounds g) = expandAll (simplifyMigrations g)
      ∧ (((simplifyMigrations g).1.map smigObj ++ (simplifyMigrations g).2.map amigObj).foldlM
          (resolveMigration []) g0) = .ok { g0 with migrations := ms } := by
  obtain ⟨ms, hperm, hmap⟩ := exists_perm_map (stripBounds g) _ _ (simplify_invariant g)
  refine ⟨ms, hperm, hmap, ?_⟩
  rw [resolveMigrations_expand g0 _ _ (fun m hm => (simplify_groups_wellformed g m hm).1)]
  show (expandAll (simplifyMigrations g)).foldlM addA g0 = _
  rw [← hmap]
  have hnd : (g0.migrations ++ ms).Nodup := by
    rw [hm0, List.nil_append]; exact hperm.nodup_iff.2 (migrations_nodup h8 h9)
  have := addA_fold g h0 h1 h6 h8 h9 ms g0 hdm hix (by rw [hm0]; intro o ho; cases ho)
    (fun m hm => hperm.subset hm) hnd
  rw [this, hm0, List.nil_append]


end Demes.Proofs.C05
