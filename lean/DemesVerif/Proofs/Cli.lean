/-
  Proofs for C19 (command line).  Core Lean only.
-/
import DemesVerif.Spec.C19
namespace Demes.Proofs.Cli
open Demes Demes.Cli Demes.Spec.C19

/-! ### the Spec's reading of a document stream -/

@[simp] theorem loadFails_nil : loadFails [] = false := rfl
@[simp] theorem loadFails_fail (r : List Doc) : loadFails (.fail :: r) = true := by
  simp [loadFails]
@[simp] theorem loadFails_ok (g : Nat) (r : List Doc) : loadFails (.ok g :: r) = loadFails r := by
  simp [loadFails]

@[simp] theorem loaded_map_ok (gs : List Nat) : loaded (gs.map Doc.ok) = gs := by
  induction gs with
  | nil => rfl
  | cons g gs ih => simp [loaded, ih]

@[simp] theorem loadFails_map_ok (gs : List Nat) : loadFails (gs.map Doc.ok) = false := by
  induction gs with
  | nil => rfl
  | cons g gs ih => simp [ih]

theorem all_ok_of_not_fails (docs : List Doc) (h : loadFails docs = false) :
    docs = (loaded docs).map Doc.ok := by
  induction docs with
  | nil => rfl
  | cons d r ih =>
    cases d with
    | fail => simp at h
    | ok g =>
      simp only [loadFails_ok] at h
      simp only [loaded, List.map_cons]
      rw [← ih h]

theorem iterates_gen (docs : List Doc) : Iterates genNext docs (loaded docs) (loadFails docs) := by
  induction docs with
  | nil => exact .stop rfl
  | cons d r ih =>
    cases d with
    | fail => simpa [loaded] using Iterates.raise (next := genNext) (s := Doc.fail :: r) rfl
    | ok g =>
      simp only [loaded, loadFails_ok]
      exact .yield rfl ih

theorem iterates_det {σ : Type} (next : σ → Next σ) (s : σ) (gs gs' : List Nat) (r r' : Bool)
    (h : Iterates next s gs r) (h' : Iterates next s gs' r') : gs = gs' ∧ r = r' := by
  induction h generalizing gs' r' with
  | stop hs =>
    cases h' with
    | stop _ => exact ⟨rfl, rfl⟩
    | raise h2 => rw [hs] at h2; cases h2
    | yield h2 _ => rw [hs] at h2; cases h2
  | raise hs =>
    cases h' with
    | stop h2 => rw [hs] at h2; cases h2
    | raise _ => exact ⟨rfl, rfl⟩
    | yield h2 _ => rw [hs] at h2; cases h2
  | yield hs _ ih =>
    cases h' with
    | stop h2 => rw [hs] at h2; cases h2
    | raise h2 => rw [hs] at h2; cases h2
    | yield h2 h3 =>
      rw [hs] at h2
      cases h2
      obtain ⟨h4, h5⟩ := ih _ _ h3
      exact ⟨by rw [h4], h5⟩

theorem iterates_chain (bs : List Nat) (gen : List Doc) :
    Iterates Chain.next ⟨bs, gen⟩ (bs ++ loaded gen) (loadFails gen) := by
  induction bs with
  | nil =>
    induction gen with
    | nil => exact .stop rfl
    | cons d r ih =>
      cases d with
      | fail =>
        simpa [loaded] using Iterates.raise (next := Chain.next) (s := ⟨[], Doc.fail :: r⟩) rfl
      | ok g =>
        simp only [loaded, loadFails_ok, List.nil_append] at ih ⊢
        exact .yield (s' := ⟨[], r⟩) rfl ih
  | cons b bs ih => exact .yield rfl ih

theorem loaded_append_ok (bs : List Nat) (gen : List Doc) :
    loaded (bs.map Doc.ok ++ gen) = bs ++ loaded gen := by
  induction bs with
  | nil => rfl
  | cons b bs ih => simp [loaded, ih]

theorem loadFails_append_ok (bs : List Nat) (gen : List Doc) :
    loadFails (bs.map Doc.ok ++ gen) = loadFails gen := by
  induction bs with
  | nil => rfl
  | cons b bs ih => simp [ih]

/-! ### the look-ahead -/

theorem loadAndCount_nil : loadAndCount [] = some (0, ⟨[], []⟩) := rfl
theorem loadAndCount_fail (r : List Doc) : loadAndCount (.fail :: r) = none := rfl
theorem loadAndCount_one (g : Nat) : loadAndCount [.ok g] = some (1, ⟨[g], []⟩) := rfl
theorem loadAndCount_ok_fail (g : Nat) (r : List Doc) : loadAndCount (.ok g :: .fail :: r) = none :=
  rfl
theorem loadAndCount_two (g h : Nat) (r : List Doc) :
    loadAndCount (.ok g :: .ok h :: r) = some (2, ⟨[g, h], r⟩) := rfl

/-- every stream has one of five shapes (the look-ahead never inspects more than two documents) -/
theorem doc_shapes (docs : List Doc) :
    docs = [] ∨ (∃ r, docs = .fail :: r) ∨ (∃ g, docs = [.ok g]) ∨ (∃ g r, docs = .ok g :: .fail :: r)
      ∨ (∃ g h r, docs = .ok g :: .ok h :: r) := by
  match docs with
  | [] => exact .inl rfl
  | .fail :: r => exact .inr (.inl ⟨r, rfl⟩)
  | [.ok g] => exact .inr (.inr (.inl ⟨g, rfl⟩))
  | .ok g :: .fail :: r => exact .inr (.inr (.inr (.inl ⟨g, r, rfl⟩)))
  | .ok g :: .ok h :: r => exact .inr (.inr (.inr (.inr ⟨g, h, r, rfl⟩)))

theorem lookahead_stream (docs : List Doc) (n : Nat) (c : Chain)
    (h : loadAndCount docs = some (n, c)) :
    c.buffered.map Doc.ok ++ c.gen = docs ∧ n = min 2 docs.length := by
  rcases doc_shapes docs with rfl | ⟨r, rfl⟩ | ⟨g, rfl⟩ | ⟨g, r, rfl⟩ | ⟨g, k, r, rfl⟩
  · rw [loadAndCount_nil] at h; cases h; exact ⟨rfl, rfl⟩
  · rw [loadAndCount_fail] at h; cases h
  · rw [loadAndCount_one] at h; cases h; exact ⟨rfl, rfl⟩
  · rw [loadAndCount_ok_fail] at h; cases h
  · rw [loadAndCount_two] at h; cases h
    refine ⟨rfl, ?_⟩
    simp only [List.length_cons]
    omega

theorem lookahead_preserves (docs : List Doc) (n : Nat) (c : Chain)
    (h : loadAndCount docs = some (n, c)) :
    c.buffered.map Doc.ok ++ c.gen = docs
      ∧ ∀ gs r, Iterates Chain.next c gs r ↔ Iterates genNext docs gs r := by
  obtain ⟨hs, _⟩ := lookahead_stream docs n c h
  refine ⟨hs, fun gs r => ?_⟩
  have hc : Iterates Chain.next c (loaded docs) (loadFails docs) := by
    have := iterates_chain c.buffered c.gen
    rw [← loaded_append_ok, ← loadFails_append_ok c.buffered, hs] at this
    exact this
  have hg := iterates_gen docs
  constructor
  · intro h1
    obtain ⟨e1, e2⟩ := iterates_det _ _ _ _ _ _ h1 hc
    rw [e1, e2]; exact hg
  · intro h1
    obtain ⟨e1, e2⟩ := iterates_det _ _ _ _ _ _ h1 hg
    rw [e1, e2]; exact hc

theorem lookahead_fails (docs : List Doc) :
    loadAndCount docs = none ↔ (loadFails docs = true ∧ failPos docs ≤ 2) := by
  rcases doc_shapes docs with rfl | ⟨r, rfl⟩ | ⟨g, rfl⟩ | ⟨g, r, rfl⟩ | ⟨g, k, r, rfl⟩
  · simp [loadAndCount_nil]
  · simp [loadAndCount_fail, failPos, loaded]
  · simp [loadAndCount_one]
  · simp [loadAndCount_ok_fail, failPos, loaded]
  · simp [loadAndCount_two, failPos, loaded]

/-! ### `dump_all` over the chain -/

abbrev D (s : Bool) (g : Nat) : Call := .dumpAllDoc g s

theorem drainChain_eq (lib : Call → Bool) (s : Bool) (bs : List Nat) (gen : List Doc)
    (out : List Call) :
    drainChain lib s bs gen out = drainGen lib s (bs.map Doc.ok ++ gen) out := by
  induction bs generalizing out with
  | nil => rfl
  | cons b bs ih =>
    simp only [drainChain, List.map_cons, List.cons_append, drainGen]
    split
    · exact ih _
    · rfl

/-- all library calls return: everything loadable is written, in order, and the exit status
says whether the stream ended or raised -/
theorem drainGen_all (lib : Call → Bool) (s : Bool) (docs : List Doc) (out : List Call)
    (hl : ∀ g ∈ loaded docs, lib (D s g) = true) :
    drainGen lib s docs out
      = ⟨out ++ (loaded docs).map (D s), if loadFails docs then .loadError else .exit0⟩ := by
  induction docs generalizing out with
  | nil => simp [drainGen, loaded]
  | cons d r ih =>
    cases d with
    | fail => simp [drainGen, loaded]
    | ok g =>
      have hg : lib (.dumpAllDoc g s) = true := hl g (by simp [loaded])
      have hr : ∀ g' ∈ loaded r, lib (D s g') = true := fun g' h' => hl g' (by simp [loaded, h'])
      simp only [drainGen, hg, if_true, loaded, loadFails_ok, List.map_cons]
      rw [ih _ hr]
      simp

/-- whatever happens, what has been written is a prefix of the loadable documents' output, and
every written call returned -/
theorem drainGen_prefix (lib : Call → Bool) (s : Bool) (docs : List Doc) (out : List Call) :
    ∃ t, (drainGen lib s docs out).printed = out ++ t ∧ t <+: (loaded docs).map (D s)
      ∧ ∀ c ∈ t, lib c = true := by
  induction docs generalizing out with
  | nil => exact ⟨[], by simp [drainGen], by simp, by simp⟩
  | cons d r ih =>
    cases d with
    | fail => exact ⟨[], by simp [drainGen], by simp, by simp⟩
    | ok g =>
      simp only [drainGen]
      split
      next hg =>
        obtain ⟨t, h1, h2, h3⟩ := ih (out ++ [.dumpAllDoc g s])
        refine ⟨.dumpAllDoc g s :: t, by simp [h1], ?_, ?_⟩
        · simp only [loaded, List.map_cons]
          exact List.prefix_cons_inj _ |>.mpr h2
        · intro c hc
          rcases List.mem_cons.mp hc with rfl | hc
          · exact hg
          · exact h3 c hc
      next => exact ⟨[], by simp, by simp, by simp⟩

/-- exit status 0 only if the whole stream was loadable and every call returned -/
theorem drainGen_exit0 (lib : Call → Bool) (s : Bool) (docs : List Doc) (out : List Call)
    (h : (drainGen lib s docs out).exit = .exit0) :
    loadFails docs = false ∧ ∀ g ∈ loaded docs, lib (D s g) = true := by
  induction docs generalizing out with
  | nil => simp [loaded]
  | cons d r ih =>
    cases d with
    | fail => simp [drainGen] at h
    | ok g =>
      simp only [drainGen] at h
      split at h
      next hg =>
        obtain ⟨h1, h2⟩ := ih _ h
        refine ⟨by simpa using h1, ?_⟩
        intro g' hg'
        simp only [loaded, List.mem_cons] at hg'
        rcases hg' with rfl | hg'
        · exact hg
        · exact h2 g' hg'
      next => simp at h

/-! ### `parse`, shape by shape -/

theorem outputFormat_ne_yaml (f : Flags) : (outputFormat f != .yaml) = !wantsYaml f := by
  obtain ⟨j, m, s⟩ := f
  cases j <;> cases m <;> simp [outputFormat, wantsYaml]

theorem parse_nil (lib : Call → Bool) (f : Flags) : parse lib f [] = ⟨[], .exit0⟩ := by
  simp [parse, loadAndCount_nil]

theorem parse_fail (lib : Call → Bool) (f : Flags) (r : List Doc) :
    parse lib f (.fail :: r) = ⟨[], .loadError⟩ := by
  simp [parse, loadAndCount_fail]

theorem parse_one (lib : Call → Bool) (f : Flags) (g : Nat) :
    parse lib f [.ok g] = run1 lib (libraryCall f g) := by
  obtain ⟨j, m, s⟩ := f
  cases j <;> cases m <;> simp [parse, loadAndCount_one, Chain.next, libraryCall, outputFormat]

theorem parse_ok_fail (lib : Call → Bool) (f : Flags) (g : Nat) (r : List Doc) :
    parse lib f (.ok g :: .fail :: r) = ⟨[], .loadError⟩ := by
  simp [parse, loadAndCount_ok_fail]

theorem parse_two (lib : Call → Bool) (f : Flags) (g h : Nat) (r : List Doc) :
    parse lib f (.ok g :: .ok h :: r)
      = if wantsYaml f then drainGen lib f.simplified (.ok g :: .ok h :: r) []
        else ⟨[], .unsupported⟩ := by
  simp only [parse, loadAndCount_two, outputFormat_ne_yaml, dumpAll, drainChain_eq]
  cases wantsYaml f <;> simp

/-! ### the property theorems -/

theorem expected_two (f : Flags) (g h : Nat) (gs : List Nat) :
    expected f (g :: h :: gs)
      = if wantsYaml f then some ((g :: h :: gs).map (D f.simplified)) else none := rfl

theorem parse_output (lib : Call → Bool) (f : Flags) (gs : List Nat)
    (hl : ∀ cs, expected f gs = some cs → ∀ c ∈ cs, lib c = true) :
    parse lib f (gs.map Doc.ok)
      = match expected f gs with
        | some cs => ⟨cs, .exit0⟩
        | none => ⟨[], .unsupported⟩ := by
  match gs with
  | [] => simp [parse_nil, expected]
  | [g] =>
    have : lib (libraryCall f g) = true := hl [libraryCall f g] rfl _ (by simp)
    simp [parse_one, expected, run1, this]
  | g :: h :: gs =>
    simp only [List.map_cons, parse_two, expected_two]
    cases hy : wantsYaml f
    · simp
    · have hall : ∀ g' ∈ loaded (Doc.ok g :: Doc.ok h :: gs.map Doc.ok),
          lib (D f.simplified g') = true := by
        intro g' hg'
        refine hl _ (by rw [expected_two, hy]; rfl) _ ?_
        simp only [loaded, loaded_map_ok] at hg'
        exact List.mem_map.mpr ⟨g', hg', rfl⟩
      simp only [if_true]
      rw [drainGen_all lib _ _ _ hall]
      simp [loaded]

theorem parse_many_unsupported (lib : Call → Bool) (f : Flags) (g h : Nat) (r : List Doc)
    (hf : wantsYaml f = false) : parse lib f (.ok g :: .ok h :: r) = ⟨[], .unsupported⟩ := by
  simp [parse_two, hf]

theorem parse_error_exit (lib : Call → Bool) (f : Flags) (docs : List Doc)
    (h : loadFails docs = true) : (parse lib f docs).exit ≠ .exit0 := by
  rcases doc_shapes docs with rfl | ⟨r, rfl⟩ | ⟨g, rfl⟩ | ⟨g, r, rfl⟩ | ⟨g, k, r, rfl⟩
  · simp at h
  · simp [parse_fail]
  · simp at h
  · simp [parse_ok_fail]
  · rw [parse_two]
    split
    · intro h0
      have := (drainGen_exit0 lib _ _ _ h0).1
      rw [h] at this; cases this
    · simp

theorem parse_error_early (lib : Call → Bool) (f : Flags) (docs : List Doc)
    (h : loadFails docs = true) (hp : failPos docs ≤ 2) : parse lib f docs = ⟨[], .loadError⟩ := by
  rcases doc_shapes docs with rfl | ⟨r, rfl⟩ | ⟨g, rfl⟩ | ⟨g, r, rfl⟩ | ⟨g, k, r, rfl⟩
  · simp at h
  · exact parse_fail lib f r
  · simp at h
  · exact parse_ok_fail lib f g r
  · simp [failPos, loaded] at hp

theorem parse_error_late (lib : Call → Bool) (f : Flags) (docs : List Doc)
    (h : loadFails docs = true) (hp : 2 < failPos docs) :
    (wantsYaml f = false → parse lib f docs = ⟨[], .unsupported⟩)
    ∧ (wantsYaml f = true → (∀ g ∈ loaded docs, lib (.dumpAllDoc g f.simplified) = true) →
        parse lib f docs
          = ⟨(loaded docs).map (fun g => Call.dumpAllDoc g f.simplified), .loadError⟩) := by
  rcases doc_shapes docs with rfl | ⟨r, rfl⟩ | ⟨g, rfl⟩ | ⟨g, r, rfl⟩ | ⟨g, k, r, rfl⟩
  · simp at h
  · simp [failPos, loaded] at hp
  · simp at h
  · simp [failPos, loaded] at hp
  · refine ⟨fun hf => parse_many_unsupported lib f g k r hf, fun hf hl => ?_⟩
    rw [parse_two, hf, if_pos rfl, drainGen_all lib _ _ _ hl, h]
    simp

theorem success_complete (lib : Call → Bool) (f : Flags) (docs : List Doc) :
    successComplete lib f docs (parse lib f docs) := by
  intro h0
  rcases doc_shapes docs with rfl | ⟨r, rfl⟩ | ⟨g, rfl⟩ | ⟨g, r, rfl⟩ | ⟨g, k, r, rfl⟩
  · simp [parse_nil, loaded, expected]
  · simp [parse_fail] at h0
  · rw [parse_one] at h0 ⊢
    unfold run1 at h0 ⊢
    split at h0
    next hl => simp [loaded, expected, hl]
    next => simp at h0
  · simp [parse_ok_fail] at h0
  · rw [parse_two] at h0 ⊢
    cases hy : wantsYaml f
    · simp [hy] at h0
    · simp only [hy, if_true] at h0 ⊢
      obtain ⟨h1, h2⟩ := drainGen_exit0 lib _ _ _ h0
      rw [drainGen_all lib _ _ _ h2]
      refine ⟨all_ok_of_not_fails _ h1, ?_, ?_⟩
      · simp only [loaded, expected_two, hy, if_true, List.nil_append]
      · intro c hc
        simp only [List.nil_append, List.mem_map] at hc
        obtain ⟨g', hg', rfl⟩ := hc
        exact h2 g' hg'

theorem parse_printed_prefix (lib : Call → Bool) (f : Flags) (docs : List Doc) :
    (∀ c ∈ (parse lib f docs).printed, lib c = true)
    ∧ match expected f (loaded docs) with
      | some cs => (parse lib f docs).printed <+: cs
      | none => (parse lib f docs).printed = [] := by
  rcases doc_shapes docs with rfl | ⟨r, rfl⟩ | ⟨g, rfl⟩ | ⟨g, r, rfl⟩ | ⟨g, k, r, rfl⟩
  · simp [parse_nil, loaded, expected]
  · simp [parse_fail, loaded, expected]
  · rw [parse_one]
    unfold run1
    split
    next hl => simp [loaded, expected, hl]
    next => simp [loaded, expected]
  · simp [parse_ok_fail, loaded, expected]
  · rw [parse_two]
    cases hy : wantsYaml f
    · simp [loaded, expected_two, hy]
    · simp only [if_true, loaded, expected_two, hy]
      obtain ⟨t, h1, h2, h3⟩ := drainGen_prefix lib f.simplified (.ok g :: .ok k :: r) []
      rw [h1]
      simp only [List.nil_append]
      refine ⟨h3, ?_⟩
      simpa [loaded] using h2

theorem parse_lib_error_one (lib : Call → Bool) (f : Flags) (g : Nat)
    (h : lib (libraryCall f g) = false) :
    parse lib f [.ok g] = ⟨[], .libError (libraryCall f g)⟩ := by
  simp [parse_one, run1, h]

theorem parse_one_ms (lib : Call → Bool) (j s : Bool) (n0 : Q) (g : Nat)
    (hl : lib (.toMs g n0) = true) :
    parse lib ⟨j, some n0, s⟩ [.ok g] = ⟨[.toMs g n0], .exit0⟩ := by
  rw [parse_one]; simp [libraryCall, run1, hl]

theorem parse_one_dump (lib : Call → Bool) (j s : Bool) (g : Nat)
    (hl : lib (.dump g (if j then .json else .yaml) s) = true) :
    parse lib ⟨j, none, s⟩ [.ok g] = ⟨[.dump g (if j then .json else .yaml) s], .exit0⟩ := by
  rw [parse_one]; simp [libraryCall, run1, hl]

theorem parse_many_yaml (lib : Call → Bool) (s : Bool) (g h : Nat) (gs : List Nat)
    (hl : ∀ x ∈ g :: h :: gs, lib (.dumpAllDoc x s) = true) :
    parse lib ⟨false, none, s⟩ ((g :: h :: gs).map Doc.ok)
      = ⟨(g :: h :: gs).map (fun x => Call.dumpAllDoc x s), .exit0⟩ := by
  rw [parse_output lib _ _ (by
    intro cs hcs c hc
    rw [expected_two] at hcs
    simp only [wantsYaml, Bool.not_false, Option.isNone_none, Bool.and_self, if_true,
      Option.some.injEq] at hcs
    subst hcs
    obtain ⟨x, hx, rfl⟩ := List.mem_map.mp hc
    exact hl x hx)]
  rfl

theorem parse_many_unsupported' (lib : Call → Bool) (f : Flags) (g h : Nat) (r : List Doc)
    (hf : f.json = true ∨ f.ms.isSome = true) :
    parse lib f (.ok g :: .ok h :: r) = ⟨[], .unsupported⟩ :=
  parse_many_unsupported lib f g h r (by
    obtain ⟨j, m, s⟩ := f
    cases j <;> cases m <;> simp_all [wantsYaml])

/-! ### `cli` -/

theorem cli_exclusive (lib : Call → Bool) (f : Flags) (fileOk : Bool) (docs : List Doc)
    (hj : f.json = true) (hm : f.ms.isSome = true) :
    cli lib (.parse f fileOk docs) = ⟨[], .usage⟩ := by
  simp [cli, hj, hm]

theorem cli_parse (lib : Call → Bool) (f : Flags) (docs : List Doc)
    (h : ¬ (f.json = true ∧ f.ms.isSome = true)) :
    cli lib (.parse f true docs) = parse lib f docs := by
  simp only [cli]
  split
  next h' => exact absurd (by simpa using h') h
  next => simp

theorem cli_no_file (lib : Call → Bool) (f : Flags) (docs : List Doc) :
    cli lib (.parse f false docs) = ⟨[], .usage⟩ := by
  simp only [cli]
  split <;> simp

theorem ms_output (lib : Call → Bool) (g : Nat) :
    cli lib (.ms (.ok g))
      = if lib (.dump g .yaml true) then ⟨[.dump g .yaml true], .exit0⟩
        else ⟨[], .libError (.dump g .yaml true)⟩ := rfl

theorem ms_error (lib : Call → Bool) : cli lib (.ms .fail) = ⟨[], .loadError⟩ := rfl

end Demes.Proofs.Cli
