/-
  C08/C09 — PROGRESS of the event loop of `build_graph`: a command that the ms interpreter
  (`Spec.MsSem`) runs to the end never makes the event loop of the Model raise.

  The simulation lemmas (`FromMsSizeSim`, `FromMsSizeFold`, `FromMsFold`) all have the form
  "both sides succeed ⇒ the states correspond".  Here: the interpreter succeeds ⇒ the Model
  succeeds.  Two Model-only invariants are needed on the way:
  * `EpochsOK T s`: every deme has a head epoch and it ends at or before `T` (so that
    `epoch_resolve(deme, T')`, `T ≤ T'`, is inside the deme's existence interval);
  * `LmOK s g`: the columns `≥ num_demes` of `lineage_movements` are zero (the assertion
    `lm[new_pid] == 0` of `-es`).
-/
import DemesVerif.Proofs.FromMsFold
import DemesVerif.Proofs.FromMsNames
namespace Demes.Proofs.MsAcc
open Demes Demes.Ms Demes.Spec.MsSem Demes.Spec.C08 Demes.Proofs.FromMs


/-! ## the Model-only invariants -/

/-- the deme has a head epoch, ending at or before `T` -/
def HeadOK (T : Q) (d : BDeme) : Prop := ∃ e r, d.epochs = e :: r ∧ e.endTime ≤ T

/-- every deme has a head epoch, ending at or before `T` -/
def EpochsOK (T : Q) (s : BState) : Prop := ∀ d ∈ s.demes, ∃ e r, d.epochs = e :: r ∧ e.endTime ≤ T

/-- the columns of `lineage_movements` that belong to no population yet are zero -/
def LmOK (s : BState) (g : GState) : Prop := ∀ row ∈ g.lm, ∀ k, s.numDemes ≤ k → row.getD k 0 = 0

theorem HeadOK.mono {T T' : Q} {d : BDeme} (h : HeadOK T d) (hT : T ≤ T') : HeadOK T' d := by
  obtain ⟨e, r, he, hle⟩ := h
  exact ⟨e, r, he, Rat.le_trans hle hT⟩

theorem EpochsOK.mono {T T' : Q} {s : BState} (h : EpochsOK T s) (hT : T ≤ T') : EpochsOK T' s :=
  fun d hd => HeadOK.mono (h d hd) hT

theorem epochResolve_headOK {T T' T'' : Q} {d d' : BDeme} (h : HeadOK T d) (h1 : T ≤ T'') (h2 : T' ≤ T'')
    (hr : epochResolve d T' = .ok d') : HeadOK T'' d' := by
  obtain ⟨e, older, he, _, _, hc | hc⟩ := epochResolve_ok hr
  · rw [hc.2]; exact h.mono h1
  · rw [hc.2]; exact ⟨_, _, rfl, h2⟩

theorem modifyHead_headOK {T : Q} {d : BDeme} {f : BEpoch → BEpoch} (h : HeadOK T d)
    (hf : ∀ e, (f e).endTime = e.endTime) : HeadOK T (modifyHead d f) := by
  obtain ⟨e, r, he, hle⟩ := h
  unfold modifyHead
  rw [he]
  exact ⟨f e, r, rfl, by rw [hf]; exact hle⟩

theorem updGrowth_headOK {gr T T' T'' : Q} {d d' : BDeme} (h : HeadOK T d) (h1 : T ≤ T'') (h2 : T' ≤ T'')
    (hu : updGrowth gr T' d = .ok d') : HeadOK T'' d' := by
  unfold updGrowth at hu
  split at hu
  · obtain ⟨d1, hd1, hu⟩ := RV.bind_ok.1 hu
    rw [RV.pure_ok] at hu
    subst hu
    exact modifyHead_headOK (epochResolve_headOK h h1 h2 hd1) (fun e => rfl)
  · rw [RV.pure_ok] at hu; subst hu; exact h.mono h1

theorem updSize_headOK {size : Sz} {reset : Bool} {T T' T'' : Q} {d d' : BDeme} (h : HeadOK T d)
    (h1 : T ≤ T'') (h2 : T' ≤ T'') (hu : updSize size reset T' d = .ok d') : HeadOK T'' d' := by
  unfold updSize at hu
  split at hu
  · obtain ⟨d1, hd1, hu⟩ := RV.bind_ok.1 hu
    rw [RV.pure_ok] at hu
    subst hu
    refine modifyHead_headOK (epochResolve_headOK h h1 h2 hd1) (fun e => ?_)
    cases reset <;> rfl
  · rw [RV.pure_ok] at hu; subst hu; exact h.mono h1

/-- a property of all demes across `forLiveDemes` -/
theorem forLive_all {s s' : BState} {f : BDeme → Except Err BDeme} {P R : BDeme → Prop}
    (hf : forLiveDemes s f = .ok s') (hP : ∀ d ∈ s.demes, P d) (hkeep : ∀ d, P d → R d)
    (hupd : ∀ d d', P d → f d = .ok d' → R d') : ∀ d' ∈ s'.demes, R d' := by
  obtain ⟨_, hl, hi⟩ := forLiveDemes_ok hf
  intro d' hd'
  obtain ⟨i, hlt, rfl⟩ := List.mem_iff_getElem.mp hd'
  have hlt' : i < s.demes.length := by omega
  obtain ⟨d'', hd'', hc⟩ := hi i _ (List.getElem?_eq_getElem hlt')
  rw [List.getElem?_eq_getElem hlt] at hd''
  cases hd''
  have hp := hP _ (List.getElem_mem hlt')
  split at hc
  · rw [hc]; exact hkeep _ hp
  · exact hupd _ _ hp hc

/-- a property of all demes across `modifyDeme` -/
theorem modifyDeme_all {s s' : BState} {pid : Nat} {f : BDeme → Except Err BDeme} {P R : BDeme → Prop}
    (hf : modifyDeme s pid f = .ok s') (hP : ∀ d ∈ s.demes, P d) (hkeep : ∀ d, P d → R d)
    (hupd : ∀ d d', P d → f d = .ok d' → R d') : ∀ d' ∈ s'.demes, R d' := by
  obtain ⟨d, d1, hd, hfd, rfl⟩ := modifyDeme_ok hf
  intro d' hd'
  rcases List.mem_or_eq_of_mem_set hd' with hm | rfl
  · exact hkeep _ (hP _ hm)
  · exact hupd d _ (hP _ (List.mem_of_getElem? hd)) hfd

/-- `num_demes` after one event: unchanged, or one more (`-es`) -/
theorem stepEvent_numDemes {N0 time : Q} {s s' : BState} {g g' : GState} {ev : Event Num}
    (h : stepEvent N0 time (s, g) ev = .ok (s', g')) :
    s'.numDemes = s.numDemes + (if isSplit ev then 1 else 0) := by
  cases ev with
  | growthRateChange o t alpha =>
    rw [stepEvent_growthAll] at h
    obtain ⟨a, _, h⟩ := RV.bind_ok.1 h
    obtain ⟨s1, h1, h⟩ := RV.bind_ok.1 h
    cases h
    rw [(forLiveDemes_ok h1).1]; rfl
  | popGrowthRateChange o t i alpha =>
    rw [stepEvent_growth] at h
    obtain ⟨pid, _, h⟩ := RV.bind_ok.1 h
    obtain ⟨a, _, h⟩ := RV.bind_ok.1 h
    obtain ⟨s1, h1, h⟩ := RV.bind_ok.1 h
    cases h
    obtain ⟨_, _, _, _, rfl⟩ := modifyDeme_ok h1
    rfl
  | sizeChange o t x =>
    rw [stepEvent_sizeAll] at h
    obtain ⟨a, _, h⟩ := RV.bind_ok.1 h
    obtain ⟨s1, h1, h⟩ := RV.bind_ok.1 h
    cases h
    rw [(forLiveDemes_ok h1).1]; rfl
  | popSizeChange o t i x =>
    rw [stepEvent_size] at h
    obtain ⟨pid, _, h⟩ := RV.bind_ok.1 h
    obtain ⟨a, _, h⟩ := RV.bind_ok.1 h
    obtain ⟨s1, h1, h⟩ := RV.bind_ok.1 h
    cases h
    obtain ⟨_, _, _, _, rfl⟩ := modifyDeme_ok h1
    rfl
  | migRateChange o t x =>
    rw [stepEvent_migAll] at h
    cases h
    exact (migAllState_frame s time x).2.1
  | migEntryChange o t i j rate =>
    rw [stepEvent_migEntry] at h
    obtain ⟨pi, _, h⟩ := RV.bind_ok.1 h
    obtain ⟨pj, _, h⟩ := RV.bind_ok.1 h
    split at h
    · exact (RV.valueErr_bind_ok.1 h).elim
    · cases h
      exact (migEntryState_frame s time pi pj rate).2.1
  | migMatrixChange o t npop mm =>
    rw [stepEvent_migMatrix] at h
    dsimp only at h
    generalize (if o = "-ma" then (s.numDemes : Int) else npop) = np at h
    split at h
    · exact (RV.valueErr_bind_ok.1 h).elim
    · obtain ⟨m, _, h⟩ := RV.bind_ok.1 h
      cases h
      exact (migMatrixState_frame s time m).2.1
  | join o t i j =>
    rw [stepEvent_join] at h
    obtain ⟨pi, _, h⟩ := RV.bind_ok.1 h
    obtain ⟨pj, _, h⟩ := RV.bind_ok.1 h
    obtain ⟨s1, h1, h⟩ := RV.bind_ok.1 h
    cases h
    obtain ⟨_, _, _, _, rfl⟩ := modifyDeme_ok h1
    exact (joinMatrix_frame _ time pi).2.1
  | split o t i p =>
    rw [stepEvent_split] at h
    obtain ⟨pid, _, h⟩ := RV.bind_ok.1 h
    obtain ⟨q, _, h⟩ := RV.bind_ok.1 h
    split at h
    · exact (assertionErr_bind_ok.1 h).elim
    · cases h
      rfl

/-- **`EpochsOK` along one event** at time `T'`: it holds afterwards at any time that is at least
the old bound and at least `T'` -/
theorem stepEvent_epochsOK {N0 T T' T'' : Q} {s s' : BState} {g g' : GState} {ev : Event Num}
    (hE : EpochsOK T s) (h1 : T ≤ T'') (h2 : T' ≤ T'')
    (h : stepEvent N0 T' (s, g) ev = .ok (s', g')) : EpochsOK T'' s' := by
  have hE' : ∀ d ∈ s.demes, HeadOK T d := hE
  show ∀ d ∈ s'.demes, HeadOK T'' d
  cases ev with
  | growthRateChange o t alpha =>
    rw [stepEvent_growthAll] at h
    obtain ⟨a, _, h⟩ := RV.bind_ok.1 h
    obtain ⟨s1, hs1, h⟩ := RV.bind_ok.1 h
    cases h
    exact forLive_all hs1 hE' (fun d hd => hd.mono h1) (fun d d' hd hu => updGrowth_headOK hd h1 h2 hu)
  | popGrowthRateChange o t i alpha =>
    rw [stepEvent_growth] at h
    obtain ⟨pid, _, h⟩ := RV.bind_ok.1 h
    obtain ⟨a, _, h⟩ := RV.bind_ok.1 h
    obtain ⟨s1, hs1, h⟩ := RV.bind_ok.1 h
    cases h
    exact modifyDeme_all hs1 hE' (fun d hd => hd.mono h1) (fun d d' hd hu => updGrowth_headOK hd h1 h2 hu)
  | sizeChange o t x =>
    rw [stepEvent_sizeAll] at h
    obtain ⟨a, _, h⟩ := RV.bind_ok.1 h
    obtain ⟨s1, hs1, h⟩ := RV.bind_ok.1 h
    cases h
    exact forLive_all hs1 hE' (fun d hd => hd.mono h1) (fun d d' hd hu => updSize_headOK hd h1 h2 hu)
  | popSizeChange o t i x =>
    rw [stepEvent_size] at h
    obtain ⟨pid, _, h⟩ := RV.bind_ok.1 h
    obtain ⟨a, _, h⟩ := RV.bind_ok.1 h
    obtain ⟨s1, hs1, h⟩ := RV.bind_ok.1 h
    cases h
    exact modifyDeme_all hs1 hE' (fun d hd => hd.mono h1) (fun d d' hd hu => updSize_headOK hd h1 h2 hu)
  | migRateChange o t x =>
    rw [stepEvent_migAll] at h
    cases h
    rw [(migAllState_frame s T' x).1]
    exact fun d hd => (hE' d hd).mono h1
  | migEntryChange o t i j rate =>
    rw [stepEvent_migEntry] at h
    obtain ⟨pi, _, h⟩ := RV.bind_ok.1 h
    obtain ⟨pj, _, h⟩ := RV.bind_ok.1 h
    split at h
    · exact (RV.valueErr_bind_ok.1 h).elim
    · cases h
      rw [(migEntryState_frame s T' pi pj rate).1]
      exact fun d hd => (hE' d hd).mono h1
  | migMatrixChange o t npop mm =>
    rw [stepEvent_migMatrix] at h
    dsimp only at h
    generalize (if o = "-ma" then (s.numDemes : Int) else npop) = np at h
    split at h
    · exact (RV.valueErr_bind_ok.1 h).elim
    · obtain ⟨m, _, h⟩ := RV.bind_ok.1 h
      cases h
      rw [(migMatrixState_frame s T' m).1]
      exact fun d hd => (hE' d hd).mono h1
  | join o t i j =>
    rw [stepEvent_join] at h
    obtain ⟨pi, _, h⟩ := RV.bind_ok.1 h
    obtain ⟨pj, _, h⟩ := RV.bind_ok.1 h
    obtain ⟨s1, hs1, h⟩ := RV.bind_ok.1 h
    cases h
    show ∀ d ∈ (joinMatrix s1 T' pi).demes, HeadOK T'' d
    rw [(joinMatrix_frame s1 T' pi).1]
    refine modifyDeme_all hs1 hE' (fun d hd => hd.mono h1) (fun d d' hd hu => ?_)
    rw [joinDeme_ok hu]
    exact hd.mono h1
  | split o t i p =>
    rw [stepEvent_split] at h
    obtain ⟨pid, _, h⟩ := RV.bind_ok.1 h
    obtain ⟨q, _, h⟩ := RV.bind_ok.1 h
    split at h
    · exact (assertionErr_bind_ok.1 h).elim
    · cases h
      show ∀ d ∈ s.demes ++ [newDeme N0 T' s.numDemes], HeadOK T'' d
      intro d hd
      rcases List.mem_append.mp hd with hd | hd
      · exact (hE' d hd).mono h1
      · rw [List.mem_singleton] at hd
        subst hd
        exact ⟨_, _, rfl, h2⟩

/-! ## `LmOK` along one event -/

theorem getD_set_ne {l : List Q} {i k : Nat} {v : Q} (h : i ≠ k) : (l.set i v).getD k 0 = l.getD k 0 := by
  simp only [List.getD_eq_getElem?_getD, List.getElem?_set, h, if_false]

theorem stepEvent_lmOK {N0 time : Q} {s s' : BState} {g g' : GState} {ev : Event Num}
    (hL : LmOK s g) (h : stepEvent N0 time (s, g) ev = .ok (s', g')) : LmOK s' g' := by
  have hn := stepEvent_numDemes h
  cases ev with
  | growthRateChange o t alpha =>
    rw [stepEvent_growthAll] at h
    obtain ⟨a, _, h⟩ := RV.bind_ok.1 h
    obtain ⟨s1, h1, h⟩ := RV.bind_ok.1 h
    cases h
    intro row hr k hk
    exact hL row hr k (by rw [hn] at hk; simpa [isSplit] using hk)
  | popGrowthRateChange o t i alpha =>
    rw [stepEvent_growth] at h
    obtain ⟨pid, _, h⟩ := RV.bind_ok.1 h
    obtain ⟨a, _, h⟩ := RV.bind_ok.1 h
    obtain ⟨s1, h1, h⟩ := RV.bind_ok.1 h
    cases h
    intro row hr k hk
    exact hL row hr k (by rw [hn] at hk; simpa [isSplit] using hk)
  | sizeChange o t x =>
    rw [stepEvent_sizeAll] at h
    obtain ⟨a, _, h⟩ := RV.bind_ok.1 h
    obtain ⟨s1, h1, h⟩ := RV.bind_ok.1 h
    cases h
    intro row hr k hk
    exact hL row hr k (by rw [hn] at hk; simpa [isSplit] using hk)
  | popSizeChange o t i x =>
    rw [stepEvent_size] at h
    obtain ⟨pid, _, h⟩ := RV.bind_ok.1 h
    obtain ⟨a, _, h⟩ := RV.bind_ok.1 h
    obtain ⟨s1, h1, h⟩ := RV.bind_ok.1 h
    cases h
    intro row hr k hk
    exact hL row hr k (by rw [hn] at hk; simpa [isSplit] using hk)
  | migRateChange o t x =>
    rw [stepEvent_migAll] at h
    cases h
    intro row hr k hk
    exact hL row hr k (by rw [hn] at hk; simpa [isSplit] using hk)
  | migEntryChange o t i j rate =>
    rw [stepEvent_migEntry] at h
    obtain ⟨pi, _, h⟩ := RV.bind_ok.1 h
    obtain ⟨pj, _, h⟩ := RV.bind_ok.1 h
    split at h
    · exact (RV.valueErr_bind_ok.1 h).elim
    · cases h
      intro row hr k hk
      exact hL row hr k (by rw [hn] at hk; simpa [isSplit] using hk)
  | migMatrixChange o t npop mm =>
    rw [stepEvent_migMatrix] at h
    dsimp only at h
    generalize (if o = "-ma" then (s.numDemes : Int) else npop) = np at h
    split at h
    · exact (RV.valueErr_bind_ok.1 h).elim
    · obtain ⟨m, _, h⟩ := RV.bind_ok.1 h
      cases h
      intro row hr k hk
      exact hL row hr k (by rw [hn] at hk; simpa [isSplit] using hk)
  | join o t i j =>
    rw [stepEvent_join] at h
    obtain ⟨pi, hI, h⟩ := RV.bind_ok.1 h
    obtain ⟨pj, hJ, h⟩ := RV.bind_ok.1 h
    obtain ⟨s1, h1, h⟩ := RV.bind_ok.1 h
    cases h
    obtain ⟨_, _, _, qI, _⟩ := convertPopulationId_ok hI
    obtain ⟨_, _, _, qJ, _⟩ := convertPopulationId_ok hJ
    intro row hr k hk
    have hk' : s.numDemes ≤ k := by rw [hn] at hk; simpa [isSplit] using hk
    change row ∈ joinLm g.lm pi pj at hr
    unfold joinLm at hr
    obtain ⟨row0, hr0, rfl⟩ := List.mem_map.mp hr
    dsimp only
    rw [getD_set_ne (by omega), getD_set_ne (by omega)]
    exact hL row0 hr0 k hk'
  | split o t i p =>
    rw [stepEvent_split] at h
    obtain ⟨pid, hI, h⟩ := RV.bind_ok.1 h
    obtain ⟨q, _, h⟩ := RV.bind_ok.1 h
    split at h
    · exact (assertionErr_bind_ok.1 h).elim
    · cases h
      obtain ⟨_, _, _, qI, _⟩ := convertPopulationId_ok hI
      intro row hr k hk
      have hk' : s.numDemes + 1 ≤ k := hk
      change row ∈ splitLm g.lm pid s.numDemes q at hr
      unfold splitLm at hr
      obtain ⟨row0, hr0, rfl⟩ := List.mem_map.mp hr
      dsimp only
      rw [getD_set_ne (by omega), getD_set_ne (by omega)]
      exact hL row0 hr0 k (by omega)

/-- the initial `lineage_movements` of a time group -/
theorem initial_lmOK (s : BState) (n : Nat) (params : List (Nat × Nat × Q)) :
    LmOK s { lm := (List.range n).map (fun j => (List.range n).map (fun k =>
      if j = k && j < s.numDemes then (1 : Q) else 0)), params := params } := by
  intro row hr k hk
  obtain ⟨j, _, rfl⟩ := List.mem_map.mp hr
  rw [List.getD_eq_getElem?_getD, List.getElem?_map]
  by_cases hkn : k < n
  · rw [List.getElem?_range hkn]
    have : ¬ (j = k ∧ j < s.numDemes) := by omega
    simp [this]
  · rw [List.getElem?_eq_none_iff.mpr (by simp; omega)]
    rfl

/-! ## the invariants along a time group and the whole loop (Model only) -/

theorem epochsOK_of_map {T : Q} {s s' : BState} (h : EpochsOK T s)
    (he : s'.demes.map (fun d => (d.epochs, d.startTime)) = s.demes.map (fun d => (d.epochs, d.startTime))) :
    EpochsOK T s' := by
  intro d' hd'
  have : (d'.epochs, d'.startTime) ∈ s'.demes.map (fun d => (d.epochs, d.startTime)) :=
    List.mem_map.mpr ⟨d', hd', rfl⟩
  rw [he] at this
  obtain ⟨d, hd, hdd⟩ := List.mem_map.mp this
  have : d.epochs = d'.epochs := congrArg Prod.fst hdd
  rw [← this]
  exact h d hd

theorem events_epochsOK {N0 T' T'' : Q} {evs : List (Event Num)} {s s' : BState} {g g' : GState}
    (hE : EpochsOK T'' s) (h2 : T' ≤ T'') (h : evs.foldlM (stepEvent N0 T') (s, g) = .ok (s', g')) :
    EpochsOK T'' s' :=
  RV.foldlM_inv (fun (sg : BState × GState) => EpochsOK T'' sg.1) _
    (fun a ev b ha hst => by
      obtain ⟨a1, a2⟩ := a
      obtain ⟨b1, b2⟩ := b
      exact stepEvent_epochsOK ha Rat.le_refl h2 hst) _ _ _ hE h

theorem events_numDemes_le {N0 T' : Q} {evs : List (Event Num)} {s s' : BState} {g g' : GState}
    (h : evs.foldlM (stepEvent N0 T') (s, g) = .ok (s', g')) : s.numDemes ≤ s'.numDemes :=
  RV.foldlM_inv (fun (sg : BState × GState) => s.numDemes ≤ sg.1.numDemes) _
    (fun a ev b ha hst => by
      obtain ⟨a1, a2⟩ := a
      obtain ⟨b1, b2⟩ := b
      have := stepEvent_numDemes hst
      dsimp only at ha ⊢
      omega) _ _ _ (Nat.le_refl _) h

/-- one time group (Model only): the group has a finite time `t`; afterwards `EpochsOK` holds at
any bound that is at least the old one and at least `4·N0·t`; `num_demes` does not decrease -/
theorem stepGroup_epochsOK {N0 T : Q} {s s' : BState} {group : List (Event Num)}
    (hE : EpochsOK T s) (h : Ms.stepGroup N0 s group = .ok s') :
    ∃ t, finArg "t" ((group.head?.map Event.t).getD (.fin 0)) = .ok t ∧
      (∀ T'', T ≤ T'' → 4 * N0 * t ≤ T'' → EpochsOK T'' s') := by
  unfold Ms.stepGroup at h
  obtain ⟨t, ht, h⟩ := RV.bind_ok.1 h
  dsimp only at h
  obtain ⟨⟨s1, g1⟩, hfold, h⟩ := RV.bind_ok.1 h
  cases h
  obtain ⟨e1, e2, _⟩ := applyParams_epochs (4 * N0 * t) s1 g1
  exact ⟨t, ht, fun T'' h1 h2 => epochsOK_of_map (events_epochsOK (hE.mono h1) h2 hfold) e1⟩

theorem stepGroup_numDemes_le {N0 : Q} {s s' : BState} {group : List (Event Num)}
    (h : Ms.stepGroup N0 s group = .ok s') : s.numDemes ≤ s'.numDemes := by
  unfold Ms.stepGroup at h
  obtain ⟨t, ht, h⟩ := RV.bind_ok.1 h
  dsimp only at h
  obtain ⟨⟨s1, g1⟩, hfold, h⟩ := RV.bind_ok.1 h
  cases h
  rw [(applyParams_epochs (4 * N0 * t) s1 g1).2.1]
  exact events_numDemes_le hfold

theorem initState_epochsOK (args : Args) (N0 : Q) : EpochsOK 0 (initState args N0) := by
  intro d hd
  unfold initState at hd
  obtain ⟨j, _, rfl⟩ := List.mem_map.mp hd
  exact ⟨_, _, rfl, Rat.le_refl⟩

/-- **every deme has a head epoch at the end of the event loop** (`T` bounds their end times) -/
theorem buildState_epochsOK {args : Args} {N0 : Q} {s : BState} (h : buildState args N0 = .ok s) :
    ∃ T, EpochsOK T s := by
  unfold buildState at h
  split at h
  · exact (RV.valueErr_bind_ok.1 h).elim
  · obtain ⟨_, _, h⟩ := RV.bind_ok.1 h
    refine RV.foldlM_inv (fun s => ∃ T, EpochsOK T s) _ (fun a gr b ha hst => ?_) _ _ _
      ⟨0, initState_epochsOK args N0⟩ h
    obtain ⟨T, hT⟩ := ha
    obtain ⟨t, _, hb⟩ := stepGroup_epochsOK hT hst
    rcases Rat.le_total (a := T) (b := 4 * N0 * t) with hle | hle
    · exact ⟨4 * N0 * t, hb _ hle Rat.le_refl⟩
    · exact ⟨T, hb _ Rat.le_refl hle⟩

/-- `num_demes` never decreases -/
theorem buildState_numDemes_ge {args : Args} {N0 : Q} {s : BState} (h : buildState args N0 = .ok s) :
    (initPop args).1 ≤ s.numDemes := by
  unfold buildState at h
  split at h
  · exact (RV.valueErr_bind_ok.1 h).elim
  · obtain ⟨_, _, h⟩ := RV.bind_ok.1 h
    refine RV.foldlM_inv (fun s => (initPop args).1 ≤ s.numDemes) _ (fun a gr b ha hst => ?_) _ _ _
      (Nat.le_refl _) h
    exact Nat.le_trans ha (stepGroup_numDemes_le hst)

/-! ## when the helpers of the event loop succeed -/

theorem epochResolve_progress {d : BDeme} {T : Q} (h : HeadOK T d) (hs : d.startTime = .inf) :
    ∃ d', epochResolve d T = .ok d' := by
  obtain ⟨e, r, he, hle⟩ := h
  unfold epochResolve
  rw [he]
  dsimp only
  have hc : (decide (ETime.fin T < d.startTime) && decide (e.endTime ≤ T)) = true := by
    rw [hs]
    simp only [Bool.and_eq_true, decide_eq_true_eq]
    exact ⟨trivial, hle⟩
  rw [hc]
  simp only [Bool.not_true, Bool.false_eq_true, if_false]
  split
  · exact ⟨_, rfl⟩
  · exact ⟨_, rfl⟩

theorem updGrowth_progress {gr T : Q} {d : BDeme} (h : HeadOK T d) (hs : d.startTime = .inf) :
    ∃ d', updGrowth gr T d = .ok d' := by
  unfold updGrowth
  split
  · obtain ⟨d1, h1⟩ := epochResolve_progress h hs
    exact ⟨_, RV.bind_ok.2 ⟨d1, h1, rfl⟩⟩
  · exact ⟨d, rfl⟩

theorem updSize_progress {size : Sz} {reset : Bool} {T : Q} {d : BDeme} (h : HeadOK T d)
    (hs : d.startTime = .inf) : ∃ d', updSize size reset T d = .ok d' := by
  unfold updSize
  split
  · obtain ⟨d1, h1⟩ := epochResolve_progress h hs
    exact ⟨_, RV.bind_ok.2 ⟨d1, h1, rfl⟩⟩
  · exact ⟨d, rfl⟩

theorem mapM_live_progress (joined : List Nat) (f : BDeme → Except Err BDeme) :
    ∀ (l : List BDeme) (k : Nat),
      (∀ i d, l[i]? = some d → joined.contains (k + i) = false → ∃ d', f d = .ok d') →
      ∃ l', (l.zipIdx k).mapM (fun (dj : BDeme × Nat) => if joined.contains dj.2 then pure dj.1 else f dj.1)
        = .ok l' := by
  intro l
  induction l with
  | nil => intro k _; exact ⟨[], rfl⟩
  | cons x l ih =>
    intro k h
    have hy : ∃ y, (if joined.contains k then pure x else f x) = Except.ok y := by
      by_cases hk : joined.contains k = true
      · rw [if_pos hk]; exact ⟨x, rfl⟩
      · rw [if_neg hk]
        exact h 0 x rfl (by simpa using hk)
    obtain ⟨y, hy⟩ := hy
    obtain ⟨ys, hys⟩ := ih (k + 1) (fun i d hd hj => h (i + 1) d (by simpa using hd) (by
      have : k + (i + 1) = k + 1 + i := by omega
      rw [this]; exact hj))
    refine ⟨y :: ys, ?_⟩
    rw [List.zipIdx_cons, List.mapM_cons]
    exact RV.bind_ok.2 ⟨y, hy, RV.bind_ok.2 ⟨ys, hys, rfl⟩⟩

theorem forLiveDemes_progress {s : BState} {f : BDeme → Except Err BDeme}
    (h : ∀ i d, s.demes[i]? = some d → s.joined.contains i = false → ∃ d', f d = .ok d') :
    ∃ s', forLiveDemes s f = .ok s' := by
  unfold forLiveDemes
  obtain ⟨ds, hds⟩ := mapM_live_progress s.joined f s.demes 0 (fun i d hd hj => h i d hd (by simpa using hj))
  exact ⟨_, RV.bind_ok.2 ⟨ds, hds, rfl⟩⟩

theorem modifyDeme_progress {s : BState} {pid : Nat} {f : BDeme → Except Err BDeme} {d d' : BDeme}
    (hd : s.demes[pid]? = some d) (hf : f d = .ok d') : ∃ s', modifyDeme s pid f = .ok s' := by
  unfold modifyDeme
  rw [hd]
  exact ⟨_, RV.bind_ok.2 ⟨d', hf, rfl⟩⟩

theorem convertPopulationId_progress {s : BState} {i : Int} (h1 : 1 ≤ i) (h2 : i ≤ (s.numDemes : Int))
    (hj : s.joined.contains (i - 1).toNat = false) : convertPopulationId s i = .ok (i - 1).toNat := by
  unfold convertPopulationId
  have hc : ¬ ((decide (i < 1) || decide (i > (s.numDemes : Int))) = true) := by
    simp only [Bool.or_eq_true, decide_eq_true_eq, not_or, Int.not_lt]
    exact ⟨h1, by omega⟩
  rw [if_neg hc]
  dsimp only
  rw [hj]
  rfl

theorem matrixOf_progress {n : Nat} {mm : List String} (h : mm.length = n * n) :
    ∃ m, matrixOf (n : Int) mm = .ok m := by
  unfold matrixOf
  simp only [Int.toNat_natCast]
  rw [if_neg (by simpa using h)]
  exact ⟨_, rfl⟩

/-! ## what the interpreter's checks say about the Builder state -/

/-- the demes `epoch_resolve` is called on: not joined, hence with `start_time = ∞`, and with a
head epoch that ends at or before the time of the event -/
def LiveOK (T' : Q) (s : BState) : Prop :=
  ∀ j d, s.demes[j]? = some d → s.joined.contains j = false → HeadOK T' d ∧ d.startTime = .inf

theorem liveOK_of_sim {T T' : Q} {s : BState} {σ : St} (h : SizeSim T s σ) (hE : EpochsOK T s) (hT : T ≤ T') :
    LiveOK T' s := by
  intro j d hd hj
  have hlt : j < σ.pops.length := by rw [← h.len]; exact (List.getElem?_eq_some_iff.mp hd).1
  obtain ⟨r1, _, _, r4⟩ := h.rel j d _ hd (List.getElem?_eq_getElem hlt)
  refine ⟨HeadOK.mono (hE d (List.mem_of_getElem? hd)) hT, ?_⟩
  rw [r1.2.2]
  rw [hj] at r4
  have : alive σ.pops[j] = true := by
    cases ha : alive σ.pops[j]
    · rw [ha] at r4; cases r4
    · rfl
  unfold alive at this
  simpa using this

/-- a population the interpreter finds available is one `convert_population_id` accepts -/
theorem convert_of_pop {T : Q} {s : BState} {σ : St} (h : SizeSim T s σ) {i : Int} {p : Pop}
    (hp : σ.pop i.toNat = .ok p) :
    convertPopulationId s i = .ok (i.toNat - 1) ∧ (∃ d, s.demes[i.toNat - 1]? = some d) ∧
      s.joined.contains (i.toNat - 1) = false ∧ 1 ≤ i := by
  obtain ⟨p1, p2, p3⟩ := pop_ok hp
  have hlt : i.toNat - 1 < σ.pops.length := (List.getElem?_eq_some_iff.mp p2).1
  have hltd : i.toNat - 1 < s.demes.length := by rw [h.len]; exact hlt
  obtain ⟨_, _, _, r4⟩ := h.rel _ _ p (List.getElem?_eq_getElem hltd) p2
  rw [p3] at r4
  have hi : 1 ≤ i := by omega
  have hidx : (i - 1).toNat = i.toNat - 1 := by omega
  have hc := convertPopulationId_progress (s := s) hi (by rw [h.num]; omega) (by rw [hidx]; exact r4)
  rw [hidx] at hc
  exact ⟨hc, ⟨_, List.getElem?_eq_getElem hltd⟩, r4, hi⟩

theorem step_setMigMatrix_checks {N0 : Q} {σ σ' : St} {L L' : List (Nat × Row)} {t : Q} {npop : Option Nat}
    {entries : List String} (h : Spec.MsSem.step N0 (σ, L) (.setMigMatrix t npop entries) = .ok (σ', L')) :
    (∀ k, npop = some k → k = σ.pops.length) ∧ entries.length = σ.pops.length * σ.pops.length := by
  simp only [Spec.MsSem.step] at h
  refine ⟨?_, ?_⟩
  · intro k hk
    subst hk
    dsimp only at h
    split at h
    · exact (sthrow_bind_ok.1 h).elim
    · rename_i hc; exact Classical.not_not.mp hc
  · repeat' split at h
    all_goals first
      | exact (sthrow_bind_ok.1 h).elim
      | (rename_i hc; exact Classical.not_not.mp hc)

/-! ## one event -/

/-- **progress, one event**: in corresponding states (`SizeSim`), with the two Model invariants,
an option that the ms interpreter accepts at a time `T' ≥ T` is accepted by the event loop -/
theorem stepEvent_progress {N0 T T' : Q} {s : BState} {g : GState} {σ σ' : St}
    {L L' : List (Nat × Row)} {ev : Event Num} {c : Cmd}
    (h : SizeSim T s σ) (hE : EpochsOK T s) (hL : LmOK s g) (hpos : 1 ≤ s.numDemes) (hT : T ≤ T')
    (hc : cmdOf ev = some c) (hs : Spec.MsSem.step N0 (σ, L) c = .ok (σ', L')) :
    ∃ s' g', stepEvent N0 T' (s, g) ev = .ok (s', g') := by
  have hlive := liveOK_of_sim h hE hT
  cases ev with
  | growthRateChange o t alpha =>
    obtain ⟨tq, a, rfl, rfl, rfl⟩ := cmdOf_growthAll hc
    rw [stepEvent_growthAll]
    obtain ⟨s1, h1⟩ := forLiveDemes_progress (s := s) (f := updGrowth (a / (4 * N0)) T')
      (fun i d hd hj => updGrowth_progress (hlive i d hd hj).1 (hlive i d hd hj).2)
    exact ⟨s1, g, RV.bind_ok.2 ⟨a, rfl, RV.bind_ok.2 ⟨s1, h1, rfl⟩⟩⟩
  | popGrowthRateChange o t i alpha =>
    obtain ⟨tq, a, rfl, rfl, rfl⟩ := cmdOf_growth hc
    rw [step_setGrowth] at hs
    obtain ⟨p, hp, _⟩ := sbind_ok.1 hs
    obtain ⟨hconv, ⟨d, hd⟩, hj, _⟩ := convert_of_pop h hp
    obtain ⟨d', hd'⟩ := updGrowth_progress (gr := a / (4 * N0)) (hlive _ d hd hj).1 (hlive _ d hd hj).2
    obtain ⟨s1, h1⟩ := modifyDeme_progress hd hd'
    rw [stepEvent_growth]
    exact ⟨s1, g, RV.bind_ok.2 ⟨_, hconv, RV.bind_ok.2 ⟨a, rfl, RV.bind_ok.2 ⟨s1, h1, rfl⟩⟩⟩⟩
  | sizeChange o t x =>
    obtain ⟨tq, a, rfl, rfl, rfl⟩ := cmdOf_sizeAll hc
    rw [stepEvent_sizeAll]
    obtain ⟨s1, h1⟩ := forLiveDemes_progress (s := s) (f := updSize (Sz.ofQ (a * N0)) true T')
      (fun i d hd hj => updSize_progress (hlive i d hd hj).1 (hlive i d hd hj).2)
    exact ⟨s1, g, RV.bind_ok.2 ⟨a, rfl, RV.bind_ok.2 ⟨s1, h1, rfl⟩⟩⟩
  | popSizeChange o t i x =>
    obtain ⟨tq, a, rfl, rfl, rfl⟩ := cmdOf_size hc
    rw [step_setSize] at hs
    obtain ⟨p, hp, _⟩ := sbind_ok.1 hs
    obtain ⟨hconv, ⟨d, hd⟩, hj, _⟩ := convert_of_pop h hp
    obtain ⟨d', hd'⟩ := updSize_progress (size := Sz.ofQ (a * N0)) (reset := decide (o = "-en"))
      (hlive _ d hd hj).1 (hlive _ d hd hj).2
    obtain ⟨s1, h1⟩ := modifyDeme_progress hd hd'
    rw [stepEvent_size]
    exact ⟨s1, g, RV.bind_ok.2 ⟨_, hconv, RV.bind_ok.2 ⟨a, rfl, RV.bind_ok.2 ⟨s1, h1, rfl⟩⟩⟩⟩
  | migRateChange o t x =>
    rw [stepEvent_migAll]
    exact ⟨_, _, rfl⟩
  | migEntryChange o t i j rate =>
    obtain ⟨tq, a, rfl, rfl, rfl⟩ := cmdOf_migEntry hc
    obtain ⟨⟨pi, hpi⟩, ⟨pj, hpj⟩, hij, _⟩ := step_setMigEntry_ok hs
    obtain ⟨hci, _, _, hi1⟩ := convert_of_pop h hpi
    obtain ⟨hcj, _, _, hj1⟩ := convert_of_pop h hpj
    rw [stepEvent_migEntry]
    have hne : ¬ (i.toNat - 1 = j.toNat - 1) := by omega
    refine ⟨migEntryState s T' (i.toNat - 1) (j.toNat - 1) (.fin a), g,
      RV.bind_ok.2 ⟨_, hci, RV.bind_ok.2 ⟨_, hcj, ?_⟩⟩⟩
    dsimp only
    rw [if_neg hne]
    rfl
  | migMatrixChange o t npop mm =>
    obtain ⟨tq, rfl, rfl⟩ := cmdOf_migMatrix hc
    obtain ⟨hk, hlen⟩ := step_setMigMatrix_checks hs
    rw [← h.num] at hk hlen
    rw [stepEvent_migMatrix]
    dsimp only
    have hnp : (if o = "-ma" then (s.numDemes : Int) else npop) = (s.numDemes : Int) := by
      by_cases ho : o = "-ma"
      · rw [if_pos ho]
      · rw [if_neg ho]
        have := hk npop.toNat (by rw [if_neg ho])
        omega
    rw [hnp]
    obtain ⟨m, hm⟩ := matrixOf_progress hlen
    rw [if_neg (by simp)]
    exact ⟨_, g, RV.bind_ok.2 ⟨m, hm, rfl⟩⟩
  | join o t i j =>
    obtain ⟨tq, rfl, rfl⟩ := cmdOf_join hc
    obtain ⟨q, hq, ⟨q', hq'⟩, _, _⟩ := step_join_ok hs
    obtain ⟨hci, ⟨d, hd⟩, _, _⟩ := convert_of_pop h hq
    obtain ⟨hcj, _, _, _⟩ := convert_of_pop h hq'
    obtain ⟨s1, h1⟩ := modifyDeme_progress (f := joinDeme T' (j.toNat - 1)) hd rfl
    rw [stepEvent_join]
    exact ⟨_, _, RV.bind_ok.2 ⟨_, hci, RV.bind_ok.2 ⟨_, hcj, RV.bind_ok.2 ⟨s1, h1, rfl⟩⟩⟩⟩
  | split o t i p =>
    obtain ⟨tq, a, rfl, rfl, rfl⟩ := cmdOf_split hc
    obtain ⟨⟨q, hq⟩, _⟩ := step_split_ok hs
    obtain ⟨hci, _, _, _⟩ := convert_of_pop h hq
    rw [stepEvent_split]
    refine ⟨splitState N0 T' s, GState.mk (splitLm g.lm (i.toNat - 1) s.numDemes a)
        (g.params ++ [(i.toNat - 1, s.numDemes, 1 - a)]),
      RV.bind_ok.2 ⟨_, hci, RV.bind_ok.2 ⟨a, rfl, ?_⟩⟩⟩
    dsimp only
    have hany : (g.lm.any (fun row => row.getD s.numDemes 0 ≠ 0)) = false := by
      rw [List.any_eq_false]
      intro row hr
      simp only [ne_eq, decide_not, Bool.not_eq_true', decide_eq_false_iff_not, Decidable.not_not]
      exact hL row hr _ (Nat.le_refl _)
    rw [hany]
    rfl

/-! ## the events of one time group -/

theorem events_progress {N0 T' : Q} : ∀ (evs : List (Event Num)) {T : Q} {s : BState} {g : GState} {σ σ' : St}
    {L L' : List (Nat × Row)}, SizeSim T s σ → EpochsOK T s → LmOK s g → 1 ≤ s.numDemes → T ≤ T' →
    (∀ e ∈ evs, HasCmd e) → (∀ e ∈ evs, 4 * N0 * (cmdOfD e).t = T') →
    (evs.map cmdOfD).foldlM (Spec.MsSem.step N0) (σ, L) = .ok (σ', L') →
    ∃ s' g', evs.foldlM (stepEvent N0 T') (s, g) = .ok (s', g') := by
  intro evs
  induction evs with
  | nil =>
    intro T s g σ σ' L L' _ _ _ _ _ _ _ _
    exact ⟨s, g, rfl⟩
  | cons e evs ih =>
    intro T s g σ σ' L L' h hE hL hpos hT hall htime hs
    rw [List.map_cons, List.foldlM_cons] at hs
    obtain ⟨⟨σ1, L1⟩, hs1, hs⟩ := sbind_ok.1 hs
    have he := hall e (List.mem_cons_self ..)
    have ht := htime e (List.mem_cons_self ..)
    obtain ⟨s1, g1, h1⟩ := stepEvent_progress (g := g) h hE hL hpos hT he hs1
    have hsim := stepEvent_sizeSim h hT he ht.symm h1 hs1
    have hE1 := stepEvent_epochsOK hE hT Rat.le_refl h1
    have hL1 := stepEvent_lmOK hL h1
    have hpos1 : 1 ≤ s1.numDemes := by have := stepEvent_numDemes h1; omega
    obtain ⟨s', g', h'⟩ := ih hsim hE1 hL1 hpos1 Rat.le_refl (fun x hx => hall x (List.mem_cons_of_mem _ hx))
      (fun x hx => htime x (List.mem_cons_of_mem _ hx)) hs
    refine ⟨s', g', ?_⟩
    rw [List.foldlM_cons]
    exact RV.bind_ok.2 ⟨(s1, g1), h1, h'⟩

/-! ## one time group -/

theorem stepGroup_progress {N0 T T' : Q} {s : BState} {σ σ' : St} {evs : List (Event Num)}
    (h : SizeSim T s σ) (hE : EpochsOK T s) (hpos : 1 ≤ s.numDemes) (hT : T ≤ T')
    (hall : ∀ e ∈ evs, HasCmd e) (htime : ∀ e ∈ evs, 4 * N0 * (cmdOfD e).t = T')
    (hs : Spec.MsSem.stepGroup N0 σ (evs.map cmdOfD) = .ok σ') :
    ∃ s', Ms.stepGroup N0 s evs = .ok s' ∧ SizeSim T' s' σ' ∧ EpochsOK T' s' ∧ 1 ≤ s'.numDemes := by
  have hs0 := hs
  unfold Spec.MsSem.stepGroup at hs
  dsimp only at hs
  obtain ⟨⟨σ1, L1⟩, hsfold, _⟩ := sbind_ok.1 hs
  -- the time of the group
  have htm : ∃ t, finArg "t" ((evs.head?.map Event.t).getD (.fin 0)) = .ok t ∧ (evs ≠ [] → 4 * N0 * t = T') := by
    cases evs with
    | nil => exact ⟨0, rfl, fun hne => absurd rfl hne⟩
    | cons e r =>
      have he := hall e (List.mem_cons_self ..)
      refine ⟨(cmdOfD e).t, ?_, fun _ => htime e (List.mem_cons_self ..)⟩
      simp only [List.head?_cons, Option.map_some, Option.getD_some, hasCmd_t he]
      rfl
  obtain ⟨t, ht, htT⟩ := htm
  have hfold : ∃ s1 g1, evs.foldlM (stepEvent N0 (4 * N0 * t))
      (s, { lm := (List.range (s.numDemes + (evs.filter isSplit).length)).map (fun j =>
              (List.range (s.numDemes + (evs.filter isSplit).length)).map (fun k =>
                if j = k && j < s.numDemes then (1 : Q) else 0)), params := [] }) = .ok (s1, g1) := by
    cases evs with
    | nil => exact ⟨_, _, rfl⟩
    | cons e r =>
      rw [htT (by simp)]
      exact events_progress (e :: r) h hE (initial_lmOK s _ []) hpos hT hall htime hsfold
  obtain ⟨s1, g1, hfold⟩ := hfold
  have hm : Ms.stepGroup N0 s evs = .ok (applyParams (4 * N0 * t) s1 g1) := by
    unfold Ms.stepGroup
    exact RV.bind_ok.2 ⟨t, ht, RV.bind_ok.2 ⟨(s1, g1), hfold, rfl⟩⟩
  refine ⟨_, hm, stepGroup_sizeSim h hT hall htime hm hs0, ?_, ?_⟩
  · obtain ⟨_, ht', hb⟩ := stepGroup_epochsOK hE hm
    rw [ht] at ht'
    cases ht'
    cases evs with
    | nil =>
      cases hfold
      exact epochsOK_of_map (hE.mono hT) (applyParams_epochs _ _ _).1
    | cons e r => exact hb T' hT (by rw [htT (by simp)])
  · exact Nat.le_trans hpos (stepGroup_numDemes_le hm)

/-! ## all time groups -/

theorem groups_progress {N0 : Q} : ∀ (groups : List (List (Event Num))) {T : Q} {s : BState} {σ σ' : St},
    SizeSim T s σ → EpochsOK T s → 1 ≤ s.numDemes → (∀ g ∈ groups, ∀ e ∈ g, HasCmd e) →
    TimesOK N0 T (groups.map (List.map cmdOfD)) →
    (groups.map (List.map cmdOfD)).foldlM (Spec.MsSem.stepGroup N0) σ = .ok σ' →
    ∃ s', groups.foldlM (Ms.stepGroup N0) s = .ok s' := by
  intro groups
  induction groups with
  | nil =>
    intro T s σ σ' _ _ _ _ _ _
    exact ⟨s, rfl⟩
  | cons g rest ih =>
    intro T s σ σ' h hE hpos hall ht hs
    rw [List.map_cons, List.foldlM_cons] at hs
    obtain ⟨σ1, hs1, hs⟩ := sbind_ok.1 hs
    obtain ⟨T', hle, htg, hrest⟩ := ht
    obtain ⟨s1, h1, hsim1, hE1, hpos1⟩ := stepGroup_progress h hE hpos hle (hall g (List.mem_cons_self ..))
      (fun e he => htg _ (List.mem_map.mpr ⟨e, he, rfl⟩)) hs1
    obtain ⟨s', h'⟩ := ih hsim1 hE1 hpos1 (fun g' hg' => hall g' (List.mem_cons_of_mem _ hg')) hrest hs
    refine ⟨s', ?_⟩
    rw [List.foldlM_cons]
    exact RV.bind_ok.2 ⟨s1, h1, h'⟩

/-! ## the whole event loop -/

theorem mapM_eventT_ok : ∀ (l : List (Event Num)), (∀ e ∈ l, HasCmd e) → ∃ ts, l.mapM eventT = .ok ts := by
  intro l
  induction l with
  | nil => intro _; exact ⟨[], rfl⟩
  | cons e l ih =>
    intro hall
    obtain ⟨ts, hts⟩ := ih (fun x hx => hall x (List.mem_cons_of_mem _ hx))
    have he : eventT e = .ok (cmdOfD e).t := by
      unfold eventT
      rw [hasCmd_t (hall e (List.mem_cons_self ..))]
      rfl
    refine ⟨(cmdOfD e).t :: ts, ?_⟩
    rw [List.mapM_cons]
    exact RV.bind_ok.2 ⟨_, he, RV.bind_ok.2 ⟨ts, hts, rfl⟩⟩

/-- **The event loop of `build_graph` never raises on a command the ms interpreter accepts**:
if argparse and the interpreter's parser agree on the command (`ArgsAgree`) and the interpreter
runs it to the end, `buildState` succeeds. -/
theorem buildState_progress {args : Args} {pr : Parsed} {N0 : Q} {σ : St} (hN : 0 < N0)
    (ha : ArgsAgree args pr) (hs : runState pr N0 = .ok σ) : ∃ s, buildState args N0 = .ok s := by
  obtain ⟨hi1, hi2⟩ := agree_list _ _ ha.initial
  obtain ⟨he1, he2⟩ := agree_list _ _ ha.events
  have hall : ∀ e ∈ args.initialState ++ sortBy (fun a b => Num.le a.t b.t) args.demographicEvents, HasCmd e := by
    intro e he
    rcases List.mem_append.mp he with he | he
    · exact hi2 e he
    · exact he2 e ((sortBy_mem _ _ _).mp he)
  have hgroups : cmdGroups pr = (eventGroups args).map (List.map cmdOfD) := by
    unfold cmdGroups eventGroups
    rw [hi1, he1, ← sortBy_cmd _ he2, ← List.map_append]
    exact splitBy_map cmdOfD sameT (fun a b => a.t == b.t) HasCmd (fun x y hx hy => sameT_cmd hx hy) _ hall
  unfold runState at hs
  rw [hgroups] at hs
  have hpos : 1 ≤ (initState args N0).numDemes := by
    have h1 : (initPop args).1 = pr.npop := by rw [initPop_fst]; exact ha.npop
    show 1 ≤ (initPop args).1
    rw [h1]
    exact ha.npos
  obtain ⟨s, hfold⟩ := groups_progress (eventGroups args) (initial_sizeSim args pr N0 ha)
    (initState_epochsOK args N0) hpos
    (by
      intro g hg e he
      apply hall
      have : e ∈ (eventGroups args).flatten := List.mem_flatten.mpr ⟨g, hg, he⟩
      unfold eventGroups at this
      rwa [List.flatten_splitBy] at this)
    (by
      rw [← hgroups]
      unfold cmdGroups
      apply timesOK_of_sorted hN _ 0 (splitBy_const _)
      · rw [List.flatten_splitBy, List.pairwise_append]
        refine ⟨?_, sortCmd_sorted _, ?_⟩
        · apply List.pairwise_of_forall_mem_list
          intro a ha' b hb'
          rw [ha.initial0 a ha', ha.initial0 b hb']
        · intro a ha' b hb'
          rw [ha.initial0 a ha']
          exact ha.nonneg b (sortCmd_mem _ _ hb')
      · intro c hc
        rw [List.flatten_splitBy] at hc
        have h0 : 0 ≤ c.t := by
          rcases List.mem_append.mp hc with hc | hc
          · rw [ha.initial0 c hc]
          · exact ha.nonneg c (sortCmd_mem _ _ hc)
        have h4 : (0 : Q) ≤ 4 * N0 := by grind
        have := Rat.mul_le_mul_of_nonneg_left h0 h4
        simpa using this)
    hs
  obtain ⟨ts, hts⟩ := mapM_eventT_ok args.demographicEvents he2
  refine ⟨s, ?_⟩
  unfold buildState
  rw [if_neg (by grind)]
  exact RV.bind_ok.2 ⟨ts, hts, hfold⟩

/-! ## further Model-only facts about the end of the event loop -/

/-- as many deme dicts as `num_demes` -/
theorem buildState_demes_length {args : Args} {N0 : Q} {s : BState} (h : buildState args N0 = .ok s) :
    s.demes.length = s.numDemes := by
  have := congrArg List.length (buildState_names h)
  simpa using this

/-- deme `j` is called `deme{j+1}` (this is `FromMs.buildState_names`, restated) -/
theorem buildState_demeNames {args : Args} {N0 : Q} {s : BState} (h : buildState args N0 = .ok s) :
    s.demes.map (·.name) = (List.range s.numDemes).map Ms.demeName := buildState_names h

/-- at least one population, when `-I` (if given) announces at least one -/
theorem buildState_numDemes_pos {args : Args} {N0 : Q} {s : BState} (h0 : 1 ≤ (initPop args).1)
    (h : buildState args N0 = .ok s) : 1 ≤ s.numDemes := Nat.le_trans h0 (buildState_numDemes_ge h)

theorem buildState_numDemes_pos_of_agree {args : Args} {pr : Parsed} {N0 : Q} {s : BState}
    (ha : ArgsAgree args pr) (h : buildState args N0 = .ok s) : 1 ≤ s.numDemes := by
  have h1 : (initPop args).1 = pr.npop := by rw [initPop_fst]; exact ha.npop
  exact buildState_numDemes_pos (by rw [h1]; exact ha.npos) h

/-- progress together with the correspondence of the final states -/
theorem buildState_progress_sim {args : Args} {pr : Parsed} {N0 : Q} {σ : St} (hN : 0 < N0)
    (ha : ArgsAgree args pr) (hs : runState pr N0 = .ok σ) :
    ∃ s T, buildState args N0 = .ok s ∧ SizeSim T s σ ∧ (∃ T', EpochsOK T' s) ∧ 1 ≤ s.numDemes
      ∧ s.demes.length = s.numDemes := by
  obtain ⟨s, h⟩ := buildState_progress hN ha hs
  obtain ⟨T, hsim⟩ := buildState_sizeSim ha h hs
  exact ⟨s, T, h, hsim, buildState_epochsOK h, buildState_numDemes_pos_of_agree ha h, buildState_demes_length h⟩

/-! ## non-vacuity: a command with `-I`, `-en`, an admixture (`-es` + `-ej`) and a final `-ej` -/

def exTokens : List String :=
  ["-I", "2", "1", "1", "-en", "0.5", "1", "2.0", "-es", "1.0", "2", "0.5", "-ej", "1.0", "3", "1",
   "-ej", "2.0", "2", "1"]

/-- both parsers accept the command, agree on it, and the interpreter runs it to the end -/
theorem exTokens_ok :
    (match parseKnownArgs exTokens, Spec.MsSem.parse exTokens with
     | .ok args, .ok pr => argsAgreeB args pr && (runState pr 1).toOption.isSome
     | _, _ => false) = true := by decide +kernel

example : ∃ args pr σ s, parseKnownArgs exTokens = .ok args ∧ Spec.MsSem.parse exTokens = .ok pr
    ∧ ArgsAgree args pr ∧ runState pr 1 = .ok σ ∧ buildState args 1 = .ok s := by
  have h := exTokens_ok
  cases ha : parseKnownArgs exTokens with
  | error e => rw [ha] at h; cases h
  | ok args =>
    cases hp : Spec.MsSem.parse exTokens with
    | error e => rw [ha, hp] at h; cases h
    | ok pr =>
      rw [ha, hp] at h
      simp only [Bool.and_eq_true] at h
      cases hr : runState pr 1 with
      | error e => rw [hr] at h; exact absurd h.2 (by simp [Except.toOption])
      | ok σ =>
        have hagree := argsAgree_of_B h.1
        obtain ⟨s, hs⟩ := buildState_progress (N0 := 1) (by decide) hagree hr
        exact ⟨args, pr, σ, s, rfl, rfl, hagree, hr, hs⟩

#print axioms buildState_progress_sim
#print axioms buildState_epochsOK
#print axioms stepEvent_progress

end Demes.Proofs.MsAcc

#print axioms Demes.Proofs.MsAcc.buildState_progress
