/-
  Proofs about `assert_close` / `isclose` of the event records (Model/RecordsClose.lean): the
  boolean forms are conjunctions, reflexive, symmetric, sound (and for splits / branches complete)
  for the declarative relations of Spec/RecordsClose.lean, insensitive to the order of children and
  of (parent, proportion) pairs.
-/
import DemesVerif.Proofs.Close
import DemesVerif.Spec.RecordsClose
import DemesVerif.Model.Records
namespace Demes.Proofs.RecClose
open Demes Demes.Spec Demes.Proofs

/-! ### the boolean forms are the conjunctions of the asserts -/

theorem split_isclose_eq (t : Tol) (a b : SplitEv) :
    SplitEv.isclose t a b
      = (a.parent == b.parent && sortBy cmpS a.children == sortBy cmpS b.children
          && closeQ t a.time b.time) := by
  unfold SplitEv.isclose SplitEv.assertClose assertThat
  cases (a.parent == b.parent) <;> cases (sortBy cmpS a.children == sortBy cmpS b.children)
    <;> cases (closeQ t a.time b.time) <;> rfl

theorem branch_isclose_eq (t : Tol) (a b : BranchEv) :
    BranchEv.isclose t a b
      = (a.parent == b.parent && a.child == b.child && closeE t a.time b.time) := by
  unfold BranchEv.isclose BranchEv.assertClose assertThat
  cases (a.parent == b.parent) <;> cases (a.child == b.child) <;> cases (closeE t a.time b.time) <;> rfl

theorem merge_isclose_eq (t : Tol) (a b : MergeEv) :
    MergeEv.mergeIsclose t a b
      = (iscloseDemeProportions t a.parents a.proportions b.parents b.proportions
          && a.child == b.child && closeE t a.time b.time) := by
  unfold MergeEv.mergeIsclose MergeEv.mergeAssertClose assertThat
  cases (iscloseDemeProportions t a.parents a.proportions b.parents b.proportions)
    <;> cases (a.child == b.child) <;> cases (closeE t a.time b.time) <;> rfl

/-- `Admix` compares exactly as `Merge` does -/
theorem admix_assert_close_eq_merge (t : Tol) (a b : MergeEv) :
    MergeEv.admixAssertClose t a b = MergeEv.mergeAssertClose t a b := rfl

theorem admix_isclose_eq_merge (t : Tol) (a b : MergeEv) :
    MergeEv.admixIsclose t a b = MergeEv.mergeIsclose t a b := rfl

/-! ### the asserting form and the boolean form -/

theorem returnsNormally_iff {α} (r : Except CloseFail α) : returnsNormally r = true ↔ ∃ v, r = .ok v := by
  cases r <;> simp [returnsNormally]

theorem returnsNormally_false_iff {α} (r : Except CloseFail α) :
    returnsNormally r = false ↔ ∃ f, r = .error f := by
  cases r <;> simp [returnsNormally]

theorem split_assert_value (t : Tol) (a b : SplitEv) (v : AssertRet)
    (h : SplitEv.assertClose t a b = .ok v) : v = .pyTrue := by
  unfold SplitEv.assertClose assertThat at h
  revert h
  cases (a.parent == b.parent) <;> cases (sortBy cmpS a.children == sortBy cmpS b.children)
    <;> cases (closeQ t a.time b.time) <;> intro h <;> first | (cases h; done) | (cases h; rfl)

theorem branch_assert_value (t : Tol) (a b : BranchEv) (v : AssertRet)
    (h : BranchEv.assertClose t a b = .ok v) : v = .pyNone := by
  unfold BranchEv.assertClose assertThat at h
  revert h
  cases (a.parent == b.parent) <;> cases (a.child == b.child) <;> cases (closeE t a.time b.time)
    <;> intro h <;> first | (cases h; done) | (cases h; rfl)

theorem merge_assert_value (t : Tol) (a b : MergeEv) (v : AssertRet)
    (h : MergeEv.mergeAssertClose t a b = .ok v) : v = .pyNone := by
  unfold MergeEv.mergeAssertClose assertThat at h
  revert h
  cases (iscloseDemeProportions t a.parents a.proportions b.parents b.proportions)
    <;> cases (a.child == b.child) <;> cases (closeE t a.time b.time)
    <;> intro h <;> first | (cases h; done) | (cases h; rfl)

/-- the asserting form completes exactly when the boolean form answers `True` -/
theorem record_assert_iff_isclose (t : Tol) (a b : Record) :
    (∃ v, Record.assertClose t a b = .ok v) ↔ Record.isclose t a b = true :=
  (returnsNormally_iff _).symm

/-- … and raises `AssertionError` exactly when the boolean form answers `False` -/
theorem record_assert_raises_iff (t : Tol) (a b : Record) :
    (∃ f, Record.assertClose t a b = .error f) ↔ Record.isclose t a b = false :=
  (returnsNormally_false_iff _).symm

/-- what the asserting form returns: `True` for a split, `None` for the other three classes -/
theorem record_assert_value (t : Tol) (a b : Record) (v : AssertRet)
    (h : Record.assertClose t a b = .ok v) :
    v = (match a with | .split _ => AssertRet.pyTrue | _ => AssertRet.pyNone) := by
  cases a <;> cases b <;> simp only [Record.assertClose] at h <;>
    first
    | exact split_assert_value _ _ _ _ h
    | exact branch_assert_value _ _ _ _ h
    | exact merge_assert_value _ _ _ _ h
    | cases h

/-! ### reflexive, symmetric -/

theorem split_isclose_refl (t : Tol) (a : SplitEv) : SplitEv.isclose t a a = true := by
  simp [split_isclose_eq, closeQ_refl]

theorem branch_isclose_refl (t : Tol) (a : BranchEv) : BranchEv.isclose t a a = true := by
  simp [branch_isclose_eq, closeE_refl]

theorem merge_isclose_refl (t : Tol) (a : MergeEv) : MergeEv.mergeIsclose t a a = true := by
  simp [merge_isclose_eq, closeE_refl, proportions_isclose_refl]

theorem split_isclose_symm (t : Tol) (a b : SplitEv) : SplitEv.isclose t a b = SplitEv.isclose t b a := by
  rw [split_isclose_eq, split_isclose_eq, closeQ_symm t a.time, beq_comm' a.parent,
    beq_comm' (sortBy cmpS a.children)]

theorem branch_isclose_symm (t : Tol) (a b : BranchEv) :
    BranchEv.isclose t a b = BranchEv.isclose t b a := by
  rw [branch_isclose_eq, branch_isclose_eq, closeE_symm t a.time, beq_comm' a.parent, beq_comm' a.child]

theorem merge_isclose_symm (t : Tol) (a b : MergeEv) :
    MergeEv.mergeIsclose t a b = MergeEv.mergeIsclose t b a := by
  rw [merge_isclose_eq, merge_isclose_eq, closeE_symm t a.time, beq_comm' a.child,
    proportions_isclose_symm t a.parents]

theorem record_isclose_eq (t : Tol) (a b : Record) :
    Record.isclose t a b = (match a, b with
      | .split x, .split y => SplitEv.isclose t x y
      | .branch x, .branch y => BranchEv.isclose t x y
      | .merge x, .merge y => MergeEv.mergeIsclose t x y
      | .admix x, .admix y => MergeEv.admixIsclose t x y
      | _, _ => false) := by
  cases a <;> cases b <;> rfl

theorem record_isclose_refl (t : Tol) (a : Record) : Record.isclose t a a = true := by
  rw [record_isclose_eq]
  cases a
  · exact split_isclose_refl t _
  · exact branch_isclose_refl t _
  · exact merge_isclose_refl t _
  · exact merge_isclose_refl t _

theorem record_isclose_symm (t : Tol) (a b : Record) : Record.isclose t a b = Record.isclose t b a := by
  rw [record_isclose_eq, record_isclose_eq]
  cases a <;> cases b <;>
    first
    | rfl
    | exact split_isclose_symm t _ _
    | exact branch_isclose_symm t _ _
    | exact merge_isclose_symm t _ _

/-! ### `sorted(xs) == sorted(ys)` is "the same names with the same multiplicities" -/

theorem sorted_eq_iff_perm (xs ys : List String) : sortBy cmpS xs = sortBy cmpS ys ↔ xs.Perm ys :=
  ⟨fun h => (sortBy_perm cmpS xs).symm.trans (h ▸ sortBy_perm cmpS ys),
   fun h => sortBy_eq_of_perm linCmp_cmpS h⟩

/-! ### the boolean tests mean the declarative relations -/

theorem split_isclose_iff (t : Tol) (a b : SplitEv) : SplitEv.isclose t a b = true ↔ SplitClose t a b := by
  simp only [split_isclose_eq, Bool.and_eq_true, beq_iff_eq, closeQ_iff, sorted_eq_iff_perm]
  exact ⟨fun ⟨⟨h1, h2⟩, h3⟩ => ⟨h1, h2, h3⟩, fun ⟨h1, h2, h3⟩ => ⟨⟨h1, h2⟩, h3⟩⟩

theorem branch_isclose_iff (t : Tol) (a b : BranchEv) :
    BranchEv.isclose t a b = true ↔ BranchClose t a b := by
  simp only [branch_isclose_eq, Bool.and_eq_true, beq_iff_eq, closeE_iff]
  exact ⟨fun ⟨⟨h1, h2⟩, h3⟩ => ⟨h1, h2, h3⟩, fun ⟨h1, h2, h3⟩ => ⟨⟨h1, h2⟩, h3⟩⟩

theorem merge_isclose_sound (t : Tol) (a b : MergeEv) (h : MergeEv.mergeIsclose t a b = true) :
    MergeClose t a b := by
  simp only [merge_isclose_eq, Bool.and_eq_true, beq_iff_eq, closeE_iff] at h
  exact ⟨weights_sound _ _ _ _ _ h.1.1, h.1.2, h.2⟩

theorem record_isclose_sound (t : Tol) (a b : Record) (h : Record.isclose t a b = true) :
    RecordClose t a b := by
  rw [record_isclose_eq] at h
  cases a <;> cases b <;> simp only [RecordClose] <;>
    first
    | exact (split_isclose_iff t _ _).1 h
    | exact (branch_isclose_iff t _ _).1 h
    | exact merge_isclose_sound t _ _ h
    | exact absurd h Bool.false_ne_true

/-- records of different classes are never close -/
theorem record_isclose_detects_class (t : Tol) (a b : Record) (h : a.className ≠ b.className) :
    Record.isclose t a b = false := by
  rw [record_isclose_eq]
  cases a <;> cases b <;> first | rfl | exact absurd rfl h

/-! ### consequences of closeness on mergers -/

/-- every (parent, proportion) pair of `a` has a partner in `b`: the same parent, a proportion within
the tolerance -/
theorem merge_isclose_matched (t : Tol) (a b : MergeEv) (h : MergeEv.mergeIsclose t a b = true)
    (x : String × Q) (hx : x ∈ a.parents.zip a.proportions) :
    ∃ y ∈ b.parents.zip b.proportions, x.1 = y.1 ∧ WithinTol t x.2 y.2 :=
  pairsClose_mem (merge_isclose_sound t a b h).ancestry.pairs hx

theorem pairsClose_names {t : Tol} {xs ys : List (String × Q)} (h : PairsClose t xs ys) :
    (xs.map Prod.fst).Perm (ys.map Prod.fst) := by
  obtain ⟨zs, hp, hz⟩ := h
  have hf := (pointwise_iff_forall₂ _ _ _).1 hz
  clear hz
  revert hp
  have : xs.map Prod.fst = zs.map Prod.fst := by
    induction hf with
    | nil => rfl
    | cons hr _ ih => simp only [List.map_cons, hr.1, ih]
  intro hp
  rw [this]
  exact hp.map _

/-- close mergers have the same parents up to order, when each lists as many proportions as parents
(as every constructed `Merge` / `Admix` does) -/
theorem merge_isclose_same_parents (t : Tol) (a b : MergeEv) (h : MergeEv.mergeIsclose t a b = true)
    (ha : a.parents.length = a.proportions.length) (hb : b.parents.length = b.proportions.length) :
    a.parents.Perm b.parents := by
  have hp := pairsClose_names (merge_isclose_sound t a b h).ancestry.pairs
  rwa [List.map_fst_zip (le_of_eq ha), List.map_fst_zip (le_of_eq hb)] at hp

/-- a constructed merger lists distinct parents and as many proportions -/
theorem mergeOk_facts (m : MergeEv) (h : m.mergeOk = true) :
    m.parents.Nodup ∧ m.parents.length = m.proportions.length := by
  simp only [MergeEv.mergeOk, mergeRecordOk, mergePostInitOk, Bool.and_eq_true, Bool.not_eq_true',
    decide_eq_false_iff_not, decide_eq_true_eq, List.length_map, ne_eq, Decidable.not_not] at h
  exact ⟨h.2.2, h.2.1.1.2⟩

theorem admixOk_facts (m : MergeEv) (h : m.admixOk = true) :
    m.parents.Nodup ∧ m.parents.length = m.proportions.length := by
  simp only [MergeEv.admixOk, admixRecordOk, admixPostInitOk, Bool.and_eq_true, Bool.not_eq_true',
    decide_eq_false_iff_not, decide_eq_true_eq, List.length_map, ne_eq, Decidable.not_not] at h
  exact ⟨h.2.2, h.2.1.1.2⟩

/-! ### order of children and of (parent, proportion) pairs -/

theorem split_isclose_perm_children (t : Tol) (a b : SplitEv) (cs : List String)
    (h : cs.Perm a.children) :
    SplitEv.isclose t { a with children := cs } b = SplitEv.isclose t a b := by
  rw [split_isclose_eq, split_isclose_eq]
  show (_ && sortBy cmpS cs == _ && _) = _
  rw [sortBy_eq_of_perm linCmp_cmpS h]

theorem merge_isclose_perm_pairs (t : Tol) (a a' b : MergeEv) (h : SameUpToParentOrder a a')
    (hn : a.parents.Nodup) : MergeEv.mergeIsclose t a' b = MergeEv.mergeIsclose t a b := by
  rw [merge_isclose_eq, merge_isclose_eq, h.child, h.time,
    weights_isclose_perm t _ _ _ _ _ _ h.wellFormed h.wellFormed' h.pairs hn]

/-! ### differences that are reported -/

theorem split_detects_parent (t : Tol) (a b : SplitEv) (h : a.parent ≠ b.parent) :
    SplitEv.isclose t a b = false :=
  Bool.eq_false_iff.2 (fun hc => h ((split_isclose_iff t a b).1 hc).parent)

theorem split_detects_children (t : Tol) (a b : SplitEv) (h : ¬ a.children.Perm b.children) :
    SplitEv.isclose t a b = false :=
  Bool.eq_false_iff.2 (fun hc => h ((split_isclose_iff t a b).1 hc).children)

theorem split_detects_child_set (t : Tol) (a b : SplitEv) (c : String)
    (h : (c ∈ a.children ∧ c ∉ b.children) ∨ (c ∈ b.children ∧ c ∉ a.children)) :
    SplitEv.isclose t a b = false := by
  apply split_detects_children
  intro hp
  rcases h with ⟨h1, h2⟩ | ⟨h1, h2⟩
  · exact h2 (hp.mem_iff.1 h1)
  · exact h2 (hp.mem_iff.2 h1)

theorem split_detects_time (t : Tol) (a b : SplitEv) (h : ¬ WithinTol t a.time b.time) :
    SplitEv.isclose t a b = false :=
  Bool.eq_false_iff.2 (fun hc => h ((split_isclose_iff t a b).1 hc).time)

theorem branch_detects_parent (t : Tol) (a b : BranchEv) (h : a.parent ≠ b.parent) :
    BranchEv.isclose t a b = false :=
  Bool.eq_false_iff.2 (fun hc => h ((branch_isclose_iff t a b).1 hc).parent)

theorem branch_detects_child (t : Tol) (a b : BranchEv) (h : a.child ≠ b.child) :
    BranchEv.isclose t a b = false :=
  Bool.eq_false_iff.2 (fun hc => h ((branch_isclose_iff t a b).1 hc).child)

theorem branch_detects_time (t : Tol) (a b : BranchEv) (h : ¬ WithinTolE t a.time b.time) :
    BranchEv.isclose t a b = false :=
  Bool.eq_false_iff.2 (fun hc => h ((branch_isclose_iff t a b).1 hc).time)

theorem merge_detects_child (t : Tol) (a b : MergeEv) (h : a.child ≠ b.child) :
    MergeEv.mergeIsclose t a b = false :=
  Bool.eq_false_iff.2 (fun hc => h (merge_isclose_sound t a b hc).child)

theorem merge_detects_time (t : Tol) (a b : MergeEv) (h : ¬ WithinTolE t a.time b.time) :
    MergeEv.mergeIsclose t a b = false :=
  Bool.eq_false_iff.2 (fun hc => h (merge_isclose_sound t a b hc).time)

theorem merge_detects_parent_count (t : Tol) (a b : MergeEv) (h : a.parents.length ≠ b.parents.length) :
    MergeEv.mergeIsclose t a b = false :=
  Bool.eq_false_iff.2 (fun hc => h (merge_isclose_sound t a b hc).ancestry.namesCount)

theorem merge_detects_proportion_count (t : Tol) (a b : MergeEv)
    (h : a.proportions.length ≠ b.proportions.length) : MergeEv.mergeIsclose t a b = false :=
  Bool.eq_false_iff.2 (fun hc => h (merge_isclose_sound t a b hc).ancestry.weightsCount)

theorem merge_detects_proportion (t : Tol) (a b : MergeEv) (x : String × Q)
    (hx : x ∈ a.parents.zip a.proportions)
    (h : ∀ y ∈ b.parents.zip b.proportions, ¬ (x.1 = y.1 ∧ WithinTol t x.2 y.2)) :
    MergeEv.mergeIsclose t a b = false :=
  Bool.eq_false_iff.2 (fun hc => by
    obtain ⟨y, hy, hxy⟩ := merge_isclose_matched t a b hc x hx
    exact h y hy hxy)

theorem merge_detects_parents (t : Tol) (a b : MergeEv)
    (ha : a.parents.length = a.proportions.length) (hb : b.parents.length = b.proportions.length)
    (h : ¬ a.parents.Perm b.parents) : MergeEv.mergeIsclose t a b = false :=
  Bool.eq_false_iff.2 (fun hc => h (merge_isclose_same_parents t a b hc ha hb))

/-! ### kernel-reducible evaluators (see Proofs/Close.lean: `List.mergeSort` does not reduce) -/

def splitEval (t : Tol) (a b : SplitEv) : Bool :=
  a.parent == b.parent
    && isort (fun x y => cmpS x y != .gt) a.children == isort (fun x y => cmpS x y != .gt) b.children
    && closeQ t a.time b.time

theorem split_eq_eval (t : Tol) (a b : SplitEv) : SplitEv.isclose t a b = splitEval t a b := by
  rw [split_isclose_eq]
  unfold splitEval sortBy
  simp only [mergeSort_eq_isort (fun a b d => linCmp_cmpS.le_trans a b d) (fun a b => linCmp_cmpS.le_total a b)]

def mergeEval (t : Tol) (a b : MergeEv) : Bool :=
  weightsEval t a.parents a.proportions b.parents b.proportions && a.child == b.child
    && closeE t a.time b.time

theorem merge_eq_eval (t : Tol) (a b : MergeEv) : MergeEv.mergeIsclose t a b = mergeEval t a b := by
  rw [merge_isclose_eq, weights_eq_eval]; rfl

def recordEval (t : Tol) : Record → Record → Bool
  | .split x, .split y => splitEval t x y
  | .branch x, .branch y => BranchEv.isclose t x y
  | .merge x, .merge y => mergeEval t x y
  | .admix x, .admix y => mergeEval t x y
  | _, _ => false

theorem record_eq_eval (t : Tol) (a b : Record) : Record.isclose t a b = recordEval t a b := by
  rw [record_isclose_eq]
  cases a <;> cases b <;> simp only [recordEval, split_eq_eval, merge_eq_eval, admix_isclose_eq_merge]

/-! ### concrete records (non-vacuity, witnesses) -/

def exSplit : SplitEv := { parent := "A", children := ["B", "C"], time := 100 }
def exBranch : BranchEv := { parent := "B", child := "D", time := .fin 80 }
def exMerge : MergeEv := { parents := ["C", "D"], proportions := [1/4, 3/4], child := "E", time := .fin 50 }

/-- Unvalidated records (reachable in Python only by assigning to the attributes of a constructed
record: the constructor refuses them) with more parents than proportions: `zip` drops the parents
without a proportion, so the two are "close" although their parents differ. -/
def exMalformedA : MergeEv := { parents := ["C", "D"], proportions := [1], child := "E", time := .fin 50 }
def exMalformedB : MergeEv := { parents := ["C", "X"], proportions := [1], child := "E", time := .fin 50 }

theorem merge_isclose_same_parents_counterexample :
    MergeEv.mergeIsclose defaultTol exMalformedA exMalformedB = true
      ∧ ¬ exMalformedA.parents.Perm exMalformedB.parents
      ∧ exMalformedA.mergeOk = false ∧ exMalformedB.mergeOk = false := by
  refine ⟨by rw [merge_eq_eval]; decide +kernel, by decide +kernel, by decide +kernel, by decide +kernel⟩

/-- A repeated parent (again refused by the constructor): rearranging the pairs changes the answer. -/
def exTwice (p q : Q) : MergeEv := { parents := ["C", "C"], proportions := [p, q], child := "E", time := .fin 50 }

theorem merge_isclose_perm_pairs_counterexample :
    SameUpToParentOrder (exTwice (1/4) (3/4)) (exTwice (3/4) (1/4))
      ∧ MergeEv.mergeIsclose defaultTol (exTwice (1/4) (3/4)) (exTwice (1/4) (3/4)) = true
      ∧ MergeEv.mergeIsclose defaultTol (exTwice (3/4) (1/4)) (exTwice (1/4) (3/4)) = false
      ∧ (exTwice (1/4) (3/4)).mergeOk = false := by
  refine ⟨⟨rfl, rfl, rfl, rfl, List.Perm.swap _ _ _⟩, by rw [merge_eq_eval]; decide +kernel,
    by rw [merge_eq_eval]; decide +kernel, by decide +kernel⟩

end Demes.Proofs.RecClose
