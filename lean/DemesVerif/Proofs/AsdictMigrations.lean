/-
  Proofs for C06, part 5: the migration loop of `Graph.fromdict` on the output of
  `Graph.asdict` (every migration is emitted in the asymmetric form).
-/
import DemesVerif.Proofs.AsdictDemes
namespace Demes.Proofs.Asdict
open Demes Demes.Spec Obj Value

theorem et_fin_le_of_le_of_lt {x y : Q} {t : ETime} (h1 : x ≤ y) (h2 : ETime.fin y < t) : ETime.fin x ≤ t := by
  cases t with
  | inf => trivial
  | fin q => have h2' : y < q := h2; show x ≤ q; grind
theorem et_fin_le_of_lt_of_le {y : Q} {t u : ETime} (h1 : ETime.fin y < t) (h2 : t ≤ u) : ETime.fin y ≤ u := by
  cases u with
  | inf => trivial
  | fin q =>
    cases t with
    | inf => exact h2.elim
    | fin r => have h1' : y < r := h1; have h2' : r ≤ q := h2; show y ≤ q; grind
theorem et_not_lt_zero {y : Q} {t : ETime} (h0 : 0 ≤ y) (h1 : ETime.fin y < t) : ¬ t < ETime.fin 0 := by
  cases t with
  | inf => exact fun h => h
  | fin q => have h1' : y < q := h1; show ¬ q < 0; grind

/-- what `_add_asymmetric_migration` checks about a migration `m` entering the graph `G` -/
structure MigOk (G : Graph) (m : Migration) (s d : Deme) : Prop where
  src : G.deme? m.source = some s
  dst : G.deme? m.dest = some d
  srcId : isIdentifier m.source = true
  dstId : isIdentifier m.dest = true
  ne : m.source ≠ m.dest
  order : ETime.fin m.endTime < m.startTime
  lo : qmax s.endTime d.endTime ≤ m.endTime
  hi : m.startTime ≤ ETime.min s.startTime d.startTime
  rate0 : 0 ≤ m.rate
  rate1 : m.rate ≤ 1
  nonneg : 0 ≤ m.endTime
  free : ∀ o ∈ G.migrations, (o.source = m.source && o.dest = m.dest
      && decide (ETime.fin m.endTime < o.startTime) && decide (ETime.fin o.endTime < m.startTime)) = false

theorem nonNegTime_timeV {t : ETime} (h : ¬ t < ETime.fin 0) : nonNegTime (timeV t) = .ok t := by
  simp only [nonNegTime, intOrFloat_timeV, bind_ok, vNonNegative, Num.zero, num_lt_ofETime_fin,
    decide_eq_true_eq, if_neg h, pure_bind', toETime_ofETime]

theorem addAsymmetricMigration_ok (G : Graph) (m : Migration) (s d : Deme) (h : MigOk G m s d) :
    addAsymmetricMigration G (.str m.source) (.str m.dest) (numV m.rate) (some (timeV m.startTime))
      (some (numV m.endTime)) = .ok { G with migrations := G.migrations ++ [m] } := by
  have e1 : existingName G (.str m.source) = .ok m.source := by
    simp only [existingName, hasName_of_deme? h.src, if_true]; rfl
  have e2 : existingName G (.str m.dest) = .ok m.dest := by
    simp only [existingName, hasName_of_deme? h.dst, if_true]; rfl
  have t1 : timeIntersection G m.source m.dest (some (timeV m.startTime))
      = .ok (qmax s.endTime d.endTime, ETime.min s.startTime d.startTime) := by
    have a1 : (timeV m.startTime).asNumRaw? = some (Num.ofETime m.startTime) := rfl
    simp only [timeIntersection, getDeme, h.src, h.dst, pure_bind', a1, num_le_fin_ofETime, num_le_ofETime,
      decide_eq_true (et_fin_le_of_le_of_lt h.lo h.order), decide_eq_true h.hi, Bool.and_self, if_true]
    rfl
  have t2 : timeIntersection G m.source m.dest (some (numV m.endTime))
      = .ok (qmax s.endTime d.endTime, ETime.min s.startTime d.startTime) := by
    have a1 : (numV m.endTime).asNumRaw? = some (Num.fin m.endTime) := rfl
    simp only [timeIntersection, getDeme, h.src, h.dst, pure_bind', a1, num_le_fin_ofETime, num_le_fin,
      decide_eq_true h.lo, decide_eq_true (et_fin_le_of_lt_of_le h.order h.hi), Bool.and_self, if_true]
    rfl
  have hany : (G.migrations.any (fun o => o.source = m.source && o.dest = m.dest
      && decide (ETime.fin m.endTime < o.startTime) && decide (ETime.fin o.endTime < m.startTime))) = false := by
    rw [List.any_eq_false]
    intro o ho
    rw [h.free o ho]; exact Bool.false_ne_true
  unfold addAsymmetricMigration
  simp only [e1, e2, t1, t2, bind_ok, pure_bind', Option.getD_some, h.srcId, h.dstId, Bool.not_true,
    Bool.false_eq_true, ↓reduceIte, nonNegTime_timeV (et_not_lt_zero h.nonneg h.order),
    nonNegFiniteQ_numV h.nonneg, unitQ_numV h.rate0 h.rate1, h.ne, h.order, decide_true, hany]
  rfl

theorem checkAllowed_migration (m : Migration) : checkAllowed (migrationObj m) allowedMigration = .ok () :=
  checkAllowed_ok _ _ (by rw [keys_migrationObj]; exact migrationKeys_allowed)

theorem lookupNN_timeV (k : String) (t : ETime) (o : Obj) (h : lookup k o = some (timeV t)) :
    lookupNN k o = some (timeV t) := by
  rw [lookupNN, h]; cases t <;> rfl

theorem resolveMigration_ok (G : Graph) (m : Migration) (s d : Deme) (h : MigOk G m s d) :
    resolveMigration [] G (migrationObj m) = .ok { G with migrations := G.migrations ++ [m] } := by
  have l0 : insertDefaults (migrationObj m) [] = migrationObj m := rfl
  have l1 : lookup "rate" (migrationObj m) = some (numV m.rate) := rfl
  have l2 : lookupNN "demes" (migrationObj m) = none := rfl
  have l3 : lookupNN "source" (migrationObj m) = some (.str m.source) := rfl
  have l4 : lookupNN "dest" (migrationObj m) = some (.str m.dest) := rfl
  have l5 : lookupNN "start_time" (migrationObj m) = some (timeV m.startTime) := lookupNN_timeV _ _ _ rfl
  have l6 : lookupNN "end_time" (migrationObj m) = some (numV m.endTime) := rfl
  unfold resolveMigration
  simp only [checkAllowed_migration, bind_ok, pure_bind', l0, l1, l2, l3, l4, l5, l6]
  exact addAsymmetricMigration_ok G m s d h

/-- the graph under construction after all demes and the migrations `ms` have been added -/
def withMigs (g : Graph) (ms : List Migration) : Graph := { withDemes g g.demes with migrations := ms }

theorem withMigs_deme? (g : Graph) (ms : List Migration) (a : String) :
    (withMigs g ms).deme? a = findDeme g a := deme?_eq _ rfl a

theorem migOk_of_valid {g : Graph} (h1 : v1 g = true) (h6 : v6 g = true) (h8 : v8 g = true)
    (h9 : v9 g = true) {pre rest : List Migration} {m : Migration} (hs : g.migrations = pre ++ m :: rest) :
    ∃ s d, MigOk (withMigs g pre) m s d := by
  have hf := migFacts_of h1 h6 h8 h9
  have hm : m ∈ g.migrations := by rw [hs]; exact List.mem_append_right _ List.mem_cons_self
  have h1' := h1
  simp only [v1, Bool.and_eq_true, List.all_eq_true, decide_eq_true_eq] at h1'
  have hid := h1'.1.2
  simp only [v8, List.all_eq_true, Bool.and_eq_true, bne_iff_ne, ne_eq] at h8
  obtain ⟨hne, h8'⟩ := h8 m hm
  split at h8'
  · rename_i s d hsrc hdst
    simp only [coexist, Bool.and_eq_true, decide_eq_true_eq] at h8'
    obtain ⟨⟨⟨⟨a1, a2⟩, a3⟩, a4⟩, a5⟩ := h8'
    obtain ⟨hsm, hsn⟩ := findDeme_some hsrc
    obtain ⟨hdm, hdn⟩ := findDeme_some hdst
    refine ⟨s, d, ?_, ?_, hsn ▸ hid s hsm, hdn ▸ hid d hdm, hne, a1, of_decide_eq_true a2, of_decide_eq_true a3, a4, a5,
      mig_end_nonneg hf hm, ?_⟩
    · rw [withMigs_deme?]; exact hsrc
    · rw [withMigs_deme?]; exact hdst
    · intro o ho
      have hp := hf.disj
      rw [hs, List.pairwise_append] at hp
      have := hp.2.2 o ho m List.mem_cons_self
      by_cases c1 : o.source = m.source <;> by_cases c2 : o.dest = m.dest <;>
        by_cases c3 : ETime.fin m.endTime < o.startTime <;>
        by_cases c4 : ETime.fin o.endTime < m.startTime <;>
        simp [disjoint, c1, c2, c3, c4] at this ⊢
  · cases h8'



theorem migrations_loop {g : Graph} (h1 : v1 g = true) (h6 : v6 g = true) (h8 : v8 g = true)
    (h9 : v9 g = true) :
    ∀ (rest pre : List Migration), g.migrations = pre ++ rest →
      (rest.map migrationObj).foldlM (resolveMigration []) (withMigs g pre)
        = .ok (withMigs g g.migrations) := by
  intro rest
  induction rest with
  | nil => intro pre hs; rw [hs, List.append_nil]; rfl
  | cons m rest ih =>
    intro pre hs
    obtain ⟨s, d, hok⟩ := migOk_of_valid h1 h6 h8 h9 hs
    rw [List.map_cons, List.foldlM_cons, resolveMigration_ok _ m s d hok, bind_ok]
    exact ih (pre ++ [m]) (by rw [hs, List.append_assoc]; rfl)

end Demes.Proofs.Asdict
