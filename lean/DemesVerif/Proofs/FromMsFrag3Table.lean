/-
  C08, the third fragment — `Tame3` on the small table of `FromMsWideTable.lean` (the 600 commands `-I 3 1 1 1`
  followed by one or two options out of `-es 1.0 i 0.5`, `i ≤ 4`, and `-ej 1.0 i j`, `i ≠ j ≤ 5`), evaluated by the
  kernel on both sides: no command of the fragment is converted wrongly.
-/
import DemesVerif.Proofs.FromMsWideTable
namespace Demes.Proofs.FromMs
open Demes Demes.Ms Demes.Spec Demes.Spec.MsSem Demes.Spec.C08

/-- for a command that both `from_ms` and the ms interpreter accept: is it in the fragment `Tame3`, and are the
lineage movements of the graph those of the interpreter -/
def tabClass3 (c : List String) : Option (Bool × Bool) :=
  match fromMs c 1 none, msSem c 1, parse c with
  | .ok mg, .ok sem, .ok pr => some (Tame3 pr, decide (movesOf (resultSem mg) = some sem.moves))
  | _, _, _ => none

/-- (inside & correct, inside & wrong, outside & correct, outside & wrong) -/
def tabCounts3 : Nat × Nat × Nat × Nat :=
  let cls := tabCmds.filterMap tabClass3
  (cls.count (true, true), cls.count (true, false), cls.count (false, true), cls.count (false, false))

theorem tab_counts3 : tabCounts3 = (72, 0, 6, 3) := by decide +kernel

/-- on the table, every accepted command of `Tame3` is converted correctly -/
theorem tab_sound3 : ∀ c ∈ tabCmds, ∀ correct, tabClass3 c = some (true, correct) → correct = true := by
  intro c hc correct h
  have hmem : (true, correct) ∈ tabCmds.filterMap tabClass3 := List.mem_filterMap.mpr ⟨c, hc, h⟩
  have hcnt := tab_counts3
  unfold tabCounts3 at hcnt
  simp only [Prod.mk.injEq] at hcnt
  obtain ⟨_, h2, _, _⟩ := hcnt
  cases correct
  · exact absurd hmem (List.count_eq_zero.mp h2)
  · rfl

end Demes.Proofs.FromMs
