/-
  C09 §10 — graph → ms → graph for every valid ms-expressible graph whose pulse proportions are below one (chains of
  pulses at one time included): acceptance (`MsRT3Acc.lean`) + composition on `Tame3` (`MsRT3Compose.lean`); the
  same with exponential epochs and with the deme names of the graph; closed instances.
-/
import DemesVerif.Proofs.MsRT3Acc
import DemesVerif.Proofs.MsRT3Compose
import DemesVerif.Proofs.MsNamesExamples
import DemesVerif.Proofs.MsTame2Examples
namespace Demes.Proofs.MsRT3
open Demes Demes.Ms Demes.Spec Demes.Spec.C07 Demes.Spec.C09
open Demes.Spec.MsSem (DemogSem msSem graphSem parse)
open Demes.Spec.C08 (semEquiv SemAgree resultSem resultSemNamed Tame' Tame2 Tame3)
open Demes.Proofs.MsPrint (tableCodec growthStr twoDemePulse branchMig)
open Demes.Proofs.MsRT (chainGraph roundTripAgainst)
open Demes.Proofs.MsAcc (accepted docGraph)
open Demes.Proofs.MsGrow (acceptedV roundTripAgainstV growChain)
open Demes.Proofs.MsTame2 (fourDemes startPulses startPulsesChain longChain)
open Demes.Proofs.FromMs (nameMap)

/-! ### constant sizes -/

/-- `ms_roundtrip_sem` with `PulsesBelowOne` in place of `PulsesTame` -/
theorem ms_roundtrip_sem3 (c : NumCodec) (sa : Growth → String) {g : Graph} (hv : validGraph g = true)
    (hx : MsExpressible g = true) (hex : ExactProportions g = true) (hcs : ConstSizes g = true)
    (hpb : PulsesBelowOne g = true)
    {N0 : Q} (hN : 0 < N0) {samples : Option (List Int)} (hs : samplesOk g samples = true)
    {toks : List (Tok Growth)} (htoks : toMs g N0 samples = .ok toks) (hc : CodecCovers c toks) :
    ∃ mg sem rs gs, fromMs (renderG c sa toks) N0 none = .ok mg
      ∧ msSem (renderG c sa toks) N0 = .ok sem ∧ resultSem mg = .ok rs
      ∧ graphSem (inGenerations g) none = .ok gs
      ∧ semEquiv sem rs = true ∧ SemRefines sem gs ∧ SemRefines rs gs := by
  obtain ⟨mg, hfrom, _⟩ := ms_roundtrip_accepts3 c sa hv hx hcs hpb hN hs htoks hc
  obtain ⟨sem, rs, gs, h⟩ := ms_roundtrip_sem_tame3 c sa hv hx hex hcs hpb hN hs htoks hc hfrom
  exact ⟨mg, sem, rs, gs, hfrom, h⟩

/-- `ms_roundtrip_sem_all` with `PulsesBelowOne` in place of `PulsesTame` -/
theorem ms_roundtrip_sem_all3 (c : NumCodec) (sa : Growth → String) {g : Graph} (hv : validGraph g = true)
    (hx : MsExpressible g = true) (hcs : ConstSizes g = true) (hpb : PulsesBelowOne g = true)
    {N0 : Q} (hN : 0 < N0) {samples : Option (List Int)} (hs : samplesOk g samples = true)
    {toks : List (Tok Growth)} (htoks : toMs g N0 samples = .ok toks) (hc : CodecCovers c toks) :
    ∃ mg sem rs gs, fromMs (renderG c sa toks) N0 none = .ok mg
      ∧ msSem (renderG c sa toks) N0 = .ok sem ∧ resultSem mg = .ok rs
      ∧ graphSem (inGenerations (normalizeProportions g)) none = .ok gs
      ∧ semEquiv sem rs = true ∧ SemRefines sem gs ∧ SemRefines rs gs := by
  obtain ⟨mg, hfrom, _⟩ := ms_roundtrip_accepts3 c sa hv hx hcs hpb hN hs htoks hc
  obtain ⟨sem, rs, gs, h⟩ := ms_roundtrip_sem_tame_norm3 c sa hv hx hcs hpb hN hs htoks hc hfrom
  exact ⟨mg, sem, rs, gs, hfrom, h⟩

/-! ### exponential epochs -/

/-- `ms_roundtrip_growth_sem` with `PulsesBelowOne` in place of `PulsesTame` -/
theorem ms_roundtrip_growth_sem3 (c : NumCodec) (sa : Growth → String) {g : Graph} (hv : validGraph g = true)
    (hx : MsExpressible g = true) (hex : ExactProportions g = true) (hpb : PulsesBelowOne g = true)
    {N0 : Q} (hN : 0 < N0) {samples : Option (List Int)} (hs : samplesOk g samples = true)
    {toks : List (Tok Growth)} (htoks : toMs g N0 samples = .ok toks) (hc : CodecCovers c toks)
    (hsa : GrowthPrinter sa (epochGrowths g N0)) :
    ∃ mg sem rs gs, fromMs (renderG c sa toks) N0 none = .ok mg
      ∧ msSem (renderG c sa toks) N0 = .ok sem ∧ resultSem mg = .ok rs
      ∧ graphSem (inGenerations g) none = .ok gs
      ∧ semEquiv sem rs = true
      ∧ SemRefines sem (regrow (growthVal sa) N0 gs) ∧ SemRefines rs (regrow (growthVal sa) N0 gs)
      ∧ SemRefinesUpToGrowth sem gs ∧ SemRefinesUpToGrowth rs gs := by
  obtain ⟨mg, hfrom, _⟩ := ms_roundtrip_growth_accepts3 c sa hv hx hpb hN hs htoks hc hsa
  obtain ⟨pr, hpr, ht⟩ := toMs_tame3V c sa hv hx hpb hN hs htoks hc hsa
  obtain ⟨sem, rs, gs, h1, h2, h3, h4, h5, h6⟩ :=
    ms_roundtrip_growth_sem_partial3 c sa hv hx hex hN hs htoks hc hsa hfrom hpr ht
  have htiles := MsRT.Tr.graphSem_tiles (InGen.inGenerations_valid g hv)
    (show Demes.Spec.MsSem.graphSemWith Sz.ofQ (inGenerations g) none = .ok gs from h3)
  exact ⟨mg, sem, rs, gs, hfrom, h1, h2, h3, h4, h5, h6,
    MsGrow.semRefinesUpTo_of_regrow hsa.zero h5 htiles, MsGrow.semRefinesUpTo_of_regrow hsa.zero h6 htiles⟩

/-- `ms_roundtrip_growth_sem_all` with `PulsesBelowOne` in place of `PulsesTame` -/
theorem ms_roundtrip_growth_sem_all3 (c : NumCodec) (sa : Growth → String) {g : Graph} (hv : validGraph g = true)
    (hx : MsExpressible g = true) (hpb : PulsesBelowOne g = true)
    {N0 : Q} (hN : 0 < N0) {samples : Option (List Int)} (hs : samplesOk g samples = true)
    {toks : List (Tok Growth)} (htoks : toMs g N0 samples = .ok toks) (hc : CodecCovers c toks)
    (hsa : GrowthPrinter sa (epochGrowths g N0)) :
    ∃ mg sem rs gs, fromMs (renderG c sa toks) N0 none = .ok mg
      ∧ msSem (renderG c sa toks) N0 = .ok sem ∧ resultSem mg = .ok rs
      ∧ graphSem (inGenerations (normalizeProportions g)) none = .ok gs
      ∧ semEquiv sem rs = true
      ∧ SemRefines sem (regrow (growthVal sa) N0 gs) ∧ SemRefines rs (regrow (growthVal sa) N0 gs)
      ∧ SemRefinesUpToGrowth sem gs ∧ SemRefinesUpToGrowth rs gs :=
  ms_roundtrip_growth_sem3 c sa (ToMsNorm.validGraph_norm hv) (by rw [ToMsNorm.expr_norm]; exact hx)
    (ToMsNorm.exact_norm (ToMs.clauses_of_valid hv).h4) (by rw [pulsesBelowOne_norm]; exact hpb) hN
    (samples := samples) (by rw [ToMsNorm.samplesOk_norm]; exact hs)
    (by rw [ToMsNorm.toMs_norm hv hx hN hs]; exact htoks) hc (by rw [MsGrow.epochGrowths_norm]; exact hsa)

/-! ### the deme names of the graph -/

/-- `ms_roundtrip_names` with `PulsesBelowOne` in place of `PulsesTame` -/
theorem ms_roundtrip_names3 (c : NumCodec) (sa : Growth → String) {g : Graph} (hv : validGraph g = true)
    (hx : MsExpressible g = true) (hcs : ConstSizes g = true) (hpb : PulsesBelowOne g = true)
    {N0 : Q} (hN : 0 < N0) {samples : Option (List Int)} (hs : samplesOk g samples = true)
    {toks : List (Tok Growth)} (htoks : toMs g N0 samples = .ok toks) (hc : CodecCovers c toks) :
    ∃ mg mg' sem rs gs, fromMs (renderG c sa toks) N0 none = .ok mg
      ∧ fromMs (renderG c sa toks) N0 (some (g.demes.map (·.name))) = .ok mg'
      ∧ mg'.graph = renameDemes mg.graph (nameMap (g.demes.map (·.name))) ∧ mg'.table = mg.table ∧ mg'.doc = mg.doc
      ∧ validGraph mg'.graph = true ∧ mg'.graph.timeUnits = "generations" ∧ mg'.graph.generationTime = 1
      ∧ (mg'.graph.demes.map (·.name)).Perm (g.demes.map (·.name))
      ∧ (StartsSorted g = true → mg'.graph.demes.map (·.name) = g.demes.map (·.name))
      ∧ msSem (renderG c sa toks) N0 = .ok sem
      ∧ resultSem mg = .ok rs ∧ resultSemNamed mg' (g.demes.map (·.name)) = .ok rs
      ∧ graphSem (inGenerations (normalizeProportions g)) none = .ok gs
      ∧ semEquiv sem rs = true ∧ SemRefines sem gs ∧ SemRefines rs gs :=
  MsNames.ms_roundtrip_names_of c sa hv (ms_roundtrip_accepts3 c sa hv hx hcs hpb hN hs htoks hc)
    (fun _ hfrom => ms_roundtrip_sem_tame_norm3 c sa hv hx hcs hpb hN hs htoks hc hfrom)

/-! ### closed instances -/

/-- `(Tame' pr, Tame2 pr, Tame3 pr)` for the command `to_ms` prints for `g`, as the ms parser reads it -/
def frags3Of (g : Graph) (N0 : Q) : Option (Bool × Bool × Bool) :=
  match toMs g N0 none with
  | .ok toks => (parse (renderG tableCodec growthStr toks)).toOption.map (fun pr => (Tame' pr, Tame2 pr, Tame3 pr))
  | .error _ => none

/-- the theorems for a graph that meets the hypotheses (`acceptHyps3`: every hypothesis of `ms_roundtrip_sem_all3`,
decided) -/
theorem roundTrip3_of_hyps {g : Graph} {N0 : Q} (h : acceptHyps3 g N0 = true) :
    ∃ toks mg sem rs gs, toMs g N0 none = .ok toks
      ∧ fromMs (renderG tableCodec growthStr toks) N0 none = .ok mg
      ∧ msSem (renderG tableCodec growthStr toks) N0 = .ok sem ∧ resultSem mg = .ok rs
      ∧ graphSem (inGenerations (normalizeProportions g)) none = .ok gs
      ∧ semEquiv sem rs = true ∧ SemRefines sem gs ∧ SemRefines rs gs := by
  unfold acceptHyps3 at h
  simp only [Bool.and_eq_true, decide_eq_true_eq] at h
  obtain ⟨⟨⟨⟨⟨h1, h2⟩, h3⟩, h4⟩, h5⟩, h6⟩ := h
  cases ht : toMs g N0 none with
  | error e => rw [ht] at h6; cases h6
  | ok toks =>
    rw [ht] at h6
    simp only [decide_eq_true_eq] at h6
    obtain ⟨mg, sem, rs, gs, r⟩ := ms_roundtrip_sem_all3 tableCodec growthStr h1 h2 h3 h4 h5 (samples := none) rfl ht h6
    exact ⟨toks, mg, sem, rs, gs, rfl, r⟩

theorem names3_of_hyps {g : Graph} {N0 : Q} (h : acceptHyps3 g N0 = true) :
    ∃ toks mg mg' sem rs gs, toMs g N0 none = .ok toks
      ∧ fromMs (renderG tableCodec growthStr toks) N0 none = .ok mg
      ∧ fromMs (renderG tableCodec growthStr toks) N0 (some (g.demes.map (·.name))) = .ok mg'
      ∧ validGraph mg'.graph = true
      ∧ (mg'.graph.demes.map (·.name)).Perm (g.demes.map (·.name))
      ∧ (StartsSorted g = true → mg'.graph.demes.map (·.name) = g.demes.map (·.name))
      ∧ msSem (renderG tableCodec growthStr toks) N0 = .ok sem
      ∧ resultSemNamed mg' (g.demes.map (·.name)) = .ok rs
      ∧ graphSem (inGenerations (normalizeProportions g)) none = .ok gs
      ∧ semEquiv sem rs = true ∧ SemRefines sem gs ∧ SemRefines rs gs := by
  unfold acceptHyps3 at h
  simp only [Bool.and_eq_true, decide_eq_true_eq] at h
  obtain ⟨⟨⟨⟨⟨h1, h2⟩, h3⟩, h4⟩, h5⟩, h6⟩ := h
  cases ht : toMs g N0 none with
  | error e => rw [ht] at h6; cases h6
  | ok toks =>
    rw [ht] at h6
    simp only [decide_eq_true_eq] at h6
    obtain ⟨mg, mg', sem, rs, gs, a1, a2, _, _, _, a3, _, _, a4, a5, a6, _, a7, a8, a9, a10, a11⟩ :=
      ms_roundtrip_names3 tableCodec growthStr h1 h2 h3 h4 h5 (samples := none) rfl ht h6
    exact ⟨toks, mg, mg', sem, rs, gs, rfl, a1, a2, a3, a4, a5, a6, a7, a8, a9, a10, a11⟩

/-- the theorem with exponential epochs for a graph that meets the hypotheses (`growHyps3`) -/
theorem growRoundTrip3_of_hyps {sa : Growth → String} {g : Graph} {N0 : Q} (h : growHyps3 sa g N0 = true) :
    ∃ toks mg sem rs gs, toMs g N0 none = .ok toks
      ∧ fromMs (renderG tableCodec sa toks) N0 none = .ok mg
      ∧ msSem (renderG tableCodec sa toks) N0 = .ok sem ∧ resultSem mg = .ok rs
      ∧ graphSem (inGenerations (normalizeProportions g)) none = .ok gs
      ∧ semEquiv sem rs = true
      ∧ SemRefines sem (regrow (growthVal sa) N0 gs) ∧ SemRefines rs (regrow (growthVal sa) N0 gs)
      ∧ SemRefinesUpToGrowth sem gs ∧ SemRefinesUpToGrowth rs gs := by
  unfold growHyps3 at h
  simp only [Bool.and_eq_true, decide_eq_true_eq] at h
  obtain ⟨⟨⟨⟨⟨h1, h2⟩, h3⟩, h4⟩, h5⟩, h6⟩ := h
  cases ht : toMs g N0 none with
  | error e => rw [ht] at h6; cases h6
  | ok toks =>
    rw [ht] at h6
    simp only [decide_eq_true_eq] at h6
    obtain ⟨mg, sem, rs, gs, r⟩ := ms_roundtrip_growth_sem_all3 tableCodec sa h1 h2 h3 h4 (samples := none) rfl ht h6
      (MsGrow.growthPrinter_of_B h5)
    exact ⟨toks, mg, sem, rs, gs, rfl, r⟩

/-- **the chains of pulses are inside**: pulses `A → B`, `B → C` at one time; the pulses of `startPulses` with `B → C`
listed first (into the source of two later pulses, one of them into a deme born at that time); a chain of three
pulses ending in a newborn deme.  Every hypothesis of `ms_roundtrip_sem_all3` holds (`acceptHyps3`); the graphs are not
`PulsesTame`; the printed commands are outside `Tame'` and `Tame2` and inside `Tame3`; and the conclusion, evaluated
independently of the theorem: `from_ms` accepts, and the returned graph passes `refinesAt` — lineage movements
included — against the graph -/
theorem chains_inside :
    [chainGraph, fourDemes startPulsesChain, fourDemes longChain].all (fun g => acceptHyps3 g 1 && !PulsesTame g) = true
    ∧ [chainGraph, fourDemes startPulsesChain, fourDemes longChain].map (fun g => frags3Of g 1)
        = [some (false, false, true), some (false, false, true), some (false, false, true)]
    ∧ [chainGraph, fourDemes startPulsesChain, fourDemes longChain].map (fun g => accepted g 1) = [true, true, true]
    ∧ roundTripAgainst chainGraph chainGraph 1 [0, 3, 4, 5] = some true
    ∧ roundTripAgainst (fourDemes startPulsesChain) (fourDemes startPulsesChain) 1 [0, 3, 4, 5] = some true
    ∧ roundTripAgainst (fourDemes longChain) (fourDemes longChain) 1 [0, 3, 4, 5] = some true := by decide +kernel

/-- graphs that are `PulsesTame` are inside too -/
example : [fourDemes startPulses, branchMig, twoDemePulse (1/2)].map (fun g => (acceptHyps3 g 1, frags3Of g 1))
    = [(true, some (true, true, true)), (true, some (true, true, true)), (true, some (true, true, true))] := by
  decide +kernel

/-- **the boundary (F6)**: a pulse of proportion 1 — `PulsesBelowOne` fails, the printed command
`-I 2 0 0 -es 1.0 2 0.0 -ej 1.0 3 1` is outside `Tame3`, and `from_ms` rejects it -/
theorem full_pulse_outside3 :
    validGraph (twoDemePulse 1) = true ∧ MsExpressible (twoDemePulse 1) = true ∧ ConstSizes (twoDemePulse 1) = true
    ∧ PulsesBelowOne (twoDemePulse 1) = false ∧ acceptHyps3 (twoDemePulse 1) 1 = false
    ∧ frags3Of (twoDemePulse 1) 1 = some (false, false, false)
    ∧ accepted (twoDemePulse 1) 1 = false := by decide +kernel

/-- the theorems at work on the chains -/
example := roundTrip3_of_hyps (g := chainGraph) (N0 := 1) (by decide +kernel)
example := roundTrip3_of_hyps (g := fourDemes longChain) (N0 := 1) (by decide +kernel)
example := names3_of_hyps (g := fourDemes startPulsesChain) (N0 := 1) (by decide +kernel)
example := growRoundTrip3_of_hyps (sa := saChain) (g := growChain) (N0 := 1) growChain_growHyps3.1

/-- with the names of the graph: the named result has the names of `g` and passes `refinesAt` against `g` -/
example : MsNames.namedRoundTripNames (fourDemes longChain) 1 = some ["A", "B", "C", "D"]
    ∧ MsNames.namedRoundTripOk (fourDemes longChain) 1 [0, 3, 4, 5] = true
    ∧ MsNames.namedRoundTripOk chainGraph 1 [0, 3, 4, 5] = true := by decide +kernel

/-- a chain of pulses in a graph with an exponential epoch: the returned graph, sampled at times in every epoch, has
the sizes of the graph with the printed growth rates -/
example : (roundTripAgainstV saChain growChain 1 [0, 3, 4, 5, 9, 10, 11]).map (·.1) = some true := by decide +kernel

#print axioms ms_roundtrip_sem3
#print axioms ms_roundtrip_sem_all3
#print axioms ms_roundtrip_growth_sem3
#print axioms ms_roundtrip_growth_sem_all3
#print axioms ms_roundtrip_names3
#print axioms roundTrip3_of_hyps
#print axioms chains_inside
#print axioms full_pulse_outside3

end Demes.Proofs.MsRT3
