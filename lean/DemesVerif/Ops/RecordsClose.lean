/-
  Driver op for the closeness of the event records (Model/RecordsClose.lean):
    record_isclose  {a: {kind, fields}, b: {kind, fields}, rel?: "p/q", abs?: "p/q"}
        ↦  {"ok": {"isclose": Bool, "assert": "True" | "None" | "raises", "failed": <which assert> | null}}
  `kind` is "split" | "branch" | "merge" | "admix", `fields` the record's attributes in the wire format
  ({"o": [[field, value], …]}).  Times are finite (a split) or finite / +∞ (the others), proportions finite;
  anything else is outside the Model's records: {"fail": …}.  Without `rel` / `abs` the default tolerances.
-/
import DemesVerif.Ops.Core
import DemesVerif.Model.RecordsClose
namespace Demes.Ops.RecordsClose
open Lean Demes Demes.Wire Demes.Ops.Core

def strs? (v : Value) : Option (List String) :=
  match v with
  | .list xs => xs.mapM Value.asStr?
  | _ => none

def q? (v : Value) : Option Q :=
  match v.asNumRaw? with
  | some (.fin q) => some q
  | _ => none

def qs? (v : Value) : Option (List Q) :=
  match v with
  | .list xs => xs.mapM q?
  | _ => none

def etime? (v : Value) : Option ETime := v.asNumRaw? >>= Num.toETime?

def record? (kind : String) (f : Obj) : Option Record :=
  if kind = "split" then do
    let parent ← (← Obj.lookup "parent" f).asStr?
    let children ← strs? (← Obj.lookup "children" f)
    let time ← q? (← Obj.lookup "time" f)
    pure (.split { parent, children, time })
  else if kind = "branch" then do
    let parent ← (← Obj.lookup "parent" f).asStr?
    let child ← (← Obj.lookup "child" f).asStr?
    let time ← etime? (← Obj.lookup "time" f)
    pure (.branch { parent, child, time })
  else if kind = "merge" || kind = "admix" then do
    let parents ← strs? (← Obj.lookup "parents" f)
    let proportions ← qs? (← Obj.lookup "proportions" f)
    let child ← (← Obj.lookup "child" f).asStr?
    let time ← etime? (← Obj.lookup "time" f)
    let m : MergeEv := { parents, proportions, child, time }
    pure (if kind = "merge" then .merge m else .admix m)
  else none

def withRecord (j : Json) (key : String) (k : Record → Json) : Json :=
  match j.getObjVal? key with
  | .error e => Json.mkObj [("fail", .str e)]
  | .ok r =>
    match r.getObjValAs? String "kind" with
    | .error e => Json.mkObj [("fail", .str e)]
    | .ok kind =>
      withValue r "fields" (fun v =>
        match v with
        | .obj f =>
          match record? kind f with
          | some rec => k rec
          | none => Json.mkObj [("fail", .str s!"not a {kind} record of the Model")]
        | _ => Json.mkObj [("fail", .str "fields")])

def failStr : CloseFail → String
  | .cls => "class" | .parent => "parent" | .children => "children" | .child => "child"
  | .proportions => "proportions" | .time => "time"

def dispatch? (op : String) (j : Json) : Option Json :=
  if op = "record_isclose" then some <|
    withRecord j "a" (fun a => withRecord j "b" (fun b =>
      let tol : Tol := match j.getObjValAs? String "rel", j.getObjValAs? String "abs" with
        | .ok r, .ok ab => match parseRat r, parseRat ab with
          | some r, some ab => ⟨r, ab⟩
          | _, _ => defaultTol
        | _, _ => defaultTol
      let (how, failed) : String × Json := match Record.assertClose tol a b with
        | .ok .pyTrue => ("True", .null)
        | .ok .pyNone => ("None", .null)
        | .error f => ("raises", .str (failStr f))
      okJ (Json.mkObj [("isclose", .bool (Record.isclose tol a b)), ("assert", .str how), ("failed", failed)])))
  else none

end Demes.Ops.RecordsClose
