/-
  The fully-resolved graph of the Model (mirror of the attrs classes of demes/demes.py).
-/
import DemesVerif.Model.Value
namespace Demes

structure Epoch where
  startTime : ETime
  endTime : Q
  startSize : Q
  endSize : Q
  sizeFunction : String
  selfingRate : Q
  cloningRate : Q
  deriving DecidableEq, Repr, Inhabited

structure Deme where
  name : String
  description : String
  startTime : ETime
  ancestors : List String
  proportions : List Q
  epochs : List Epoch
  deriving DecidableEq, Repr, Inhabited

structure Migration where
  source : String
  dest : String
  startTime : ETime
  endTime : Q
  rate : Q
  deriving DecidableEq, Repr, Inhabited

structure Pulse where
  sources : List String
  dest : String
  time : Q
  proportions : List Q
  deriving DecidableEq, Repr, Inhabited

/-- `index` is `_deme_map`: an insertion-ordered map from a name to the position of the
deme object it refers to in `demes`. -/
structure Graph where
  description : String
  timeUnits : String
  generationTime : Q
  doi : List String
  metadata : Obj
  demes : List Deme
  migrations : List Migration
  pulses : List Pulse
  index : List (String × Nat)
  deriving Repr, Inhabited

namespace Deme

/-- `Deme.end_time` = `epochs[-1].end_time`; a deme under construction (no epoch yet) has
none. -/
def endTime? (d : Deme) : Option Q := d.epochs.getLast?.map (·.endTime)

/-- total version used where the library would raise `IndexError` on an epoch-less deme;
such demes never occur in a graph handed out (V5). -/
def endTime (d : Deme) : Q := (d.endTime?).getD 0

end Deme

namespace Graph

def indexLookup (g : Graph) (name : String) : Option Nat :=
  (g.index.find? (fun kv => kv.1 = name)).map (·.2)

/-- `name in graph` -/
def hasName (g : Graph) (name : String) : Bool := (g.indexLookup name).isSome

/-- `graph[name]` -/
def deme? (g : Graph) (name : String) : Option Deme :=
  match g.indexLookup name with
  | some i => g.demes[i]?
  | none => none

/-- position of a deme by its *own* name (`deme_id = {deme.name: j ...}`): last one wins in
a Python dict comprehension with duplicate keys; names are distinct under V1. -/
def demeId? (g : Graph) (name : String) : Option Nat :=
  let n := g.demes.length
  (List.range n).reverse.find? (fun j => (g.demes[j]?.map (·.name)) = some name)

end Graph

end Demes
