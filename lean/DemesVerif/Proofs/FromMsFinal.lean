/-
  C08, stage `build_sizes`, the finishing step: "resolve/remove growth_rate in oldest epochs"
  (`finaliseGrowth`) on the Builder side and closing the open piece of a population in the
  observable of `msSem` (`finishSem`) keep the size functions equal over the lifetime.
-/
import DemesVerif.Proofs.FromMsSizeFold
namespace Demes.Proofs.FromMs
open Demes Demes.Ms Demes.Spec.MsSem Demes.Spec.C08
open Demes.Proofs.RV (bind_ok pure_ok)

/-- `finaliseGrowth` keeps the size function below the deme's `start_time` -/
theorem finaliseGrowth_size {d d' : BDeme} (h : finaliseGrowth d = .ok d') :
    d'.startTime = d.startTime ∧ d'.name = d.name ∧
    ∀ t, ETime.fin t < d.startTime → closedSizeAt d'.epochs d'.startTime t = demeSizeAt d t := by
  unfold finaliseGrowth at h
  split at h
  · cases h
  · rename_i e older he
    dsimp only at h
    split at h
    · rename_i hg
      split at h
      · cases h
      · rename_i st hst
        cases h
        refine ⟨rfl, rfl, ?_⟩
        intro t ht
        rw [hst] at ht
        have hts : t < st := ht
        unfold closedSizeAt demeSizeAt
        rw [he, hst]
        dsimp only
        by_cases h1 : e.endTime ≤ t
        · rw [if_pos h1, if_pos h1]
          congr 1
          unfold interpSize Sz.mulExp
          dsimp only
          by_cases hc : e.endSize.coef = 0
          · simp only [hc, if_true]
            cases hz : e.endSize with
            | mk c x =>
              rw [hz] at hc
              simp only at hc
              subst hc
              simp
          · simp only [hc, if_false]
            congr 1
            have hne : st - e.endTime ≠ 0 := by grind
            field_simp
            ring
        · rw [if_neg h1, if_neg h1]
    · rename_i hg
      have hg0 : e.growthRate.getD 0 = 0 := by simpa using hg
      cases h
      refine ⟨rfl, rfl, ?_⟩
      intro t ht
      unfold closedSizeAt demeSizeAt
      rw [he]
      dsimp only
      by_cases h1 : e.endTime ≤ t
      · rw [if_pos h1, if_pos h1, hg0, mulExp_neg_zero_mul]
        cases hst : d.startTime with
        | inf => rfl
        | fin st =>
          dsimp only
          congr 1
          unfold interpSize
          dsimp only
          cases hz : e.endSize with
          | mk c x => simp
      · rw [if_neg h1, if_neg h1]

/-- closing the open piece of a population keeps its size function below the end of its
lifetime -/
theorem finalSegs_size (p : Pop) (hb : SegsBelow p) (t : Q) (ht : ETime.fin t < p.hi) :
    segsSizeAt (finalSegs p) t = popSizeAt p t := by
  unfold finalSegs popSizeAt
  by_cases h0 : ETime.fin p.t0 < p.hi
  · simp only [h0, decide_true, if_true]
    rw [segsSizeAt_append]
    by_cases h1 : p.t0 ≤ t
    · rw [if_pos h1, segsSizeAt_none_of_below hb h1]
      simp only [Option.orElse_none, segsSizeAt, (mkSeg_fields _ _ _ _).1, (mkSeg_fields _ _ _ _).2.1,
        (mkSeg_fields _ _ _ _).2.2.1, (mkSeg_fields _ _ _ _).2.2.2, h1, ht, decide_true, Bool.and_self, if_true]
      rfl
    · rw [if_neg h1]
      have : segsSizeAt [mkSeg p.t0 p.hi p.size0 p.growth] t = none := by
        simp only [segsSizeAt, (mkSeg_fields _ _ _ _).1, h1, decide_false, Bool.false_and]
        rfl
      rw [this]
      cases segsSizeAt p.segs t <;> rfl
  · simp only [h0, decide_false, Bool.false_eq_true, if_false]
    have h1 : ¬ p.t0 ≤ t := by
      intro hle
      apply h0
      cases hh : p.hi with
      | inf => trivial
      | fin b =>
        rw [hh] at ht
        have : t < b := ht
        show p.t0 < b
        grind
    rw [if_neg h1]

/-- **`build_sizes`, finished.**  After the event loop, finishing deme `j` (`finaliseGrowth`) and
reading population `j+1` off the observable of `msSem` (`finalSegs`) gives the same lifetime end
and the same size at every time below it. -/
theorem final_sizes {args : Args} {pr : Parsed} {N0 : Q} {s : BState} {σ : St}
    (ha : ArgsAgree args pr) (hm : buildState args N0 = .ok s) (hs : runState pr N0 = .ok σ)
    {j : Nat} {d d' : BDeme} {p : Pop} (hd : s.demes[j]? = some d) (hp : σ.pops[j]? = some p)
    (hf : finaliseGrowth d = .ok d') :
    d'.name = d.name ∧ d'.startTime = p.hi ∧
    ∀ t, ETime.fin t < p.hi → closedSizeAt d'.epochs d'.startTime t = segsSizeAt (finalSegs p) t := by
  obtain ⟨T, h⟩ := buildState_sizeSim ha hm hs
  obtain ⟨r1, r2, _, _⟩ := h.rel j d p hd hp
  obtain ⟨f1, f2, f3⟩ := finaliseGrowth_size hf
  refine ⟨f2, by rw [f1]; exact r1.2.2, ?_⟩
  intro t ht
  rw [f3 t (by rw [r1.2.2]; exact ht), finalSegs_size p r2 t ht]
  exact r1.1 t

end Demes.Proofs.FromMs
