/-
  Proofs for C02, part 6 — equivalent spellings of the epochs of a deme resolve identically:
  writing an inferred field explicitly, and hoisting a common field into the defaults.
-/
import DemesVerif.Proofs.FillEpoch
namespace Demes.Proofs
open Demes Demes.Obj Demes.Spec

/-! ### `specEpochFieldsOf`, decomposed -/

def endTimeOf (isLast : Bool) (o : Option Value) : Option Value :=
  match o with
  | some v => some v
  | none => if isLast then some (.num (.fin 0)) else none

def startSizeOf (prev : Option Epoch) (os oe : Option Value) : Option Value :=
  match os with
  | some v => some v
  | none =>
    match prev with
    | some p => some (.num (.fin p.endSize))
    | none => oe

theorem specEpochFieldsOf_some_iff (prev : Option Epoch) (isLast : Bool)
    (f : String → Option Value) (raw : EpochRaw) :
    specEpochFieldsOf prev isLast f = some raw ↔
      ∃ a b, endTimeOf isLast (f "end_time") = some a ∧
        startSizeOf prev (notNull (f "start_size")) (notNull (f "end_size")) = some b ∧
        raw = { endTime := a, startSize := b
                endSize := (notNull (f "end_size")).getD b
                sizeFunction := notNull (f "size_function")
                selfing := (f "selfing_rate").getD (.num (.fin 0))
                cloning := (f "cloning_rate").getD (.num (.fin 0)) } := by
  have h : specEpochFieldsOf prev isLast f =
      match endTimeOf isLast (f "end_time"),
        startSizeOf prev (notNull (f "start_size")) (notNull (f "end_size")) with
      | some a, some b =>
        some { endTime := a, startSize := b
               endSize := (notNull (f "end_size")).getD b
               sizeFunction := notNull (f "size_function")
               selfing := (f "selfing_rate").getD (.num (.fin 0))
               cloning := (f "cloning_rate").getD (.num (.fin 0)) }
      | _, _ => none := rfl
  rw [h]
  constructor
  · intro h
    split at h
    · rename_i a b ha hb
      exact ⟨a, b, ha, hb, (Option.some.inj h).symm⟩
    · cases h
  · rintro ⟨a, b, ha, hb, rfl⟩
    rw [ha, hb]

/-! ### validators are idempotent on their own output -/

theorem toQ_ok {n : Num} {q : Q} (h : toQ n = .ok q) : n = .fin q := by
  cases n with
  | fin r => cases h; rfl
  | _ => cases h

theorem posFiniteQ_idem {v : Value} {q : Q} (h : posFiniteQ v = .ok q) :
    posFiniteQ (.num (.fin q)) = .ok q := by
  have e : ∀ v, posFiniteQ v = intOrFloat v >>= fun n => vPositive n >>= fun _ =>
      vFinite n >>= fun _ => toQ n := fun _ => rfl
  rw [e] at h
  obtain ⟨n, _, h⟩ := bind_ok h
  obtain ⟨_, h1, h⟩ := bind_ok h
  obtain ⟨_, h2, h⟩ := bind_ok h
  have := toQ_ok h
  subst this
  rw [e, show intOrFloat (.num (.fin q)) = .ok (.fin q) from rfl, ok_bind, h1, ok_bind, h2,
    ok_bind, h]

/-! ### **C02 (7)** writing an inferred field explicitly -/

theorem sizeFunction_mem {raw : Option Value} {s e : Q} {sf : String}
    (h : specSizeFunction raw s e = some sf) : sf ∈ ["constant", "exponential", "linear"] := by
  unfold specSizeFunction at h
  split at h
  · cases h; split <;> decide
  · split at h
    · cases h; assumption
    · cases h
  · cases h

/-- One epoch: with no value in force for `k`, putting the inferred value in force for `k`
changes nothing. -/
theorem resolvesToOf_explicit {demeStart : ETime} {prev : Option Epoch} {isLast : Bool}
    {f : String → Option Value} {ep : Epoch} {k : String} {v : Value}
    (h : EpochResolvesToOf demeStart prev isLast f ep) (hk : InferredField isLast ep k v)
    (hn : f k = none) :
    EpochResolvesToOf demeStart prev isLast (fun k' => if k = k' then some v else f k') ep := by
  obtain ⟨raw, hr, hs, hv, hc⟩ := h
  obtain ⟨a, b, ha, hb, rfl⟩ := (specEpochFieldsOf_some_iff _ _ _ _).1 hr
  obtain ⟨h1, h2, h3, h4, h5, h6⟩ := hv
  simp only at h1 h2 h3 h4 h5 h6
  unfold EpochResolvesToOf
  cases hk with
  | sizeFunction =>
    refine ⟨_, (specEpochFieldsOf_some_iff _ _ _ _).2 ⟨a, b, ?_, ?_, rfl⟩, hs, ⟨?_, ?_, ?_, ?_, ?_, ?_⟩, hc⟩
    · simpa using ha
    · simpa using hb
    · simpa using h1
    · simpa using h2
    · simpa using h3
    · have := sizeFunction_mem h4
      simp only [if_true, notNull, specSizeFunction, this]
    · simpa using h5
    · simpa using h6
  | startSize =>
    rw [hn] at hb
    refine ⟨_, (specEpochFieldsOf_some_iff _ _ _ _).2 ⟨a, .num (.fin ep.startSize), ?_, ?_, rfl⟩,
      hs, ⟨?_, ?_, ?_, ?_, ?_, ?_⟩, hc⟩
    · simpa using ha
    · simp [notNull, startSizeOf]
    · simpa using h1
    · exact posFiniteQ_idem h2
    · simp only [show ("start_size" = "end_size") = False from by decide, if_false]
      cases he : notNull (f "end_size") with
      | some w => simpa [he] using h3
      | none =>
        rw [he] at h3
        simp only [Option.getD_none] at h3 ⊢
        rw [h2] at h3
        rw [← Except.ok.inj h3]
        exact posFiniteQ_idem h2
    · simpa using h4
    · simpa using h5
    · simpa using h6
  | endSize =>
    rw [hn] at hb h3
    have hb' : startSizeOf prev (notNull (f "start_size")) (some (.num (.fin ep.endSize))) = some b := by
      unfold startSizeOf at hb ⊢
      cases hs' : notNull (f "start_size") with
      | some w => rw [hs'] at hb; exact hb
      | none =>
        rw [hs'] at hb
        cases prev with
        | some p => exact hb
        | none => cases hb
    refine ⟨_, (specEpochFieldsOf_some_iff _ _ _ _).2 ⟨a, b, ?_, ?_, rfl⟩,
      hs, ⟨?_, ?_, ?_, ?_, ?_, ?_⟩, hc⟩
    · simpa using ha
    · simpa [notNull] using hb'
    · simpa using h1
    · simpa using h2
    · simp only [if_true, notNull, Option.getD_some]
      exact posFiniteQ_idem h3
    · simpa using h4
    · simpa using h5
    · simpa using h6
  | selfing =>
    rw [hn] at h5
    refine ⟨_, (specEpochFieldsOf_some_iff _ _ _ _).2 ⟨a, b, ?_, ?_, rfl⟩,
      hs, ⟨?_, ?_, ?_, ?_, ?_, ?_⟩, hc⟩
    · simpa using ha
    · simpa using hb
    · simpa using h1
    · simpa using h2
    · simpa using h3
    · simpa using h4
    · simpa using h5
    · simpa using h6
  | cloning =>
    rw [hn] at h6
    refine ⟨_, (specEpochFieldsOf_some_iff _ _ _ _).2 ⟨a, b, ?_, ?_, rfl⟩,
      hs, ⟨?_, ?_, ?_, ?_, ?_, ?_⟩, hc⟩
    · simpa using ha
    · simpa using hb
    · simpa using h1
    · simpa using h2
    · simpa using h3
    · simpa using h4
    · simpa using h5
    · simpa using h6
  | endTime hlast =>
    rw [hn] at ha
    subst hlast
    have ha' : a = .num (.fin 0) := by
      simp only [endTimeOf, if_true] at ha
      exact (Option.some.inj ha).symm
    subst ha'
    refine ⟨_, (specEpochFieldsOf_some_iff _ _ _ _).2 ⟨.num (.fin 0), b, ?_, ?_, rfl⟩,
      hs, ⟨?_, ?_, ?_, ?_, ?_, ?_⟩, hc⟩
    · simp [endTimeOf]
    · simpa using hb
    · simpa using h1
    · simpa using h2
    · simpa using h3
    · simpa using h4
    · simpa using h5
    · simpa using h6

theorem inferredField_allowed {isLast : Bool} {ep : Epoch} {k : String} {v : Value}
    (h : InferredField isLast ep k v) : k ∈ allowedEpoch := by
  cases h <;> decide

theorem inForce_set (k : String) (v : Value) (e D : Obj) :
    (fun k' => lookup k' (insertDefaults (Obj.set k v e) D))
      = fun k' => if k = k' then some v else lookup k' (insertDefaults e D) := by
  funext k'
  rw [lookup_insertDefaults, lookup_insertDefaults, lookup_set]
  split <;> rfl

/-- **C02 (7)** Writing an inferred epoch field explicitly does not change the resolved epochs:
if the epochs `es` resolve to `eps`, the `i`-th written epoch has no value in force for field
`k` (neither explicit nor from the merged defaults `D`), and `v` is the raw form of what
resolution inferred for it (`InferredField`: the size function, the start or end size, rate `0`,
or end time `0` for the last epoch), then the epochs with `k: v` added to the `i`-th one resolve
to the same `eps`. -/
theorem explicit_default_epoch (demeStart : ETime) (D : Obj) (es : List Obj) (eps : List Epoch)
    (h : resolveEpochs demeStart D es = .ok eps) (i : Nat) (hi : i < es.length)
    (hi' : i < eps.length) (k : String) (v : Value)
    (hk : InferredField (decide (i = es.length - 1)) eps[i] k v)
    (hn : lookup k (insertDefaults es[i] D) = none) :
    resolveEpochs demeStart D (es.set i (Obj.set k v es[i])) = .ok eps := by
  rw [resolveEpochs_ok_iff] at h ⊢
  obtain ⟨hlen, hall⟩ := h
  refine ⟨by rw [List.length_set]; exact hlen, fun j hj hj' => ?_⟩
  have hj0 : j < es.length := by simpa using hj
  rw [List.length_set, List.getElem_set]
  by_cases hij : i = j
  · subst hij
    simp only [if_true]
    obtain ⟨h1, h2⟩ := hall i hi hi'
    refine ⟨checkAllowed_set (inferredField_allowed hk) h1, ?_⟩
    rw [inForce_set]
    exact resolvesToOf_explicit h2 hk hn
  · simp only [hij, if_false]
    exact hall j hj0 hj'

/-! ### **C02 (8)** hoisting a common explicit field into the defaults -/

theorem epochStep_hoist (demeStart : ETime) (D D' : Obj) (n : Nat) (acc : List Epoch) (e : Obj)
    (j : Nat) (k : String) (v : Value) (hk : k ∈ allowedEpoch) (he : lookup k e = some v)
    (hD' : ∀ k', lookup k' D' = if k = k' then some v else lookup k' D) :
    epochStep demeStart D' n acc (erase k e, j) = epochStep demeStart D n acc (e, j) := by
  have hl : ∀ k', lookup k' (insertDefaults (erase k e) D') = lookup k' (insertDefaults e D) := by
    intro k'
    rw [lookup_insertDefaults, lookup_insertDefaults, lookup_erase, hD']
    by_cases hkk : k = k'
    · subst hkk; simp [he]
    · simp [hkk]
  have hc : contains "end_time" (insertDefaults (erase k e) D')
      = contains "end_time" (insertDefaults e D) := by
    rw [contains_eq, contains_eq, hl]
  unfold epochStep
  dsimp only
  rw [checkAllowed_erase hk, hc]
  cases checkAllowed e allowedEpoch with
  | error _ => rfl
  | ok u =>
    simp only [bind, Except.bind, pure, Except.pure]
    split
    · exact addEpoch_congr _ _ _ _ (fun k' _ => hl k')
    · split
      · apply addEpoch_congr
        intro k' _
        rw [lookup_set, lookup_set, hl]
      · rfl

/-- **C02 (8)**, merged-defaults form: if every written epoch has the explicit field `k: v`, then
removing it from every epoch and putting `k: v` into the defaults (`D'` is `D` with `k ↦ v`)
gives the same result (same epochs, or the same error). -/
theorem hoist_epoch_default_merged (demeStart : ETime) (D D' : Obj) (es : List Obj) (k : String)
    (v : Value) (hk : k ∈ allowedEpoch) (hall : ∀ e ∈ es, lookup k e = some v)
    (hD' : ∀ k', lookup k' D' = if k = k' then some v else lookup k' D) :
    resolveEpochs demeStart D' (es.map (erase k)) = resolveEpochs demeStart D es := by
  rw [resolveEpochs_eq, resolveEpochs_eq, List.length_map, List.zipIdx_map, List.foldlM_map]
  apply foldlM_congr'
  rintro acc ⟨e, j⟩ hmem
  have he : e ∈ es := by
    obtain ⟨_, h2, h3⟩ := List.mem_zipIdx hmem
    rw [h3]
    exact List.getElem_mem _
  exact epochStep_hoist demeStart D D' es.length acc e j k v hk (hall e he) hD'

/-- **C02 (8)** If every epoch of a deme has the same explicit value `v` for field `k`, moving it
into the deme-level `defaults.epoch` (and removing it from every epoch) resolves identically. -/
theorem hoist_epoch_default (demeStart : ETime) (topLevel demeLevel : Obj) (es : List Obj)
    (k : String) (v : Value) (hk : k ∈ allowedEpoch) (hl : (keys demeLevel).Nodup)
    (hall : ∀ e ∈ es, lookup k e = some v) :
    resolveEpochs demeStart (update topLevel (Obj.set k v demeLevel)) (es.map (erase k))
      = resolveEpochs demeStart (update topLevel demeLevel) es := by
  apply hoist_epoch_default_merged demeStart _ _ es k v hk hall
  intro k'
  rw [lookup_update _ _ _ (keys_set_nodup hl), lookup_update _ _ _ hl, lookup_set]
  split <;> rfl

/-- … and likewise into the top-level `defaults.epoch`, provided the deme-level defaults do not
supply `k` (they would take precedence). -/
theorem hoist_epoch_default_top (demeStart : ETime) (topLevel demeLevel : Obj) (es : List Obj)
    (k : String) (v : Value) (hk : k ∈ allowedEpoch) (hl : (keys demeLevel).Nodup)
    (hnone : lookup k demeLevel = none)
    (hall : ∀ e ∈ es, lookup k e = some v) :
    resolveEpochs demeStart (update (Obj.set k v topLevel) demeLevel) (es.map (erase k))
      = resolveEpochs demeStart (update topLevel demeLevel) es := by
  apply hoist_epoch_default_merged demeStart _ _ es k v hk hall
  intro k'
  rw [lookup_update _ _ _ hl, lookup_update _ _ _ hl, lookup_set]
  by_cases hkk : k = k'
  · subst hkk; simp [hnone]
  · simp [hkk]

/-! ### an explicit `null` is an omitted field (sizes and size function) -/

theorem specEpochFieldsOf_congrNN (prev : Option Epoch) (isLast : Bool)
    (f g : String → Option Value)
    (h1 : f "end_time" = g "end_time") (h2 : notNull (f "start_size") = notNull (g "start_size"))
    (h3 : notNull (f "end_size") = notNull (g "end_size"))
    (h4 : notNull (f "size_function") = notNull (g "size_function"))
    (h5 : f "selfing_rate" = g "selfing_rate") (h6 : f "cloning_rate" = g "cloning_rate") :
    specEpochFieldsOf prev isLast f = specEpochFieldsOf prev isLast g := by
  unfold specEpochFieldsOf
  rw [h1, h2, h3, h4, h5, h6]

theorem addEpoch_congrNN (demeStart : ETime) (epochs : List Epoch) (e e' : Obj)
    (h1 : lookup "end_time" e = lookup "end_time" e')
    (h2 : notNull (lookup "start_size" e) = notNull (lookup "start_size" e'))
    (h3 : notNull (lookup "end_size" e) = notNull (lookup "end_size" e'))
    (h4 : notNull (lookup "size_function" e) = notNull (lookup "size_function" e'))
    (h5 : lookup "selfing_rate" e = lookup "selfing_rate" e')
    (h6 : lookup "cloning_rate" e = lookup "cloning_rate" e') :
    addEpoch demeStart epochs e = addEpoch demeStart epochs e' := by
  rw [addEpoch_eq, addEpoch_eq,
    specEpochFieldsOf_congrNN _ _ (fun k => lookup k e) (fun k => lookup k e') h1 h2 h3 h4 h5 h6,
    h1]

theorem notNull_null_orElse (o : Option Value) :
    notNull (some Value.null <|> o) = none := rfl

theorem epochStep_dropNull (demeStart : ETime) (D : Obj) (n : Nat) (acc : List Epoch) (e : Obj)
    (j : Nat) (k : String) (hk : k ∈ ["start_size", "end_size", "size_function"])
    (hD : notNull (lookup k D) = none) :
    epochStep demeStart D n acc (dropNull k e, j) = epochStep demeStart D n acc (e, j) := by
  unfold dropNull
  split
  · rename_i he
    have hka : k ∈ allowedEpoch := by
      simp only [List.mem_cons, List.not_mem_nil, or_false] at hk
      rcases hk with rfl | rfl | rfl <;> decide
    have hl : ∀ k', k' ≠ k →
        lookup k' (insertDefaults (erase k e) D) = lookup k' (insertDefaults e D) := by
      intro k' hkk
      rw [lookup_insertDefaults, lookup_insertDefaults, lookup_erase, if_neg (Ne.symm hkk)]
    have hlk : notNull (lookup k (insertDefaults (erase k e) D))
        = notNull (lookup k (insertDefaults e D)) := by
      rw [lookup_insertDefaults, lookup_insertDefaults, lookup_erase, if_pos rfl, he,
        notNull_null_orElse]
      simpa using hD
    have hne : ∀ k', k' ∈ ["end_time", "selfing_rate", "cloning_rate"] → k' ≠ k := by
      simp only [List.mem_cons, List.not_mem_nil, or_false] at hk ⊢
      rintro k' (rfl | rfl | rfl) <;> rcases hk with rfl | rfl | rfl <;> decide
    have hNN : ∀ k', notNull (lookup k' (insertDefaults (erase k e) D))
        = notNull (lookup k' (insertDefaults e D)) := by
      intro k'
      by_cases hkk : k' = k
      · subst hkk; exact hlk
      · rw [hl k' hkk]
    have hc : contains "end_time" (insertDefaults (erase k e) D)
        = contains "end_time" (insertDefaults e D) := by
      rw [contains_eq, contains_eq, hl _ (hne _ (by decide))]
    unfold epochStep
    dsimp only
    rw [checkAllowed_erase hka, hc]
    cases checkAllowed e allowedEpoch with
    | error _ => rfl
    | ok u =>
      simp only [bind, Except.bind, pure, Except.pure]
      split
      · exact addEpoch_congrNN _ _ _ _ (hl _ (hne _ (by decide))) (hNN _) (hNN _) (hNN _)
          (hl _ (hne _ (by decide))) (hl _ (hne _ (by decide)))
      · split
        · apply addEpoch_congrNN <;> simp only [lookup_set]
          · simp
          · simpa using hNN "start_size"
          · simpa using hNN "end_size"
          · simpa using hNN "size_function"
          · simpa using hl _ (hne "selfing_rate" (by decide))
          · simpa using hl _ (hne "cloning_rate" (by decide))
        · rfl
  · rfl

/-- **C02 (7′)** For the sizes and the size function, writing `null` is the same as omitting the
field: removing every explicit `k: null` from the epochs of a deme (the merged defaults `D` not
supplying `k`) resolves identically (same epochs or same error). -/
theorem null_epoch_field_omitted (demeStart : ETime) (D : Obj) (es : List Obj) (k : String)
    (hk : k ∈ ["start_size", "end_size", "size_function"]) (hD : notNull (lookup k D) = none) :
    resolveEpochs demeStart D (es.map (dropNull k)) = resolveEpochs demeStart D es := by
  rw [resolveEpochs_eq, resolveEpochs_eq, List.length_map, List.zipIdx_map, List.foldlM_map]
  apply foldlM_congr'
  rintro acc ⟨e, j⟩ _
  exact epochStep_dropNull demeStart D es.length acc e j k hk hD

end Demes.Proofs
