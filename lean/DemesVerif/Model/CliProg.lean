/-
  Vocabulary for the translator tie of C19 (DESIGN §4.1, group "GuardsCli").  Nothing of the Model
  proper imports this file.

  `harness/extract_tables.py` turns the bodies of `ParseCommand.__call__`, `MsCommand.__call__` and `cli`
  of `demes/__main__.py` into terms of the two statement languages below (`Stmt` for the commands, `Top`
  for `cli`).  They are given a meaning here over the Model's own abstractions (`Flags`, `Doc`, `Chain`,
  `Call`, `Outcome`, `loadAndCount`, `Chain.next`, `dumpAll` of `Model/Cli.lean`);
  `Theorems/TablesGuardsCli.lean` proves that the Model's `parse`, `msCommand` and `cli` are the meaning of
  the generated terms.
-/
import DemesVerif.Model.Cli
namespace Demes.Cli.Prog

/-- the tests of the commands -/
inductive Test
  /-- `args.json` -/
  | argsJson
  /-- `args.ms is not None` -/
  | argsMsIsNotNone
  /-- `args.ms` (truthiness) -/
  | argsMsTruthy
  /-- `args.simplified` -/
  | argsSimplified
  | and (a b : Test)
  | or (a b : Test)
  | not (a : Test)
  /-- `num_documents == k` -/
  | numDocsEq (k : Nat)
  /-- `output_format == "…"` / `output_format != "…"` -/
  | fmtEq (f : Fmt)
  | fmtNe (f : Fmt)
deriving DecidableEq, Repr, Inhabited

/-- the `format=` keyword of a `demes.dump` call -/
inductive FmtArg
  /-- absent: the default of `dump`'s signature -/
  | default
  /-- `format=output_format` -/
  | var
  | const (f : Fmt)
deriving DecidableEq, Repr, Inhabited

/-- the `simplified=` keyword of a `demes.dump` / `demes.dump_all` call -/
inductive SimplArg
  /-- absent: the default of the callee's signature -/
  | default
  /-- `simplified=args.simplified` -/
  | args
  | const (b : Bool)
deriving DecidableEq, Repr, Inhabited

/-- the `N0=` keyword of `demes.to_ms` / `ms.build_graph` -/
inductive N0Arg
  /-- `N0=args.ms` -/
  | argsMs
  /-- `N0=args.reference_size` -/
  | argsReferenceSize
  /-- absent -/
  | missing
deriving DecidableEq, Repr, Inhabited

/-- the statements of `ParseCommand.__call__` / `MsCommand.__call__`; every library call writes to
`sys.stdout` (anything else is not translated) -/
inductive Stmt
  | skip
  | seq (a b : Stmt)
  | ite (c : Test) (t e : Stmt)
  /-- `output_format = "…"` -/
  | setFmt (f : Fmt)
  /-- `num_documents, graphs = self.load_and_count_documents(args.filename)` -/
  | loadAndCount
  /-- `graph = next(graphs)` -/
  | nextGraph
  /-- `print(demes.to_ms(graph, N0=…))` -/
  | printToMs (n0 : N0Arg)
  /-- `demes.dump(graph, sys.stdout, format=…, simplified=…)` -/
  | dump (fmt : FmtArg) (s : SimplArg)
  /-- `demes.dump_all(graphs, sys.stdout, simplified=…)` -/
  | dumpAll (s : SimplArg)
  /-- `raise RuntimeError(…)` -/
  | raiseRuntime
  /-- `graph = ms.build_graph(args, N0=…)` -/
  | buildGraph (n0 : N0Arg)
deriving DecidableEq, Repr, Inhabited

/-- the defaults of the keyword-only parameters of `demes.dump` and `demes.dump_all` (load_dump.py) -/
structure Defaults where
  dumpFormat : Fmt
  dumpSimplified : Bool
  dumpAllSimplified : Bool
deriving DecidableEq, Repr, Inhabited

/-- what a command is run on -/
structure Input where
  lib : Call → Bool
  flags : Flags
  /-- the documents of `args.filename` (`demes parse`) -/
  docs : List Doc
  /-- the outcome of `ms.build_graph(args, N0=args.reference_size)` (`demes ms`) -/
  built : Doc
  defaults : Defaults

/-- the local variables and what has been written to stdout -/
structure St where
  fmt : Option Fmt := none
  numDocs : Option Nat := none
  graphs : Option Chain := none
  graph : Option Nat := none
  printed : List Call := []
deriving DecidableEq, Repr, Inhabited

def evalTest (f : Flags) (st : St) : Test → Bool
  | .argsJson => f.json
  | .argsMsIsNotNone => f.ms.isSome
  | .argsMsTruthy => msTruthy f
  | .argsSimplified => f.simplified
  | .and a b => evalTest f st a && evalTest f st b
  | .or a b => evalTest f st a || evalTest f st b
  | .not a => !evalTest f st a
  | .numDocsEq k => st.numDocs == some k
  | .fmtEq x => st.fmt == some x
  | .fmtNe x => st.fmt != some x

/-- the process dies of an uncaught exception that the Model has no name for (an unbound local, a
missing attribute): status 1 -/
def crash (st : St) : Except Outcome St := .error ⟨st.printed, .loadError⟩

/-- a library call writing to stdout: its output is complete, or it raises -/
def libCall (I : Input) (st : St) (c : Call) : Except Outcome St :=
  if I.lib c then .ok { st with printed := st.printed ++ [c] } else .error ⟨st.printed, .libError c⟩

def SimplArg.eval (f : Flags) (dflt : Bool) : SimplArg → Bool
  | .default => dflt
  | .args => f.simplified
  | .const b => b

/-- a callee whose outcome is `o` (what it printed, how it ended), seen from its caller: it returned,
or the process has ended (nothing catches the exception); the iterator it consumed is used up -/
def afterSt (st : St) (o : Outcome) : Except Outcome St :=
  if o.exit = .exit0 then .ok { st with printed := st.printed ++ o.printed, graphs := some ⟨[], []⟩ }
  else .error ⟨st.printed ++ o.printed, o.exit⟩

/-- `.ok st`: the statement is over normally; `.error o`: the process has ended with outcome `o` -/
def exec (I : Input) : Stmt → St → Except Outcome St
  | .skip, st => .ok st
  | .seq a b, st =>
    match exec I a st with
    | .ok st' => exec I b st'
    | .error o => .error o
  | .ite c t e, st => if evalTest I.flags st c then exec I t st else exec I e st
  | .setFmt x, st => .ok { st with fmt := some x }
  | .loadAndCount, st =>
    match loadAndCount I.docs with
    | none => .error ⟨st.printed, .loadError⟩
    | some (n, c) => .ok { st with numDocs := some n, graphs := some c }
  | .nextGraph, st =>
    match st.graphs with
    | none => crash st
    | some c =>
      match c.next with
      | .yield g rest => .ok { st with graph := some g, graphs := some rest }
      | _ => .error ⟨st.printed, .loadError⟩
  | .printToMs n0, st =>
    match st.graph, n0, I.flags.ms with
    | some g, .argsMs, some q => libCall I st (.toMs g q)
    | _, _, _ => crash st
  | .dump fa sa, st =>
    let fmt := match fa with
      | .default => some I.defaults.dumpFormat
      | .var => st.fmt
      | .const x => some x
    match st.graph, fmt with
    | some g, some x => libCall I st (.dump g x (sa.eval I.flags I.defaults.dumpSimplified))
    | _, _ => crash st
  | .dumpAll sa, st =>
    match st.graphs with
    | none => crash st
    | some c =>
      afterSt st (dumpAll I.lib (sa.eval I.flags I.defaults.dumpAllSimplified) c)
  | .raiseRuntime, st => .error ⟨st.printed, .unsupported⟩
  | .buildGraph n0, st =>
    match n0, I.built with
    | .argsReferenceSize, .ok g => .ok { st with graph := some g }
    | .argsReferenceSize, .fail => .error ⟨st.printed, .loadError⟩
    | _, _ => crash st

/-- the end of the process: the last statement is over (status 0), or the process has ended before -/
def finishSt : Except Outcome St → Outcome
  | .ok st => ⟨st.printed, .exit0⟩
  | .error o => o

/-- a command's `__call__` from its first statement to the end of the process -/
def run (I : Input) (prog : Stmt) : Outcome := finishSt (exec I prog {})

/-! ### `cli` -/

/-- the statements of `cli(args_list)` -/
inductive Top
  | skip
  | seq (a b : Top)
  /-- `top_parser = get_demes_parser()` -/
  | getParser
  /-- `args = top_parser.parse_args(args_list)` -/
  | parseArgs
  /-- `if args.subcommand is None: body` (`subcommand` = the `dest` of `add_subparsers`) -/
  | ifNoSubcommand (body : Top)
  /-- `top_parser.print_help()` -/
  | printHelp
  /-- `exit(code)` -/
  | exit (code : Nat)
  /-- `args.func(args)` -/
  | dispatch
deriving DecidableEq, Repr, Inhabited

/-- is the option with this `dest` given on the command line? -/
def flagGiven (f : Flags) (dest : String) : Bool :=
  if dest = "json" then f.json
  else if dest = "ms" then f.ms.isSome
  else if dest = "simplified" then f.simplified
  else false

/-- `argparse` refuses two options of one mutually exclusive group -/
def conflict (groups : List (List String)) (f : Flags) : Bool :=
  groups.any (fun g => decide ((g.filter (flagGiven f)).length ≥ 2))

/-- what `cli` knows from the parsers: the mutually exclusive groups (by `dest`) of `demes parse`, the
class whose instance `set_defaults(func=self)` registers for each sub-command, and the meaning of the
`__call__` of these classes -/
structure TopEnv where
  exclusive : List (List String)
  dispatch : List (String × String)
  parseCall : Flags → List Doc → Outcome
  msCall : Doc → Outcome

def Cmd.name : Cmd → Option String
  | .noSub => none
  | .parse _ _ _ => some "parse"
  | .ms _ => some "ms"

/-- a callee whose outcome is `o`, seen from `cli`: it returned, or the process has ended — `cli` has no
exception handling -/
def after (out : List Call) (o : Outcome) : Except Outcome (List Call) :=
  if o.exit = .exit0 then .ok (out ++ o.printed) else .error ⟨out ++ o.printed, o.exit⟩

def finish : Except Outcome (List Call) → Outcome
  | .ok out => ⟨out, .exit0⟩
  | .error o => o

def execTop (E : TopEnv) (cmd : Cmd) : Top → List Call → Except Outcome (List Call)
  | .skip, out => .ok out
  | .seq a b, out =>
    match execTop E cmd a out with
    | .ok out' => execTop E cmd b out'
    | .error o => .error o
  | .getParser, out => .ok out
  | .parseArgs, out =>
    match cmd with
    | .parse f fileOk _ =>
      if conflict E.exclusive f then .error ⟨out, .usage⟩     -- "not allowed with argument": status 2
      else if !fileOk then .error ⟨out, .usage⟩               -- FileType: "can't open": status 2
      else .ok out
    | _ => .ok out
  | .ifNoSubcommand body, out =>
    match cmd with
    | .noSub => execTop E cmd body out
    | _ => .ok out
  | .printHelp, out => .ok (out ++ [.help])
  | .exit code, out => .error ⟨out, if code = 0 then .exit0 else .usage⟩
  | .dispatch, out =>
    let callee := fun (cls : String) =>
      match cmd with
      | .parse f _ docs => if cls = "ParseCommand" then some (E.parseCall f docs) else none
      | .ms built => if cls = "MsCommand" then some (E.msCall built) else none
      | .noSub => none
    match (Cmd.name cmd).bind (fun n => (E.dispatch.find? (fun d => d.1 = n)).bind (fun d => callee d.2)) with
    | some o => after out o
    | none => .error ⟨out, .loadError⟩

def runTop (E : TopEnv) (prog : Top) (cmd : Cmd) : Outcome := finish (execTop E cmd prog [])

/-! ### `load_and_count_documents` with its `break` test abstracted -/

def lookLoopWith (brk : Nat → Bool) : List Doc → List Nat → Option (List Nat × List Doc)
  | [], acc => some (acc, [])
  | .fail :: _, _ => none
  | .ok g :: rest, acc =>
    let acc := acc ++ [g]
    if brk acc.length then some (acc, rest)
    else lookLoopWith brk rest acc

end Demes.Cli.Prog
