/-
  Driver ops exposing the declarative Spec of resolution (Spec/C03.lean): the independent
  validator `acceptsB` (= schemaOK ∧ fill succeeds ∧ validGraph) and the filled-in graph.
-/
import DemesVerif.Ops.Core
import DemesVerif.Spec.C03
namespace Demes.Ops.SpecOps
open Lean Demes Demes.Wire Demes.Ops.Core

def dispatch? (op : String) (j : Json) : Option Json :=
  if op = "accepts" then some <|
    withValue j "doc" (fun v =>
      Json.mkObj [("ok", .bool (Spec.acceptsB v)), ("wf", .bool v.wf), ("schema", .bool (Spec.schemaOK v)),
                  ("fill", match Spec.fill v with
                    | some g => Json.mkObj [("asdict", ofValue g.asdict), ("failing", .arr ((Spec.failing g).map Json.str).toArray)]
                    | none => .null)])
  else none

end Demes.Ops.SpecOps
