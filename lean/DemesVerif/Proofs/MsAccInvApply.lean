/-
  C09, acceptance — the end of a good time group: what `applyParams` writes (an ancestry for the demes joined
  in the group, a pulse for the other moves) is well formed, and what the state held before stays well
  formed; hence `AccInv` at the time of the group.
-/
import DemesVerif.Proofs.MsAccInvEvents
import DemesVerif.Proofs.MsAccInvOps
import DemesVerif.Proofs.MsAccInvAlg
namespace Demes.Proofs.MsAcc
open Demes Demes.Ms Demes.Spec Demes.Spec.MsSem Demes.Spec.C08 Demes.Proofs.FromMs

theorem fin_lt_inf (a : Q) : ETime.fin a < ETime.inf := by
  show ETime.lt _ _
  simp [ETime.lt]

theorem fin_lt_fin {a b : Q} (h : a < b) : ETime.fin a < ETime.fin b := h

/-- `applyParams` does not change `joined` -/
theorem apFold_joined (time : Q) (g : GState) : ∀ (ps : List (Nat × Nat × Q)) (s : BState),
    (ps.foldl (apStep time g) s).joined = s.joined := by
  intro ps
  induction ps with
  | nil => intro s; rfl
  | cons e ps ih =>
    intro s
    rw [List.foldl_cons, ih, apStep_cases]
    split
    · rfl
    · split <;> rfl

theorem applyParams_joinedEq (time : Q) (s : BState) (g : GState) : (applyParams time s g).joined = s.joined := by
  rw [applyParams_eq]; exact apFold_joined time g g.params s

theorem ancOf_row_mem {g : GState} {j : Nat} (h : (ancOf g j).isEmpty = false) : g.lm.getD j [] ∈ g.lm := by
  by_cases hj : j < g.lm.length
  · rw [List.getD_eq_getElem?_getD, List.getElem?_eq_getElem hj]
    exact List.getElem_mem hj
  · exfalso
    unfold ancOf at h
    rw [List.getD_eq_getElem?_getD, List.getElem?_eq_none_iff.mpr (by omega)] at h
    simp at h

section
variable {P : Nat → Prop} {T T' : Q} {s : BState} {σ : St} {s1 : BState} {g1 : GState} {L1 : List (Nat × Row)}
  {ops : List MOp}

/-- everything that is known at the end of the options of a good group of the fragment -/
structure EndCtx (P : Nat → Prop) (T T' : Q) (s : BState) (σ : St) (s1 : BState) (g1 : GState)
    (L1 : List (Nat × Row)) (ops : List MOp) : Prop where
  sim : SizeSim T s σ
  acc : AccInv T s
  he : GroupEnd T' s σ s1 g1 L1 ops
  hx : GroupEndX s s1 ops
  mid : Mid P T T' s s1 g1
  le : T ≤ T'
  lt : ops ≠ [] → T < T'
  qpos : ∀ o ∈ ops, 0 < o.2.2
  ne : ∀ o ∈ ops, o.1 ≠ o.2.1
  jlt1 : ∀ j ∈ s1.joined, j < s1.numDemes
  js : ∀ j, s.joined.contains j = true → s1.joined.contains j = true ∧ s1.demes[j]? = s.demes[j]?

theorem EndCtx.frac (c : EndCtx P T T' s σ s1 g1 L1 ops) : ∀ o ∈ ops, 0 ≤ o.2.2 ∧ o.2.2 ≤ 1 :=
  fun o ho => ⟨(c.he.pos o ho).2.2.1, (c.he.pos o ho).2.2.2⟩

theorem EndCtx.bounds (c : EndCtx P T T' s σ s1 g1 L1 ops) :
    ∀ o ∈ ops, 1 ≤ o.1 ∧ o.1 ≤ s1.numDemes ∧ 1 ≤ o.2.1 ∧ o.2.1 ≤ s1.numDemes :=
  fun o ho => ⟨(c.he.pos o ho).1, (c.he.ub o ho).1, (c.he.pos o ho).2.1, (c.he.ub o ho).2⟩

theorem EndCtx.len0 (c : EndCtx P T T' s σ s1 g1 L1 ops) : s.demes.length = s.numDemes := by
  rw [c.sim.len, c.sim.num]

/-- the row of the source of a move, if it has a positive entry off the diagonal -/
theorem EndCtx.row (c : EndCtx P T T' s σ s1 g1 L1 ops) {j : Nat} {o : MOp} (ho : o ∈ ops) (hoj : o.1 = j + 1)
    (hanc : (ancOf g1 j).isEmpty = false) :
    j < s.numDemes ∧ (∃ d0, s.demes[j]? = some d0 ∧ d0.startTime = .inf)
      ∧ ∀ k, lmGet g1.lm j k = foldOps ops (delta (j + 1)) (k + 1) := by
  obtain ⟨x, _, hx⟩ := (anc_nonempty_iff g1 j).mp hanc
  have hj : j < s.numDemes := by
    by_contra hge
    rw [c.mid.zrow j (by omega) x] at hx
    exact Rat.lt_irrefl hx
  have hjl : j < s.demes.length := by rw [c.len0]; exact hj
  have h0 := List.getElem?_eq_getElem hjl
  have hal := c.he.srcAlive o ho
  rw [hoj, Nat.add_sub_cancel] at hal
  have hinf := ((c.acc.demes j _ h0).live hal).1
  obtain ⟨ir, hir, hkey⟩ := alive_key c.sim c.he h0 hinf
  obtain ⟨_, hrow⟩ := lm_row c.he hir
  rw [hkey, Nat.add_sub_cancel] at hrow
  exact ⟨hj, ⟨_, h0, hinf⟩, hrow⟩

/-- the deme that is the target of a move, after `applyParams`: it exists, is not older than `T'` and is alive -/
theorem EndCtx.alive1 (c : EndCtx P T T' s σ s1 g1 L1 ops) {k : Nat} (hk : k < s1.numDemes)
    (hal : s1.joined.contains k = false) :
    ∃ Dk, (applyParams T' s1 g1).demes[k]? = some Dk ∧ bEndTime Dk ≤ T' ∧ Dk.startTime = .inf := by
  have hk2 : k < (applyParams T' s1 g1).demes.length := by rw [(s2_len c.he).1]; exact hk
  have hD := List.getElem?_eq_getElem hk2
  obtain ⟨d, hd, _, _, hst, hb, _⟩ := s2_at c.he hD
  refine ⟨_, hD, ?_, ?_⟩
  · rw [hb]; exact (c.mid.ep k d hd).bEnd_le
  · rw [hst]; exact (c.mid.live k d hd hal).1

theorem EndCtx.target (c : EndCtx P T T' s σ s1 g1 L1 ops) {o : MOp} (ho : o ∈ ops) :
    ∃ Dk, (applyParams T' s1 g1).demes[o.2.1 - 1]? = some Dk ∧ bEndTime Dk ≤ T' ∧ Dk.startTime = .inf := by
  obtain ⟨_, _, h3, h4⟩ := c.bounds o ho
  exact c.alive1 (by omega) (c.hx.tgtAlive o ho)

/-- a deme of the state before the group, after the group: same oldest end time; same start time, or it was
alive and is joined now -/
theorem EndCtx.transfer (c : EndCtx P T T' s σ s1 g1 L1 ops) {k : Nat} {dk : BDeme} (hk : s.demes[k]? = some dk) :
    ∃ Dk, (applyParams T' s1 g1).demes[k]? = some Dk ∧ bEndTime Dk = bEndTime dk ∧
      (Dk.startTime = dk.startTime ∨ (dk.startTime = .inf ∧ Dk.startTime = .fin T' ∧ T < T')) := by
  have hk0 : k < s.numDemes := by rw [← c.len0]; exact (List.getElem?_eq_some_iff.mp hk).1
  have hk2 : k < (applyParams T' s1 g1).demes.length := by rw [(s2_len c.he).1]; have := c.he.n0le; omega
  have hD := List.getElem?_eq_getElem hk2
  obtain ⟨d, hd, _, _, hst, hb, _⟩ := s2_at c.he hD
  obtain ⟨d0, h0, e1, e2⟩ := c.he.dOld k d hk0 hd
  rw [hk] at h0
  cases h0
  refine ⟨_, hD, by rw [hb, e1], ?_⟩
  rw [hst]
  rcases e2 with e2 | ⟨e2, e3, o, ho, _⟩
  · exact Or.inl e2
  · exact Or.inr ⟨e3, e2, c.lt (List.ne_nil_of_mem ho)⟩

theorem EndCtx.transfer_lt (c : EndCtx P T T' s σ s1 g1 L1 ops) {k : Nat} {dk : BDeme} (hk : s.demes[k]? = some dk)
    {t : Q} (ht : t ≤ T) (hlt : ETime.fin t < dk.startTime) :
    ∃ Dk, (applyParams T' s1 g1).demes[k]? = some Dk ∧ bEndTime Dk = bEndTime dk ∧ ETime.fin t < Dk.startTime := by
  obtain ⟨Dk, hD, hb, hs⟩ := c.transfer hk
  refine ⟨Dk, hD, hb, ?_⟩
  rcases hs with hs | ⟨_, hs, hTT⟩
  · rw [hs]; exact hlt
  · rw [hs]; exact fin_lt_fin (lt_of_le_of_lt ht hTT)

/-! ## what was there before the group -/

theorem EndCtx.ancWF_old (c : EndCtx P T T' s σ s1 g1 L1 ops) {j : Nat} {Tj : Q} {d : BDeme} (hT : Tj ≤ T)
    (h : AncWF s j Tj d) : AncWF (applyParams T' s1 g1) j Tj d := by
  obtain ⟨as, h1, h2, h3, h4, h5⟩ := h.anc
  refine ⟨as, h1, h2, h3, ?_, h5⟩
  intro a ha
  obtain ⟨k, dk, e1, e2, e3, e4, e5⟩ := h4 a ha
  obtain ⟨Dk, hD, hb, hs⟩ := c.transfer_lt e3 hT e5
  exact ⟨k, Dk, e1, e2, hD, by rw [hb]; exact e4, hs⟩

theorem EndCtx.pulseWF_old (c : EndCtx P T T' s σ s1 g1 L1 ops) {p : BPulse} (h : PulseWF T s p) :
    PulseWF T' (applyParams T' s1 g1) p := by
  obtain ⟨j, k, q, dj, dk, a1, a2, a3, a4, a5, a6, a7, a8, a9, a10, a11, a12, a13, a14⟩ := h.shape
  obtain ⟨Dj, hDj, hbj, hsj⟩ := c.transfer_lt a9 a8 a13
  obtain ⟨Dk, hDk, hbk, hsk⟩ := c.transfer_lt a10 a8 a14
  have h8 : p.time ≤ T' := Rat.le_trans a8 c.le
  have h11 : bEndTime Dj < p.time := by rw [hbj]; exact a11
  have h12 : bEndTime Dk ≤ p.time := by rw [hbk]; exact a12
  exact ⟨⟨j, k, q, Dj, Dk, a1, a2, a3, a4, a5, a6, a7, h8, hDj, hDk, h11, h12, hsj, hsk⟩⟩

/-! ## the ancestry `applyParams` writes -/

/-- a source whose row keeps nothing at home has been joined in the group -/
theorem EndCtx.assign_joined (c : EndCtx P T T' s σ s1 g1 L1 ops) {j : Nat} {o : MOp} (ho : o ∈ ops)
    (hoj : o.1 = j + 1) (ha : assignB g1 j = true) :
    ∃ d, s1.demes[j]? = some d ∧ d.startTime = .fin T' := by
  unfold assignB at ha
  simp only [Bool.and_eq_true, Bool.not_eq_true', decide_eq_true_eq] at ha
  obtain ⟨_, _, hrow⟩ := c.row ho hoj ha.1
  have h0 : foldOps ops (delta (j + 1)) (j + 1) = 0 := by rw [← hrow j]; exact ha.2
  obtain ⟨o', ho', e1, e2⟩ := diag_zero_joined c.frac h0
  obtain ⟨d, hd, hst⟩ := c.he.dJoin o' ho' e2
  rw [e1, Nat.add_sub_cancel] at hd
  exact ⟨d, hd, hst⟩

theorem EndCtx.ancWF_set (c : EndCtx P T T' s σ s1 g1 L1 ops) {j : Nat} {o : MOp} (ho : o ∈ ops)
    (hoj : o.1 = j + 1) (ha : assignB g1 j = true) (d : BDeme) :
    AncWF (applyParams T' s1 g1) j T' (setAnc g1 j d) := by
  have ha' := ha
  unfold assignB at ha'
  simp only [Bool.and_eq_true, Bool.not_eq_true', decide_eq_true_eq] at ha'
  obtain ⟨hne, hdiag⟩ := ha'
  obtain ⟨hj, _, hrow⟩ := c.row ho hoj hne
  have hrowmem := ancOf_row_mem hne
  have hprops := ancOf_props (g := g1) (j := j) (N := s1.numDemes) (r := j + 1) (ops := ops)
    (c.he.lmLen _ hrowmem) hrow c.frac c.bounds (by omega) (by have := c.he.n0le; omega) hdiag
  have hA : (setAnc g1 j d).ancestors = some ((ancOf g1 j).map (fun po => Ms.demeName po.2)) := rfl
  have hP : (setAnc g1 j d).proportions = some ((ancOf g1 j).map (·.1)) := rfl
  have hL : ((ancOf g1 j).map (·.1)).length = ((ancOf g1 j).map (fun po => Ms.demeName po.2)).length := by
    rw [List.length_map, List.length_map]
  apply AncWF.mk
  refine Exists.intro ((ancOf g1 j).map (fun po => Ms.demeName po.2)) ?_
  refine And.intro hA ?_
  refine And.intro ?_ ?_
  · intro e
    rw [List.map_eq_nil_iff] at e
    rw [e] at hne
    cases hne
  refine And.intro (ancOf_names_nodup g1 j) ?_
  refine And.intro ?_ ?_
  · intro a hmem
    obtain ⟨po, hpo, rfl⟩ := List.mem_map.mp hmem
    obtain ⟨e1, e2, e3⟩ := ancOf_mem hpo
    have hpos : 0 < foldOps ops (delta (j + 1)) (po.2 + 1) := by rw [← hrow, ← e1]; exact e2
    obtain ⟨o', ho', e4⟩ := pos_is_target c.frac (by omega) hpos
    obtain ⟨Dk, hD, hb, hs⟩ := c.target ho'
    rw [e4, Nat.add_sub_cancel] at hD
    exact ⟨po.2, Dk, rfl, e3, hD, hb, by rw [hs]; exact fin_lt_inf T'⟩
  · right
    exact ⟨(ancOf g1 j).map (·.1), hP, hL, hprops.1, hprops.2⟩

/-- a deme joined in the group that `applyParams` leaves alone keeps the ancestor `-ej` wrote -/
theorem EndCtx.ancWF_keep (c : EndCtx P T T' s σ s1 g1 L1 ops) {j : Nat} {d : BDeme} (hd : s1.demes[j]? = some d)
    (h1 : s1.joined.contains j = true) (h0 : s.joined.contains j = false) (hp : d.proportions = none) :
    AncWF (applyParams T' s1 g1) j T' d := by
  obtain ⟨k, e1, e2, o, ho, e3⟩ := c.hx.ancTgt j d hd h1 h0
  obtain ⟨Dk, hD, hb, hs⟩ := c.target ho
  rw [e3, Nat.add_sub_cancel] at hD
  refine ⟨[Ms.demeName k], e1, by simp, by simp, ?_, Or.inl ⟨hp, rfl⟩⟩
  intro a ha
  simp only [List.mem_singleton] at ha
  subst ha
  exact ⟨k, Dk, rfl, e2, hD, hb, by rw [hs]; exact fin_lt_inf T'⟩

/-! ## the pulses `applyParams` writes -/

theorem EndCtx.pulseWF_new (c : EndCtx P T T' s σ s1 g1 L1 ops) {o : MOp} (ho : o ∈ ops)
    (hem : emitB g1 (o.1 - 1) = true) : PulseWF T' (applyParams T' s1 g1) (mkPulse T' (op0 o)) := by
  obtain ⟨b1, b2, b3, b4⟩ := c.bounds o ho
  have hoj : o.1 = (o.1 - 1) + 1 := by omega
  have hem' := hem
  unfold emitB at hem'
  simp only [Bool.and_eq_true, Bool.not_eq_true', decide_eq_false_iff_not] at hem'
  obtain ⟨hne, hdiag⟩ := hem'
  obtain ⟨hj, ⟨d0, h0, hinf⟩, hrow⟩ := c.row ho hoj hne
  have hTT := c.lt (List.ne_nil_of_mem ho)
  have hT0 : 0 < T' := lt_of_le_of_lt c.acc.nonneg hTT
  -- the destination
  obtain ⟨Dj, hDj, hbj, hsj⟩ := c.transfer h0
  have hsj' : Dj.startTime = .inf := by
    rcases hsj with hsj | ⟨_, hsj, _⟩
    · rw [hsj]; exact hinf
    · exfalso
      -- joined in the group: the diagonal would be zero
      obtain ⟨d, hd, _, _, hst, _, _⟩ := s2_at c.he hDj
      obtain ⟨d0', h0', _, e2⟩ := c.he.dOld _ d hj hd
      rw [h0] at h0'
      cases h0'
      rcases e2 with e2 | ⟨_, _, o', ho', e3, e4⟩
      · rw [← hst, hsj, hinf] at e2; cases e2
      · have hcol := (join_facts c.he ho' e4).1 (o.1 - 1 + 1)
        rw [e3, ← hrow] at hcol
        exact hdiag hcol
  -- the source
  obtain ⟨Dk, hDk, hbk, hsk⟩ := c.target ho
  have hep := ((c.acc.demes _ d0 h0).ep).bEnd_le
  refine ⟨⟨o.1 - 1, o.2.1 - 1, o.2.2, Dj, Dk, rfl, rfl, rfl, ?_, c.qpos o ho, (c.frac o ho).2, hT0, Rat.le_refl,
    hDj, hDk, ?_, hbk, ?_, ?_⟩⟩
  · have := c.ne o ho; omega
  · rw [hbj]; exact lt_of_le_of_lt hep hTT
  · rw [hsj']; exact fin_lt_inf T'
  · rw [hsk]; exact fin_lt_inf T'

/-! ## one deme after `applyParams` -/

theorem EndCtx.demeWF (c : EndCtx P T T' s σ s1 g1 L1 ops) {j : Nat} {D : BDeme}
    (hD : (applyParams T' s1 g1).demes[j]? = some D) : DemeWF T' (applyParams T' s1 g1) j D := by
  obtain ⟨d, hd, hlt, _, hst, hb, hDeq⟩ := s2_at c.he hD
  have hepo : D.epochs = d.epochs := by
    rw [hDeq]; split <;> rfl
  -- when `applyParams` writes the ancestry of deme `j`
  have hcond : (g1.params.any (fun e => decide (e.1 = j)) && assignB g1 j) = true →
      ∃ o ∈ ops, o.1 = j + 1 ∧ assignB g1 j = true := by
    intro hc
    simp only [Bool.and_eq_true] at hc
    obtain ⟨hany, ha⟩ := hc
    rw [c.he.params, List.any_eq_true] at hany
    obtain ⟨e, hem, hej⟩ := hany
    obtain ⟨o, ho, rfl⟩ := List.mem_map.mp hem
    have h2 : o.1 - 1 = j := of_decide_eq_true hej
    have := (c.he.pos o ho).1
    exact ⟨o, ho, by omega, ha⟩
  refine ⟨(c.mid.ep j d hd).congr hepo, ?_, ?_⟩
  · intro hj
    rw [applyParams_joinedEq] at hj
    obtain ⟨l1, l2, l3⟩ := c.mid.live j d hd hj
    have hDd : D = d := by
      rw [hDeq]
      split
      · rename_i hc
        obtain ⟨o, ho, hoj, ha⟩ := hcond hc
        obtain ⟨d', hd', hst'⟩ := c.assign_joined ho hoj ha
        rw [hd] at hd'
        cases hd'
        rw [l1] at hst'
        cases hst'
      · rfl
    rw [hDd]
    exact ⟨l1, l2, l3⟩
  · intro hj
    rw [applyParams_joinedEq] at hj
    by_cases hj0 : s.joined.contains j = true
    · -- joined before the group
      obtain ⟨_, hsame⟩ := c.js j hj0
      have hDd : (applyParams T' s1 g1).demes[j]? = s.demes[j]? := (applyParams_joined c.he hj0).trans hsame
      rw [hD] at hDd
      obtain ⟨Tj, t1, t2, t3, t4, t5⟩ := (c.acc.demes j D hDd.symm).dead hj0
      exact ⟨Tj, t1, t2, Rat.le_trans t3 c.le, t4, c.ancWF_old t3 t5⟩
    · -- joined in the group
      have hj0' : s.joined.contains j = false := by simpa using hj0
      obtain ⟨hTT, m2, m3, m4⟩ := c.mid.dead j d hd hj hj0'
      have hT0 : 0 < T' := lt_of_le_of_lt c.acc.nonneg hTT
      refine ⟨T', by rw [hst]; exact m2, hT0, Rat.le_refl, ?_, ?_⟩
      · rw [hepo]
        rcases m4 with ⟨d0, h0, he0⟩ | ⟨_, e, he1, he2⟩
        · left
          intro e r her
          rw [he0] at her
          exact lt_of_le_of_lt ((c.acc.demes j d0 h0).ep.headLe e r her) hTT
        · right
          exact ⟨e, he1, he2⟩
      · rw [hDeq]
        split
        · rename_i hc
          obtain ⟨o, ho, hoj, ha⟩ := hcond hc
          exact c.ancWF_set ho hoj ha d
        · exact c.ancWF_keep hd hj hj0' m3

/-- **`AccInv` after the group** -/
theorem EndCtx.accInv (c : EndCtx P T T' s σ s1 g1 L1 ops) : AccInv T' (applyParams T' s1 g1) := by
  obtain ⟨hlen2, hnum2⟩ := s2_len c.he
  refine ⟨Rat.le_trans c.acc.nonneg c.le, by rw [hlen2, hnum2], ?_, ?_, fun j D hD => c.demeWF hD, ?_⟩
  · rw [hnum2]
    exact Nat.le_trans c.acc.pos c.he.n0le
  · rw [applyParams_joinedEq, hnum2]
    exact c.jlt1
  · intro p hp
    rw [applyParams_eq, (apFold T' g1 g1.params s1).1, c.he.pulses] at hp
    rcases List.mem_append.mp hp with hp | hp
    · exact c.pulseWF_old (c.acc.pulses p hp)
    · obtain ⟨e, hem, rfl⟩ := List.mem_map.mp hp
      obtain ⟨hem1, hem2⟩ := List.mem_filter.mp hem
      rw [c.he.params] at hem1
      obtain ⟨o, ho, rfl⟩ := List.mem_map.mp hem1
      exact c.pulseWF_new ho hem2

end

end Demes.Proofs.MsAcc
