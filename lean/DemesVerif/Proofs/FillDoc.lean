/-
  Proofs for C02, part 7 — whole documents: the pulses of a resolved graph are the stably sorted
  pulses in document order, and a document with a symmetric migration resolves exactly like the
  document with that migration written out.
-/
import DemesVerif.Proofs.FillMig
import DemesVerif.Proofs.FillPulse
namespace Demes.Proofs
open Demes Demes.Obj Demes.Spec

/-! ### `resolve`, decomposed -/

/-- everything `resolve` has established when it succeeds -/
theorem resolve_ok {dataV : Value} {g : Graph} (h : resolve dataV = .ok g) :
    ∃ data defaults DD MD PD GE g0 demesList g1 migs g2 pulses g3,
      dataV = .obj data ∧
      popObject data "defaults" = .ok defaults ∧
      popObject defaults "deme" = .ok DD ∧ popObject defaults "migration" = .ok MD ∧
      popObject defaults "pulse" = .ok PD ∧ popObject defaults "epoch" = .ok GE ∧
      resolveHeader data = .ok g0 ∧
      popObjList data "demes" none = .ok demesList ∧
      demesList.foldlM (resolveDeme DD GE) g0 = .ok g1 ∧
      popObjList data "migrations" (some []) = .ok migs ∧
      migs.foldlM (resolveMigration MD) g1 = .ok g2 ∧
      popObjList data "pulses" (some []) = .ok pulses ∧
      pulses.foldlM (resolvePulse PD) g2 = .ok g3 ∧
      g = { g3 with pulses := sortPulses g3.pulses } := by
  unfold resolve at h
  obtain ⟨data, hdata, h⟩ := bind_ok h
  obtain ⟨_, _, h⟩ := bind_ok h
  obtain ⟨defaults, hdef, h⟩ := bind_ok h
  obtain ⟨_, _, h⟩ := bind_ok h
  obtain ⟨DD, hDD, h⟩ := bind_ok h
  obtain ⟨_, _, h⟩ := bind_ok h
  obtain ⟨MD, hMD, h⟩ := bind_ok h
  obtain ⟨_, _, h⟩ := bind_ok h
  obtain ⟨PD, hPD, h⟩ := bind_ok h
  obtain ⟨_, _, h⟩ := bind_ok h
  obtain ⟨GE, hGE, h⟩ := bind_ok h
  obtain ⟨_, _, h⟩ := bind_ok h
  obtain ⟨g0, hg0, h⟩ := bind_ok h
  obtain ⟨demesList, hdl, h⟩ := bind_ok h
  extract_lets jp at h
  split at h
  · cases h
  simp -zeta only [jp] at h
  obtain ⟨g1, hg1, h⟩ := bind_ok h
  obtain ⟨migs, hmigs, h⟩ := bind_ok h
  obtain ⟨g2, hg2, h⟩ := bind_ok h
  obtain ⟨_, _, h⟩ := bind_ok h
  obtain ⟨pulses, hp, h⟩ := bind_ok h
  obtain ⟨g3, hg3, h⟩ := bind_ok h
  cases h
  refine ⟨data, defaults, DD, MD, PD, GE, g0, demesList, g1, migs, g2, pulses, g3, ?_, hdef, hDD, hMD,
    hPD, hGE, hg0, hdl, hg1, hmigs, hg2, hp, hg3, rfl⟩
  cases dataV with
  | obj kvs => cases hdata; rfl
  | _ => cases hdata


/-- **C02 (6), document level.** The pulses of a resolved graph are the pulses in the order the
document lists them (`loop`: as accumulated by the pulse loop), stably sorted by descending
time. -/
theorem resolve_pulses_stable {dataV : Value} {g : Graph} (h : resolve dataV = .ok g) :
    ∃ data PD g2 pulses g3, dataV = .obj data ∧
      popObjList data "pulses" (some []) = .ok pulses ∧
      pulses.foldlM (resolvePulse PD) g2 = .ok g3 ∧
      StableSortedDesc (fun p : Pulse => p.time) g3.pulses g.pulses := by
  obtain ⟨data, _, _, _, PD, _, _, _, _, _, g2, pulses, g3, hd, _, _, _, _, _, _, _, _, _, _, hp,
    hg3, rfl⟩ := resolve_ok h
  exact ⟨data, PD, g2, pulses, g3, hd, hp, hg3, sortPulses_stable g3.pulses⟩

/-! ### replacing the `migrations` of a document -/

/-- `resolve` on an object, as a function of what it reads from the top-level object -/
def resolveCore (ca : Except Err Unit) (defs : Except Err Obj) (hdr : Except Err Graph)
    (dl ml pl : Except Err (List Obj)) : Except Err Graph := do
  ca
  let defaults ← defs
  checkAllowed defaults allowedDefaults
  let demeDefaults ← popObject defaults "deme"
  checkDefaults demeDefaults demeDefaultsTable
  let migrationDefaults ← popObject defaults "migration"
  checkDefaults migrationDefaults migrationDefaultsTable
  let pulseDefaults ← popObject defaults "pulse"
  checkDefaults pulseDefaults pulseDefaultsTable
  let globalEpochDefaults ← popObject defaults "epoch"
  checkDefaults globalEpochDefaults epochDefaultsTable
  let g ← hdr
  let demesList ← dl
  if demesList.isEmpty then valueErr "toplevel: 'demes' must be a non-empty list"
  let g ← demesList.foldlM (resolveDeme demeDefaults globalEpochDefaults) g
  let migs ← ml
  let g ← migs.foldlM (resolveMigration migrationDefaults) g
  checkMigrationRates g
  let pulses ← pl
  let g ← pulses.foldlM (resolvePulse pulseDefaults) g
  pure { g with pulses := sortPulses g.pulses }

theorem resolve_eq_core (data : Obj) :
    resolve (.obj data) = resolveCore (checkAllowed data allowedTop) (popObject data "defaults")
      (resolveHeader data) (popObjList data "demes" none) (popObjList data "migrations" (some []))
      (popObjList data "pulses" (some [])) := rfl

theorem resolveCore_congr_migs (ca : Except Err Unit) (defaults MD : Obj) (hdr : Except Err Graph)
    (dl pl : Except Err (List Obj)) (ms1 ms2 : List Obj)
    (hMD : popObject defaults "migration" = .ok MD)
    (h : ∀ g, ms1.foldlM (resolveMigration MD) g = ms2.foldlM (resolveMigration MD) g) :
    resolveCore ca (.ok defaults) hdr dl (.ok ms1) pl
      = resolveCore ca (.ok defaults) hdr dl (.ok ms2) pl := by
  unfold resolveCore
  cases ca with
  | error _ => rfl
  | ok _ =>
  simp only [ok_bind]
  rw [hMD]
  cases checkAllowed defaults allowedDefaults with
  | error _ => rfl
  | ok _ =>
  simp only [ok_bind]
  cases popObject defaults "deme" with
  | error _ => rfl
  | ok DD =>
  simp only [ok_bind]
  cases checkDefaults DD demeDefaultsTable with
  | error _ => rfl
  | ok _ =>
  simp only [ok_bind]
  cases checkDefaults MD migrationDefaultsTable with
  | error _ => rfl
  | ok _ =>
  simp only [ok_bind]
  cases popObject defaults "pulse" with
  | error _ => rfl
  | ok PD =>
  simp only [ok_bind]
  cases checkDefaults PD pulseDefaultsTable with
  | error _ => rfl
  | ok _ =>
  simp only [ok_bind]
  cases popObject defaults "epoch" with
  | error _ => rfl
  | ok GE =>
  simp only [ok_bind]
  cases checkDefaults GE epochDefaultsTable with
  | error _ => rfl
  | ok _ =>
  simp only [ok_bind]
  cases hdr with
  | error _ => rfl
  | ok g0 =>
  simp only [ok_bind]
  cases dl with
  | error _ => rfl
  | ok demesList =>
  simp only [ok_bind]
  split
  · rfl
  · cases List.foldlM (resolveDeme DD GE) g0 demesList with
    | error _ => rfl
    | ok g1 =>
    simp only [ok_bind]
    rw [h g1]

theorem checkAllowed_congr_keys {d d' : Obj} (h : keys d = keys d') (a : List String) :
    checkAllowed d a = checkAllowed d' a := by
  induction d generalizing d' with
  | nil =>
    cases d' with
    | nil => rfl
    | cons kv d' => cases h
  | cons kv d ih =>
    cases d' with
    | nil => cases h
    | cons kv' d' =>
      simp only [keys, List.map_cons, List.cons.injEq] at h
      rw [checkAllowed_cons, checkAllowed_cons, h.1, ih h.2]

theorem keys_set_indep (k : String) (v v' : Value) (d : Obj) :
    keys (Obj.set k v d) = keys (Obj.set k v' d) := by
  rw [keys_set, keys_set]

theorem popObject_set_ne {k k' : String} (h : k' ≠ k) (v : Value) (d : Obj) :
    popObject (Obj.set k' v d) k = popObject d k := by
  unfold popObject
  rw [lookup_set, if_neg h]

theorem popObjList_set_ne {k k' : String} (h : k' ≠ k) (v : Value) (d : Obj)
    (dflt : Option (List Obj)) :
    popObjList (Obj.set k' v d) k dflt = popObjList d k dflt := by
  unfold popObjList
  rw [lookup_set, if_neg h]

theorem resolveHeader_set_migrations (v : Value) (d : Obj) :
    resolveHeader (Obj.set "migrations" v d) = resolveHeader d := by
  have hl : ∀ k, "migrations" ≠ k → lookup k (Obj.set "migrations" v d) = lookup k d := by
    intro k hk
    rw [lookup_set, if_neg hk]
  unfold resolveHeader lookupNN
  rw [hl "description" (by decide), hl "time_units" (by decide), hl "generation_time" (by decide),
    hl "doi" (by decide), hl "metadata" (by decide)]

theorem mapM_instObj (ms : List Obj) : (ms.map Value.obj).mapM instObj = .ok ms := by
  induction ms with
  | nil => rfl
  | cons m ms ih =>
    rw [List.map_cons, List.mapM_cons, ih]
    rfl

theorem popObjList_withMigrations (data : Obj) (ms : List Obj) :
    popObjList (withMigrations data ms) "migrations" (some []) = .ok ms := by
  unfold popObjList withMigrations
  rw [lookup_set, if_pos rfl]
  show (instList (.list (ms.map Value.obj)) >>= fun xs => xs.mapM instObj) = _
  rw [show instList (.list (ms.map Value.obj)) = .ok (ms.map Value.obj) from rfl, ok_bind,
    mapM_instObj]

/-- Two documents that differ only in their `migrations` lists, whose migration loops agree from
every graph, resolve identically. -/
theorem resolve_congr_migrations (data defaults MD : Obj) (ms1 ms2 : List Obj)
    (hdef : popObject data "defaults" = .ok defaults)
    (hMD : popObject defaults "migration" = .ok MD)
    (h : ∀ g, ms1.foldlM (resolveMigration MD) g = ms2.foldlM (resolveMigration MD) g) :
    resolve (.obj (withMigrations data ms1)) = resolve (.obj (withMigrations data ms2)) := by
  rw [resolve_eq_core, resolve_eq_core, popObjList_withMigrations, popObjList_withMigrations]
  unfold withMigrations
  rw [checkAllowed_congr_keys (keys_set_indep "migrations" _ (.list (ms2.map Value.obj)) data),
    popObject_set_ne (by decide), popObject_set_ne (by decide),
    resolveHeader_set_migrations, resolveHeader_set_migrations,
    popObjList_set_ne (by decide), popObjList_set_ne (by decide),
    popObjList_set_ne (by decide), popObjList_set_ne (by decide), hdef]
  exact resolveCore_congr_migs _ defaults MD _ _ _ ms1 ms2 hMD h

/-- **C02 (5), document level.** A document whose `migrations` list contains the symmetric
migration `m` resolves exactly (same graph or same error) like the document in which `m` is
replaced, in place, by its written-out asymmetric migrations. -/
theorem resolve_symmetric_eq_asymmetric (data defaults MD : Obj) (pre post : List Obj) (m : Obj)
    (names : List Value)
    (hdef : popObject data "defaults" = .ok defaults)
    (hMD : popObject defaults "migration" = .ok MD)
    (hallowed : checkAllowed m allowedMigration = .ok ())
    (hdemes : lookupNN "demes" (insertDefaults m MD) = some (.list names))
    (hsrc : lookupNN "source" (insertDefaults m MD) = none)
    (hdst : lookupNN "dest" (insertDefaults m MD) = none)
    (hD : lookupNN "demes" MD = none)
    (hlen : 2 ≤ names.length) (hnn : ∀ v ∈ names, v ≠ Value.null) :
    resolve (.obj (withMigrations data (pre ++ [m] ++ post)))
      = resolve (.obj (withMigrations data
          (pre ++ (specSymmetricExpansion names).map
            (asymmetricDict (lookup "rate" (insertDefaults m MD))
              (lookup "start_time" (insertDefaults m MD))
              (lookup "end_time" (insertDefaults m MD))) ++ post))) :=
  resolve_congr_migrations data defaults MD _ _ hdef hMD
    (fun g => migrations_symmetric_eq_asymmetric MD g pre post m names hallowed hdemes hsrc hdst
      hD hlen hnn)

end Demes.Proofs
