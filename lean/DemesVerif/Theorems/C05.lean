/-
  C05 — the simplified form (`Graph.asdict_simplified`, Model `Graph.asdictSimplified`) is a
  valid model that resolves back to the same graph.  Sections A–D: the search for symmetric
  migration groups and the field-level round trips; section E: the property itself
  (`simplify_resolves` and its corollaries).

  * `Spec.expandAll` gives a simplified migration list its meaning: a symmetric record stands
    for one asymmetric record per ordered pair of its demes (`Spec.expandS`).
  * `stripBounds g m` is the record of migration `m` with the bounds implied by its two demes
    deleted; `Spec.epochSimplifiedObj` / `Spec.demeSimplifiedObj` are the field lists of
    `Epoch.simplified` / `Deme.simplified` (`Spec.epochSimplified_eq`, `Spec.demeSimplified_eq`).

  The final assembly `validGraph g → resolve (asdictSimplified g) = .ok g'` (with `g'` equal to
  `g` up to the order of migrations, and `metadata` passed through `coerce_types` exactly as in
  `Graph.asdict`, see C06) is section E.
-/
import DemesVerif.Proofs.SimplifyAssemble
import DemesVerif.Proofs.SimplifyExamples
namespace Demes.Theorems
open Demes Demes.Spec Demes.Obj

/-! ### A. the search for symmetric groups -/

/-- A.2 — whichever subsets the search tries, the asymmetric records denoted by the simplified
migration list are, as a multiset, exactly the stripped migrations of the graph.  Holds for
every graph (no validity assumption is needed). -/
theorem simplify_invariant (g : Graph) :
    (expandAll (simplifyMigrations g)).Perm (g.migrations.map (stripBounds g)) :=
  Proofs.C05.simplify_invariant g

/-- A.3, measure — while the loop condition holds, one iteration strictly decreases
`pairs.length + i` (a compression removes at least one pair and does not increase `i`;
otherwise `i` decreases). -/
theorem simplify_measure_decreases (k : RateKey) (allDemes : List String) (i : Nat)
    (st : SearchState) (hcond : allDemes.length ≥ 2 ∧ i ≥ 2) :
    let r := tryCombinations k (combinations allDemes i) st
    (if r.2 then r.1.pairs.length + Nat.min i (collapseDemes r.1.pairs).length
      else r.1.pairs.length + (i - 1)) < st.pairs.length + i :=
  Proofs.C05.searchLoop_measure_decreases k allDemes i st hcond

/-- A.3, general form — with fuel at least `pairs.length + i`, any extra fuel gives the same
result: the loop condition fails before the fuel runs out. -/
theorem simplify_fuel_enough (k : RateKey) (fuel : Nat) (allDemes : List String) (i : Nat)
    (st : SearchState) (n : Nat) (h : st.pairs.length + i ≤ fuel) :
    searchLoop k fuel allDemes i st = searchLoop k (fuel + n) allDemes i st :=
  Proofs.C05.searchLoop_fuel k fuel allDemes i st n h

/-- A.3 — the fuel `simplifyMigrations` passes is never exhausted: the Model's bounded loop is
the implementation's `while` loop, which therefore terminates. -/
theorem simplify_fuel_sufficient (k : RateKey) (pairs : List (String × String))
    (sym : List SMig) (asym : List AMig) (n : Nat) :
    searchLoop k (pairs.length + (collapseDemes pairs).length + 2) (collapseDemes pairs)
        (collapseDemes pairs).length { symmetric := sym, asymmetric := asym, pairs := pairs }
      = searchLoop k (pairs.length + (collapseDemes pairs).length + 2 + n) (collapseDemes pairs)
        (collapseDemes pairs).length { symmetric := sym, asymmetric := asym, pairs := pairs } :=
  Proofs.C05.simplify_fuel_sufficient k pairs sym asym n

/-- A.4 — every emitted symmetric group has at least two, pairwise distinct, demes.  Holds for
every graph. -/
theorem simplify_groups_wellformed (g : Graph) :
    ∀ m ∈ (simplifyMigrations g).1, 2 ≤ m.demes.length ∧ m.demes.Nodup :=
  Proofs.C05.simplify_groups_wellformed g

/-- A.4 — when activity intervals are non-empty (V8) and same-pair migrations are disjoint (V9),
no two records denoted by the simplified migration list coincide. -/
theorem simplify_records_nodup (g : Graph) (h8 : v8 g = true) (h9 : v9 g = true) :
    (expandAll (simplifyMigrations g)).Nodup :=
  Proofs.C05.simplify_records_nodup g h8 h9

/-! ### B. migration bounds -/

/-- `stripBounds` keeps `start_time` exactly when it differs from the younger of the two demes'
start times, and `end_time` exactly when it differs from the older of their end times. -/
theorem stripBounds_start (g : Graph) (m : Migration) :
    (stripBounds g m).start
      = if Proofs.C05.hiOf g m.source m.dest = some m.startTime then none else some m.startTime :=
  Proofs.C05.stripBounds_start g m
theorem stripBounds_stop (g : Graph) (m : Migration) :
    (stripBounds g m).stop
      = if Proofs.C05.loOf g m.source m.dest = some m.endTime then none else some m.endTime :=
  Proofs.C05.stripBounds_stop g m

/-- different migrations have different stripped records (any graph) -/
theorem stripBounds_injective (g : Graph) : Function.Injective (stripBounds g) :=
  Proofs.C05.stripBounds_injective g

/-- B — for a migration `m` of a graph satisfying V0, V1, V6, V8, feeding its stripped record
back to `_add_asymmetric_migration`, on any graph `g'` with the same demes and name index,
re-infers the deleted bounds and appends exactly `m`, provided no migration already in `g'`
overlaps it. -/
theorem stripBounds_roundtrip (g g' : Graph) (h0 : v0 g = true) (h1 : v1 g = true)
    (h6 : v6 g = true) (h8 : v8 g = true) (hdm : g'.demes = g.demes) (hix : g'.index = g.index)
    (m : Migration) (hm : m ∈ g.migrations)
    (hno : g'.migrations.any (fun o => o.source = m.source && o.dest = m.dest
      && decide (ETime.fin m.endTime < o.startTime) && decide (ETime.fin o.endTime < m.startTime)) = false) :
    addAsymmetricMigration g' (.str m.source) (.str m.dest) (numV m.rate)
        ((stripBounds g m).start.map timeV) ((stripBounds g m).stop.map numV)
      = .ok { g' with migrations := g'.migrations ++ [m] } :=
  Proofs.C05.stripBounds_roundtrip g g' h0 h1 h6 h8 hdm hix m hm hno

/-! ### C. epochs and deme headers -/

/-- C.1 — `_add_epoch` reads the simplified epoch back as the epoch itself, for an epoch
satisfying V6's per-epoch conditions, non-empty (`end < start`), and starting where the
previous epoch ended (or at the deme's start if it is the first).

`Epoch.simplified` always emits `end_time` and `start_size`; `end_size` is omitted iff equal to
`start_size`; `size_function` is omitted iff it is the one resolution infers ("constant" for
equal sizes, else "exponential"); the two rates are omitted iff 0.  (This is the repaired
behaviour: before the repair an explicit "exponential" on an epoch with equal sizes was dropped
together with `end_size` and came back as "constant".) -/
theorem epoch_simplified_roundtrip (demeStart : ETime) (prev : List Epoch) (e : Epoch)
    (hv : v6Epoch e = true) (hlt : ETime.fin e.endTime < e.startTime)
    (hst : e.startTime = match prev.getLast? with
      | none => demeStart
      | some p => ETime.fin p.endTime) :
    addEpoch demeStart prev (epochSimplifiedObj e) = .ok (prev ++ [e]) :=
  Proofs.C05.epoch_simplified_roundtrip demeStart prev e hv hlt hst

/-- C.1, whole deme — for a deme of a graph satisfying V5 and V6 the simplified epoch list
resolves, with no defaults, to the deme's epochs. -/
theorem deme_epochs_roundtrip (g : Graph) (h5 : v5 g = true) (h6 : v6 g = true)
    (d : Deme) (hd : d ∈ g.demes) :
    resolveEpochs d.startTime [] (d.epochs.map epochSimplifiedObj) = .ok d.epochs :=
  Proofs.C05.deme_epochs_roundtrip_of_valid g h5 h6 d hd

/-- C.2 — for deme number `i` of a graph satisfying V0–V4, and any graph `g'` holding exactly the
first `i` demes and their index entries (e.g. `prefixGraph g i`), `_add_deme` applied to the
fields of the simplified deme returns the deme (epochs are added afterwards): an omitted
`start_time` (infinite, or equal to the single ancestor's end time) and omitted `proportions`
(no ancestor, or a single ancestor with proportion exactly 1) are re-inferred to the same
values. -/
theorem deme_simplified_header_roundtrip (g g' : Graph) (h0 : v0 g = true) (h1 : v1 g = true)
    (h2 : v2 g = true) (h3 : v3 g = true) (h4 : v4 g = true) (i : Nat) (d : Deme)
    (hi : g.demes[i]? = some d) (hdm : g'.demes = g.demes.take i) (hix : g'.index = g.index.take i) :
    addDemeHeader g' (.str d.name)
        ((lookup "description" (demeSimplifiedObj g d)).getD (.str ""))
        (lookupNN "ancestors" (demeSimplifiedObj g d))
        (lookupNN "proportions" (demeSimplifiedObj g d))
        (lookupNN "start_time" (demeSimplifiedObj g d))
      = .ok { d with epochs := [] } :=
  Proofs.C05.deme_simplified_header_roundtrip g g' h0 h1 h2 h3 h4 i d hi hdm hix

/-! ### D. the two loops of `fromdict` on the simplified form (towards the final assembly) -/

/-- The deme loop, with no defaults at any level, on the simplified demes of a graph satisfying
V0–V6, started from any graph without demes, rebuilds exactly the demes and the name index. -/
theorem resolveDemes_simplified (g g0 : Graph) (h0 : v0 g = true) (h1 : v1 g = true)
    (h2 : v2 g = true) (h3 : v3 g = true) (h4 : v4 g = true) (h5 : v5 g = true) (h6 : v6 g = true)
    (hd0 : g0.demes = []) (hi0 : g0.index = []) :
    (g.demes.map (demeSimplifiedObj g)).foldlM (resolveDeme [] []) g0
      = .ok { g0 with demes := g.demes, index := g.index } :=
  Proofs.C05.resolveDemes_simplified g g0 h0 h1 h2 h3 h4 h5 h6 hd0 hi0

/-- The migration loop, with no defaults, on the simplified migration list (symmetric records
first) of a graph satisfying V0, V1, V6, V8, V9, started from a graph with `g`'s demes and index
and no migrations, succeeds and leaves a permutation `ms` of `g`'s migrations — each with its
original time bounds — in the order of `expandAll`. -/
theorem resolveMigrations_simplified (g g0 : Graph) (h0 : v0 g = true) (h1 : v1 g = true)
    (h6 : v6 g = true) (h8 : v8 g = true) (h9 : v9 g = true)
    (hdm : g0.demes = g.demes) (hix : g0.index = g.index) (hm0 : g0.migrations = []) :
    ∃ ms : List Migration, ms.Perm g.migrations
      ∧ ms.map (stripBounds g) = expandAll (simplifyMigrations g)
      ∧ (((simplifyMigrations g).1.map smigObj ++ (simplifyMigrations g).2.map amigObj).foldlM
          (resolveMigration []) g0) = .ok { g0 with migrations := ms } :=
  Proofs.C05.resolveMigrations_simplified g g0 h0 h1 h6 h8 h9 hdm hix hm0

/-! ### E. the property -/

/-- `_check_migration_rates` and the clauses V8, V9, V10 do not depend on the order in which the
migrations are listed. -/
theorem valid_migrations_perm (g : Graph) (ms : List Migration) (hp : ms.Perm g.migrations) :
    v8 { g with migrations := ms } = v8 g ∧ v9 { g with migrations := ms } = v9 g
      ∧ v10 { g with migrations := ms } = v10 g :=
  ⟨Proofs.C05.v8_perm hp, Proofs.C05.v9_perm hp, Proofs.C05.v10_perm hp⟩

/-- C05 — for every valid graph, `Graph.fromdict` accepts the simplified dictionary and returns
exactly the original fully-resolved graph, except that
 * the migrations are listed in a possibly different order (`ms` is a permutation of
   `g.migrations`: the same migration records — source, dest, rate and both time bounds — as a
   multiset; symmetric groups come first), and
 * `metadata` has gone through `coerce_types` (`coerceO`: a `bool` becomes an `int`), exactly as
   for the fully-resolved dictionary (C06); with `bool`-free metadata it is unchanged
   (`simplify_resolves_plain`).
Demes (with every epoch's size function), pulses, name index and the header come back
unchanged.  Fields omitted by the simplified form (empty description / doi / metadata, no
migrations, no pulses, inferable start times, proportions, end sizes, size functions, zero
rates, implied migration bounds) are all re-inferred to their original values. -/
theorem simplify_resolves (g : Graph) (hv : validGraph g = true) :
    ∃ ms : List Migration, ms.Perm g.migrations ∧
      resolve (Graph.asdictSimplified g)
        = .ok { g with migrations := ms, metadata := coerceO g.metadata } :=
  Proofs.C05.simplify_resolves g hv

/-- the same, clause by clause, and naming the order of the migrations: that of
`expandAll (simplifyMigrations g)` -/
theorem simplify_resolves_of_clauses (g : Graph) (h0 : v0 g = true) (h1 : v1 g = true) (h2 : v2 g = true)
    (h3 : v3 g = true) (h4 : v4 g = true) (h5 : v5 g = true) (h6 : v6 g = true) (h8 : v8 g = true)
    (h9 : v9 g = true) (h10 : v10 g = true) (h11 : v11 g = true) (h12 : v12 g = true)
    (h13 : v13 g = true) :
    ∃ ms : List Migration, ms.Perm g.migrations
      ∧ ms.map (stripBounds g) = expandAll (simplifyMigrations g)
      ∧ resolve (Graph.asdictSimplified g)
          = .ok { g with migrations := ms, metadata := coerceO g.metadata } :=
  Proofs.C05.simplify_resolves_of_clauses g h0 h1 h2 h3 h4 h5 h6 h8 h9 h10 h11 h12 h13

/-- with `bool`-free metadata the only difference is the order of the migrations -/
theorem simplify_resolves_plain (g : Graph) (hv : validGraph g = true)
    (hm : Value.plainO g.metadata = true) :
    ∃ ms : List Migration, ms.Perm g.migrations ∧
      resolve (Graph.asdictSimplified g) = .ok { g with migrations := ms } :=
  Proofs.C05.simplify_resolves_plain g hv hm

/-- the simplified form of a valid graph is an acceptable Demes document -/
theorem simplify_accepted (g : Graph) (hv : validGraph g = true) :
    (resolve (Graph.asdictSimplified g)).toOption.isSome = true :=
  Proofs.C05.simplify_accepted g hv

/-- … and what it resolves to is again a valid fully-resolved model (by C01) -/
theorem simplify_resolves_valid (g : Graph) (hv : validGraph g = true) :
    ∃ g', resolve (Graph.asdictSimplified g) = .ok g' ∧ validGraph g' = true :=
  Proofs.C05.simplify_resolves_valid g hv

/-- the resolved graph has the same demes (hence every epoch's start/end time, sizes and size
function), pulses, header fields and name index, and the same migrations as a multiset — each
migration record with its original `start_time` and `end_time` -/
theorem simplify_same_model (g : Graph) (hv : validGraph g = true) :
    ∃ g', resolve (Graph.asdictSimplified g) = .ok g'
      ∧ g'.demes = g.demes ∧ g'.pulses = g.pulses
      ∧ g'.description = g.description ∧ g'.timeUnits = g.timeUnits
      ∧ g'.generationTime = g.generationTime ∧ g'.doi = g.doi
      ∧ g'.metadata = coerceO g.metadata ∧ g'.index = g.index
      ∧ g'.migrations.Perm g.migrations :=
  Proofs.C05.simplify_same_model g hv

/-- the simplified and the fully-resolved dictionary resolve to the same model, up to the order
of the migrations -/
theorem simplify_agrees_with_asdict (g : Graph) (hv : validGraph g = true) :
    ∃ g₁ g₂, resolve (Graph.asdictSimplified g) = .ok g₁ ∧ resolve (Graph.asdict g) = .ok g₂
      ∧ g₁.migrations.Perm g₂.migrations ∧ g₁ = { g₂ with migrations := g₁.migrations } :=
  Proofs.C05.simplify_agrees_with_asdict g hv

/-! ### non-vacuity -/

section
open Proofs.C05

example : validGraph island3 = true := by decide +kernel
example : validGraph partial4 = true := by decide +kernel

-- a 3-deme island model with all six directed migrations sharing (rate, bounds) simplifies to
-- one symmetric group
example : simplifyMigrations island3
    = ([{ demes := ["A", "B", "C"], rate := 1/100, start := none, stop := none }], []) := by
  decide +kernel

-- a partially symmetric pattern: the triangle A,B,C and the pair C,D are found, A→D and the
-- B→D with its own rate and explicit bounds stay asymmetric
example : simplifyMigrations partial4
    = ([{ demes := ["A", "B", "C"], rate := 1/100, start := none, stop := none },
        { demes := ["C", "D"], rate := 1/100, start := none, stop := none }],
       [{ source := "A", dest := "D", start := none, stop := none, rate := 1/100 },
        { source := "B", dest := "D", start := some (.fin 60), stop := some 10, rate := 1/50 }]) := by
  decide +kernel

-- `simplify_invariant` on both: the expansion is a permutation (not the identity) of the
-- stripped migrations
example : (expandAll (simplifyMigrations island3)).isPerm (island3.migrations.map (stripBounds island3)) = true
    ∧ expandAll (simplifyMigrations island3) ≠ island3.migrations.map (stripBounds island3) := by
  decide +kernel
example : (expandAll (simplifyMigrations partial4)).isPerm (partial4.migrations.map (stripBounds partial4)) = true
    ∧ (expandAll (simplifyMigrations partial4)).length = 10 := by
  decide +kernel

-- `simplify_records_nodup`
example : v8 partial4 = true ∧ v9 partial4 = true
    ∧ decide ((expandAll (simplifyMigrations partial4)).Nodup) = true := by decide +kernel

-- `simplify_fuel_sufficient`: the key of the nine pairs of `partial4`, ten more units of fuel
example :
    let k : RateKey := (1/100, none, none)
    let pairs := [("A","B"),("B","A"),("A","C"),("C","A"),("B","C"),("C","B"),("C","D"),("D","C"),("A","D")]
    let st : SearchState := { symmetric := [], asymmetric := partial4.migrations.map (stripBounds partial4), pairs := pairs }
    collapseDemes pairs = ["A","B","C","D"]
    ∧ (searchLoop k 15 ["A","B","C","D"] 4 st).symmetric = (searchLoop k 25 ["A","B","C","D"] 4 st).symmetric
    ∧ (searchLoop k 15 ["A","B","C","D"] 4 st).pairs = [("A","D")]
    -- … whereas too little fuel does stop the loop early
    ∧ (searchLoop k 1 ["A","B","C","D"] 4 st).pairs = pairs := by
  decide +kernel

-- `stripBounds_roundtrip`: the explicit bounds of B→D are kept, the implied ones of C→D dropped
example : stripBounds partial4 (exMig "B" "D" (.fin 60) 10 (1/50))
      = { source := "B", dest := "D", start := some (.fin 60), stop := some 10, rate := 1/50 }
    ∧ stripBounds partial4 (exMig "C" "D" (.fin 80) 0 (1/100))
      = { source := "C", dest := "D", start := none, stop := none, rate := 1/100 } := by
  decide +kernel
example :
    (addAsymmetricMigration { partial4 with migrations := [] } (.str "C") (.str "D") (numV (1/100)) none none).toOption.map
      (·.migrations) = some [exMig "C" "D" (.fin 80) 0 (1/100)] := by
  decide +kernel

-- `epoch_simplified_roundtrip`: D's first epoch is labelled "exponential" with equal sizes — the
-- label is kept (and `end_size` dropped); its second epoch's inferable label is dropped
example : (epochSimplifiedObj (exEp (.fin 80) 20 50 50 "exponential")).map (·.1)
      = ["end_time", "start_size", "size_function"]
    ∧ (epochSimplifiedObj (exEp (.fin 20) 0 50 500 "exponential")).map (·.1)
      = ["end_time", "start_size", "end_size"] := by decide +kernel
example : ∀ d ∈ partial4.demes,
    (resolveEpochs d.startTime [] (d.epochs.map epochSimplifiedObj)).toOption = some d.epochs := by
  decide +kernel

-- `deme_simplified_header_roundtrip`: D (two ancestors) keeps start time and proportions;
-- the hypotheses hold for deme number 3 of `partial4` and its prefix graph
example : partial4.demes[3]?.map (fun d => (demeSimplifiedObj partial4 d).map (·.1))
    = some ["name", "start_time", "ancestors", "proportions", "epochs"] := by decide +kernel
example : (prefixGraph partial4 3).demes = partial4.demes.take 3
    ∧ (prefixGraph partial4 3).index = partial4.index.take 3 := by decide +kernel

-- a single ancestor whose end time is the child's start time, proportion 1: both omitted and
-- re-inferred
def splitGraph : Graph :=
  { description := "", timeUnits := "generations", generationTime := 1, doi := [], metadata := [],
    demes := [
      { name := "A", description := "", startTime := .inf, ancestors := [], proportions := [],
        epochs := [exEp .inf 40 100 100 "constant"] },
      { name := "B", description := "", startTime := .fin 40, ancestors := ["A"], proportions := [1],
        epochs := [exEp (.fin 40) 0 100 100 "constant"] }],
    migrations := [], pulses := [], index := [("A", 0), ("B", 1)] }
example : validGraph splitGraph = true := by decide +kernel
example : splitGraph.demes[1]?.map (fun d => (demeSimplifiedObj splitGraph d).map (·.1))
    = some ["name", "ancestors", "epochs"] := by decide +kernel
example : roundTripsSimplified splitGraph = true := by decide +kernel

-- the two loops on `partial4`, from the empty graph / from its demes without migrations
example : ((partial4.demes.map (demeSimplifiedObj partial4)).foldlM (resolveDeme [] []) emptyGraph).toOption.map
      (fun r => (r.demes, r.index)) = some (partial4.demes, partial4.index) := by decide +kernel
example : ((((simplifyMigrations partial4).1.map smigObj ++ (simplifyMigrations partial4).2.map amigObj).foldlM
      (resolveMigration []) { partial4 with migrations := [] }).toOption.map
        (fun r => r.migrations.isPerm partial4.migrations && r.migrations != partial4.migrations))
    = some true := by decide +kernel

-- the whole round trip on the examples: resolving the simplified form succeeds and gives back
-- the graph (field by field; migrations up to order)
example : roundTripsSimplified island3 = true := by decide +kernel
example : roundTripsSimplified partial4 = true := by decide +kernel

-- `simplify_resolves`: on `partial4` the migrations do come back in a different order
example : (resolve partial4.asdictSimplified).toOption.map
      (fun r => r.migrations.isPerm partial4.migrations && r.migrations != partial4.migrations
        && r.demes == partial4.demes && r.pulses == partial4.pulses)
    = some true := by decide +kernel

/-- description, doi and a metadata mapping holding a `bool` (which `coerce_types` turns into
`1`), two pulses, no migrations -/
def metaGraph : Graph :=
  { Proofs.exampleGraph with
    migrations := [],
    description := "with metadata", doi := ["10.1000/x"],
    metadata := [("flag", .bool true), ("note", .str "n"), ("nested", .obj [("k", .list [.bool false])])],
    pulses := [{ sources := ["A"], dest := "B", time := 30, proportions := [1/10] },
               { sources := ["A"], dest := "B", time := 20, proportions := [1/5] }] }
example : validGraph metaGraph = true := by decide +kernel
-- the top-level keys: `migrations` is omitted, `metadata` and `pulses` are present
example : (simpTopObj metaGraph).map (·.1)
    = ["description", "time_units", "generation_time", "doi", "metadata", "demes", "pulses"] := by
  decide +kernel
example : (simpTopObj splitGraph).map (·.1) = ["time_units", "generation_time", "demes"] := by
  decide +kernel
-- the round trip: everything but metadata is unchanged, the `bool`s came back as numbers
open Proofs.Asdict in
example : (resolve metaGraph.asdictSimplified).toOption.map
      (fun r => decide (r.metadata =
          [("flag", .num (.fin 1)), ("note", .str "n"), ("nested", .obj [("k", .list [.num (.fin 0)])])])
        && r.demes == metaGraph.demes && r.pulses == metaGraph.pulses && r.migrations == []
        && r.description == "with metadata" && r.doi == ["10.1000/x"] && r.index == metaGraph.index
        && r.timeUnits == "generations" && r.generationTime == 1)
    = some true := by decide +kernel

end

end Demes.Theorems

