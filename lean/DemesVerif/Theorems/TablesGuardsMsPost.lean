/-
  Semantic tie of the post-passes of `from_ms` (C08; the renaming part also C15): `Builder._add_migrations_from_matrices`,
  `Builder._remove_transient_demes`, `Builder._sort_demes_by_ancestry` (demes.py), `ms.remap_deme_names` and the body of
  `ms.from_ms`, with the end of `ms.build_graph` that runs them.

  `Generated.guard_ms_post_*` are the translated `if` / `assert` tests; `MigSweep.cell`, `addMigrationsFromMatrices`,
  `removeTransientDemes`, `sortDemesByAncestry` and `fromMs` (`Model/Ms.lean`) are proved equal, for ALL inputs, to their
  `…With` forms (Proofs/GuardsMsPost.lean) over them.  The tests the translator cannot express (`len(self.data.get(..)) == 0`,
  the two `not in x.get(.., [])`, `sorted(..) == sorted(..)`, `len(unknown) > 0`) are pinned as text with their position
  (`guards_tests_ms_post`); every simple statement is pinned with the tests and loops that enclose it
  (`guards_ms_post_effects`), and the order in which `build_graph` runs the post-passes (`guards_from_ms_pipeline`).
-/
import DemesVerif.Generated.GuardsMsPost
import DemesVerif.Proofs.GuardsMsPost
namespace Demes.Tables
open Demes Demes.Ms Demes.Proofs.Guards Demes.Proofs.GuardsMsPost
set_option linter.unusedSimpArgs false

/-- per function: number of `if` statements, loops, `assert` statements, statements -/
theorem guards_sites_ms_post :
    Generated.guardSitesMsPost =
    [("_sort_demes_by_ancestry", 0, 0, 0, 1), ("_add_migrations_from_matrices", 5, 3, 5, 31), ("_remove_transient_demes", 2, 5, 7, 21), ("remap_deme_names", 0, 0, 1, 3), ("from_ms", 3, 0, 0, 11)] := by
  decide +kernel

/-- every `if` / `assert` test of the five functions with its position and the generated definition it became ("": pinned as text only) -/
theorem guards_tests_ms_post :
    Generated.guardTestsMsPost =
    [
    ("_add_migrations_from_matrices", "assert", 0, "len(p0) == len(p1)", "guard_ms_post_lengths"),
    ("_add_migrations_from_matrices", "assert", 1, "len(self.data.get('migrations', [])) == 0", ""),
    ("_add_migrations_from_matrices", "assert", 2, "len(v0) > 0", "guard_ms_post_has_names"),
    ("_add_migrations_from_matrices", "assert", 3, "v6 == len(v0)", "guard_ms_post_square"),
    ("_add_migrations_from_matrices", "assert", 4, "v6 == len(v4[v7])", "guard_ms_post_row"),
    ("_add_migrations_from_matrices", "if", 0, "v7 == v8", "guard_ms_post_diagonal"),
    ("_add_migrations_from_matrices", "if", 1, "v10 is None", "guard_ms_post_no_current"),
    ("_add_migrations_from_matrices", "if", 2, "v9 != 0", "guard_ms_post_new_rate"),
    ("_add_migrations_from_matrices", "if", 3, "v9 == 0", "guard_ms_post_rate_zero"),
    ("_add_migrations_from_matrices", "if", 4, "v10['rate'] == v9", "guard_ms_post_same_rate"),
    ("_remove_transient_demes", "assert", 0, "len(v0) > 0", "guard_ms_post_has_demes"),
    ("_remove_transient_demes", "if", 0, "v4 == 0 or math.isinf(v4)", "guard_ms_post_skip"),
    ("_remove_transient_demes", "if", 1, "v4 == v5", "guard_ms_post_transient"),
    ("_remove_transient_demes", "assert", 1, "v7 != v3['name']", "guard_ms_post_pulse_source"),
    ("_remove_transient_demes", "assert", 2, "v6['dest'] != v3['name']", "guard_ms_post_pulse_dest"),
    ("_remove_transient_demes", "assert", 3, "v3['name'] not in v8.get('demes', [])", ""),
    ("_remove_transient_demes", "assert", 4, "v3['name'] != v8.get('source')", "guard_ms_post_migration_source"),
    ("_remove_transient_demes", "assert", 5, "v3['name'] != v8.get('dest')", "guard_ms_post_migration_dest"),
    ("_remove_transient_demes", "assert", 6, "v3['name'] not in v9.get('ancestors', [])", ""),
    ("remap_deme_names", "assert", 0, "sorted(names.keys()) == sorted((c0_0.name for c0_0 in graph.demes))", ""),
    ("from_ms", "if", 0, "len(v2) > 0", ""),
    ("from_ms", "if", 1, "deme_names is not None", "guard_ms_post_names_given"),
    ("from_ms", "if", 2, "len(set(deme_names)) != len(v3.demes)", "guard_ms_post_names_count")] := by
  decide +kernel

/-- the compound statements that enclose each test, and the loops of each function -/
theorem guards_context_ms_post :
    Generated.guardContextMsPost =
    [
    ("_add_migrations_from_matrices/assert#0", []),
    ("_add_migrations_from_matrices/assert#1", []),
    ("_add_migrations_from_matrices/assert#2", []),
    ("_add_migrations_from_matrices/assert#3", ["for (v4, v5) in zip(p0, p1)"]),
    ("_add_migrations_from_matrices/assert#4", ["for (v4, v5) in zip(p0, p1)", "for v7 in range(v6)"]),
    ("_add_migrations_from_matrices/if#0", ["for (v4, v5) in zip(p0, p1)", "for v7 in range(v6)", "for v8 in range(v6)"]),
    ("_add_migrations_from_matrices/if#1", ["for (v4, v5) in zip(p0, p1)", "for v7 in range(v6)", "for v8 in range(v6)"]),
    ("_add_migrations_from_matrices/if#2", ["for (v4, v5) in zip(p0, p1)", "for v7 in range(v6)", "for v8 in range(v6)", "if v10 is None"]),
    ("_add_migrations_from_matrices/if#3", ["for (v4, v5) in zip(p0, p1)", "for v7 in range(v6)", "for v8 in range(v6)", "else of if v10 is None"]),
    ("_add_migrations_from_matrices/if#4", ["for (v4, v5) in zip(p0, p1)", "for v7 in range(v6)", "for v8 in range(v6)", "else of if v10 is None", "else of if v9 == 0"]),
    ("_remove_transient_demes/assert#0", []),
    ("_remove_transient_demes/if#0", ["for (v2, v3) in enumerate(v0)"]),
    ("_remove_transient_demes/if#1", ["for (v2, v3) in enumerate(v0)"]),
    ("_remove_transient_demes/assert#1", ["for (v2, v3) in enumerate(v0)", "if v4 == v5", "for v6 in self.data.get('pulses', [])", "for v7 in v6['sources']"]),
    ("_remove_transient_demes/assert#2", ["for (v2, v3) in enumerate(v0)", "if v4 == v5", "for v6 in self.data.get('pulses', [])"]),
    ("_remove_transient_demes/assert#3", ["for (v2, v3) in enumerate(v0)", "if v4 == v5", "for v8 in self.data.get('migrations', [])"]),
    ("_remove_transient_demes/assert#4", ["for (v2, v3) in enumerate(v0)", "if v4 == v5", "for v8 in self.data.get('migrations', [])"]),
    ("_remove_transient_demes/assert#5", ["for (v2, v3) in enumerate(v0)", "if v4 == v5", "for v8 in self.data.get('migrations', [])"]),
    ("_remove_transient_demes/assert#6", ["for (v2, v3) in enumerate(v0)", "if v4 == v5", "for v9 in self.data['demes']"]),
    ("remap_deme_names/assert#0", []),
    ("from_ms/if#0", []),
    ("from_ms/if#1", []),
    ("from_ms/if#2", ["if deme_names is not None"])] ∧
    Generated.msPostLoops =
    [
    ("_sort_demes_by_ancestry", []),
    ("_add_migrations_from_matrices", ["for (v4, v5) in zip(p0, p1)", "for v7 in range(v6)", "for v8 in range(v6)"]),
    ("_remove_transient_demes", ["for (v2, v3) in enumerate(v0)", "for v6 in self.data.get('pulses', [])", "for v7 in v6['sources']", "for v8 in self.data.get('migrations', [])", "for v9 in self.data['demes']"]),
    ("remap_deme_names", []),
    ("from_ms", [])] := by
  refine ⟨by decide +kernel, by decide +kernel⟩

/-- every simple statement of the five functions (`del`, `append`, assignments, `assert`, `continue`, calls, `return`) with the tests and loops that enclose it; every sort with its key -/
theorem guards_ms_post_effects :
    Generated.msPostEffects =
    [
    ("_sort_demes_by_ancestry", "self.data['demes'].sort(key=operator.itemgetter('start_time'), reverse=True)", []),
    ("_add_migrations_from_matrices", "assert len(p0) == len(p1)", []),
    ("_add_migrations_from_matrices", "assert len(self.data.get('migrations', [])) == 0", []),
    ("_add_migrations_from_matrices", "v0 = [c0_0['name'] for c0_0 in self.data.get('demes', [])]", []),
    ("_add_migrations_from_matrices", "assert len(v0) > 0", []),
    ("_add_migrations_from_matrices", "v1 = []", []),
    ("_add_migrations_from_matrices", "v2 = dict()", []),
    ("_add_migrations_from_matrices", "v3 = math.inf", []),
    ("_add_migrations_from_matrices", "v6 = len(v4)", ["for (v4, v5) in zip(p0, p1)"]),
    ("_add_migrations_from_matrices", "assert v6 == len(v0)", ["for (v4, v5) in zip(p0, p1)"]),
    ("_add_migrations_from_matrices", "assert v6 == len(v4[v7])", ["for (v4, v5) in zip(p0, p1)", "for v7 in range(v6)"]),
    ("_add_migrations_from_matrices", "continue", ["for (v4, v5) in zip(p0, p1)", "for v7 in range(v6)", "for v8 in range(v6)", "if v7 == v8"]),
    ("_add_migrations_from_matrices", "v9 = v4[v7][v8]", ["for (v4, v5) in zip(p0, p1)", "for v7 in range(v6)", "for v8 in range(v6)"]),
    ("_add_migrations_from_matrices", "v10 = v2.get((v7, v8))", ["for (v4, v5) in zip(p0, p1)", "for v7 in range(v6)", "for v8 in range(v6)"]),
    ("_add_migrations_from_matrices", "v10 = dict(source=v0[v8], dest=v0[v7], start_time=v3, end_time=v5, rate=v9)", ["for (v4, v5) in zip(p0, p1)", "for v7 in range(v6)", "for v8 in range(v6)", "if v10 is None", "if v9 != 0"]),
    ("_add_migrations_from_matrices", "v2[v7, v8] = v10", ["for (v4, v5) in zip(p0, p1)", "for v7 in range(v6)", "for v8 in range(v6)", "if v10 is None", "if v9 != 0"]),
    ("_add_migrations_from_matrices", "v1.append(v10)", ["for (v4, v5) in zip(p0, p1)", "for v7 in range(v6)", "for v8 in range(v6)", "if v10 is None", "if v9 != 0"]),
    ("_add_migrations_from_matrices", "del v2[v7, v8]", ["for (v4, v5) in zip(p0, p1)", "for v7 in range(v6)", "for v8 in range(v6)", "else of if v10 is None", "if v9 == 0"]),
    ("_add_migrations_from_matrices", "v10['end_time'] = v5", ["for (v4, v5) in zip(p0, p1)", "for v7 in range(v6)", "for v8 in range(v6)", "else of if v10 is None", "else of if v9 == 0", "if v10['rate'] == v9"]),
    ("_add_migrations_from_matrices", "v10 = dict(source=v0[v8], dest=v0[v7], start_time=v3, end_time=v5, rate=v9)", ["for (v4, v5) in zip(p0, p1)", "for v7 in range(v6)", "for v8 in range(v6)", "else of if v10 is None", "else of if v9 == 0", "else of if v10['rate'] == v9"]),
    ("_add_migrations_from_matrices", "v2[v7, v8] = v10", ["for (v4, v5) in zip(p0, p1)", "for v7 in range(v6)", "for v8 in range(v6)", "else of if v10 is None", "else of if v9 == 0", "else of if v10['rate'] == v9"]),
    ("_add_migrations_from_matrices", "v1.append(v10)", ["for (v4, v5) in zip(p0, p1)", "for v7 in range(v6)", "for v8 in range(v6)", "else of if v10 is None", "else of if v9 == 0", "else of if v10['rate'] == v9"]),
    ("_add_migrations_from_matrices", "v3 = v5", ["for (v4, v5) in zip(p0, p1)"]),
    ("_add_migrations_from_matrices", "self.data['migrations'] = v1", []),
    ("_remove_transient_demes", "v0 = list(self.data.get('demes', []))", []),
    ("_remove_transient_demes", "assert len(v0) > 0", []),
    ("_remove_transient_demes", "v1 = 0", []),
    ("_remove_transient_demes", "v4 = v3['start_time']", ["for (v2, v3) in enumerate(v0)"]),
    ("_remove_transient_demes", "v5 = v3['epochs'][-1]['end_time']", ["for (v2, v3) in enumerate(v0)"]),
    ("_remove_transient_demes", "continue", ["for (v2, v3) in enumerate(v0)", "if v4 == 0 or math.isinf(v4)"]),
    ("_remove_transient_demes", "assert v7 != v3['name']", ["for (v2, v3) in enumerate(v0)", "if v4 == v5", "for v6 in self.data.get('pulses', [])", "for v7 in v6['sources']"]),
    ("_remove_transient_demes", "assert v6['dest'] != v3['name']", ["for (v2, v3) in enumerate(v0)", "if v4 == v5", "for v6 in self.data.get('pulses', [])"]),
    ("_remove_transient_demes", "assert v3['name'] not in v8.get('demes', [])", ["for (v2, v3) in enumerate(v0)", "if v4 == v5", "for v8 in self.data.get('migrations', [])"]),
    ("_remove_transient_demes", "assert v3['name'] != v8.get('source')", ["for (v2, v3) in enumerate(v0)", "if v4 == v5", "for v8 in self.data.get('migrations', [])"]),
    ("_remove_transient_demes", "assert v3['name'] != v8.get('dest')", ["for (v2, v3) in enumerate(v0)", "if v4 == v5", "for v8 in self.data.get('migrations', [])"]),
    ("_remove_transient_demes", "assert v3['name'] not in v9.get('ancestors', [])", ["for (v2, v3) in enumerate(v0)", "if v4 == v5", "for v9 in self.data['demes']"]),
    ("_remove_transient_demes", "del self.data['demes'][v2 - v1]", ["for (v2, v3) in enumerate(v0)", "if v4 == v5"]),
    ("_remove_transient_demes", "v1 += 1", ["for (v2, v3) in enumerate(v0)", "if v4 == v5"]),
    ("remap_deme_names", "assert sorted(names.keys()) == sorted((c0_0.name for c0_0 in graph.demes))", []),
    ("remap_deme_names", "graph = graph.rename_demes(names)", []),
    ("remap_deme_names", "return graph", []),
    ("from_ms", "v0 = build_parser()", []),
    ("from_ms", "v1, v2 = v0.parse_known_args(command.split())", []),
    ("from_ms", "logger.warning(..)", ["if len(v2) > 0"]),
    ("from_ms", "v3 = build_graph(v1, N0)", []),
    ("from_ms", "raise ValueError", ["if deme_names is not None", "if len(set(deme_names)) != len(v3.demes)"]),
    ("from_ms", "v4 = dict(zip((f'deme{c0_0 + 1}' for c0_0 in range(len(deme_names))), deme_names))", ["if deme_names is not None"]),
    ("from_ms", "v3 = remap_deme_names(v3, v4)", ["if deme_names is not None"]),
    ("from_ms", "return v3", [])] ∧
    Generated.msPostSorts =
    [("remap_deme_names", "names.keys()", "", false), ("remap_deme_names", "(c0_0.name for c0_0 in graph.demes)", "", false), ("_sort_demes_by_ancestry", "self.data['demes']", "operator.itemgetter('start_time')", true)] := by
  refine ⟨by decide +kernel, by decide +kernel⟩

/-- which post-pass runs when and with which arguments: the end of `build_graph` from the call of `_add_migrations_from_matrices` on (nothing of the kind before it), and the signatures of `from_ms` / `remap_deme_names` (their bodies are in `guards_ms_post_effects`) -/
theorem guards_from_ms_pipeline :
    Generated.msPostBuildTail =
    [
    ("v4._add_migrations_from_matrices(v1, v2)", []),
    ("v54['rate'] /= 4 * N0", ["for v54 in v4.data['migrations']"]),
    ("v4._remove_transient_demes()", []),
    ("v4._sort_demes_by_ancestry()", []),
    ("v4.data.get('pulses', []).reverse()", []),
    ("v55 = v4.resolve()", []),
    ("return v55", [])] ∧
    Generated.msPostBuildEarlyCalls =
    0 ∧
    Generated.msPostFromMsSignature =
    ["command", "*", "N0", "deme_names"] ∧
    Generated.msPostRemapSignature =
    ["graph", "names"] := by
  refine ⟨by decide +kernel, by decide +kernel, by decide +kernel, by decide +kernel⟩

/-! ### `Builder._add_migrations_from_matrices` -/

theorem guard_ms_post_lengths_meaning (a b : Nat) :
    Generated.guard_ms_post_lengths (len_p0 := a) (len_p1 := b) = decide (a = b) := by
  unfold Generated.guard_ms_post_lengths
  by_cases h : a = b <;> simp [h]

theorem guard_ms_post_has_names_meaning {α} (xs : List α) :
    Generated.guard_ms_post_has_names (len_v0 := xs.length) = !xs.isEmpty := by
  unfold Generated.guard_ms_post_has_names
  cases xs <;> simp

theorem guard_ms_post_square_meaning (names rows : Nat) :
    Generated.guard_ms_post_square (len_v0 := names) (len_v4 := rows) = decide (rows = names) := by
  unfold Generated.guard_ms_post_square
  by_cases h : rows = names <;> simp [h]

theorem guard_ms_post_row_meaning (rows cols : Nat) :
    Generated.guard_ms_post_row (len_v4 := rows) (len_v4_v7 := cols) = decide (cols = rows) := by
  unfold Generated.guard_ms_post_row
  by_cases h : cols = rows
  · simp [h]
  · have h' : ¬ rows = cols := fun e => h e.symm
    simp [h, h']

theorem guard_ms_post_diagonal_meaning (j k : Nat) :
    Generated.guard_ms_post_diagonal (v7 := .fin (j : Q)) (v8 := .fin (k : Q)) = decide (j = k) := by
  unfold Generated.guard_ms_post_diagonal
  have h : ((j : Q) = (k : Q)) ↔ j = k := by exact_mod_cast Iff.rfl
  simp [eqIEEE_fin_fin, h]

theorem guard_ms_post_no_current_meaning {α} (cur : Option α) :
    Generated.guard_ms_post_no_current (v10_is_None := cur.isNone) = cur.isNone := by
  unfold Generated.guard_ms_post_no_current
  rfl

theorem guard_ms_post_new_rate_meaning (rate : Num) :
    Generated.guard_ms_post_new_rate (v4_v7_v8 := rate) = !numEq rate (.fin 0) := by
  unfold Generated.guard_ms_post_new_rate
  rw [numEq_eq_eqIEEE]

theorem guard_ms_post_rate_zero_meaning (rate : Num) :
    Generated.guard_ms_post_rate_zero (v4_v7_v8 := rate) = numEq rate (.fin 0) := by
  unfold Generated.guard_ms_post_rate_zero
  rw [numEq_eq_eqIEEE]

theorem guard_ms_post_same_rate_meaning (old rate : Num) :
    Generated.guard_ms_post_same_rate (v10_rate := old) (v4_v7_v8 := rate) = numEq old rate := by
  unfold Generated.guard_ms_post_same_rate
  rw [numEq_eq_eqIEEE]

/-- the body of the innermost loop (one cell of one matrix) is the source's four tests on `current.get((j, k))` and `rate` -/
theorem guards_tie_migration_cell : MigSweep.cell = cellWith
    (fun none => Generated.guard_ms_post_no_current (v10_is_None := none))
    (fun rate => Generated.guard_ms_post_new_rate (v4_v7_v8 := rate))
    (fun rate => Generated.guard_ms_post_rate_zero (v4_v7_v8 := rate))
    (fun old rate => Generated.guard_ms_post_same_rate (v10_rate := old) (v4_v7_v8 := rate)) := by
  funext names startTime endTime m acc jk
  obtain ⟨j, k⟩ := jk
  simp only [MigSweep.cell, cellWith, guard_ms_post_new_rate_meaning, guard_ms_post_rate_zero_meaning,
    guard_ms_post_same_rate_meaning, Generated.guard_ms_post_no_current]
  cases acc.current.lookup (j, k) <;> simp

theorem guards_tie_add_migrations_from_matrices : addMigrationsFromMatrices = addMigrationsFromMatricesWith
    (fun a b => Generated.guard_ms_post_lengths (len_p0 := a) (len_p1 := b))
    (fun n => Generated.guard_ms_post_has_names (len_v0 := n))
    (fun names rows => Generated.guard_ms_post_square (len_v0 := names) (len_v4 := rows))
    (fun rows cols => Generated.guard_ms_post_row (len_v4 := rows) (len_v4_v7 := cols))
    (fun j k => Generated.guard_ms_post_diagonal (v7 := j) (v8 := k))
    (fun none => Generated.guard_ms_post_no_current (v10_is_None := none))
    (fun rate => Generated.guard_ms_post_new_rate (v4_v7_v8 := rate))
    (fun rate => Generated.guard_ms_post_rate_zero (v4_v7_v8 := rate))
    (fun old rate => Generated.guard_ms_post_same_rate (v10_rate := old) (v4_v7_v8 := rate)) := by
  funext names mmList endTimes
  unfold addMigrationsFromMatrices addMigrationsFromMatricesWith
  rw [← guards_tie_migration_cell]
  simp only [guard_ms_post_lengths_meaning, guard_ms_post_has_names_meaning, guard_ms_post_square_meaning,
    guard_ms_post_row_meaning, guard_ms_post_diagonal_meaning]
  congr 1
  · simp
  · congr 1
    · simp
    · congr 2
      funext st me
      obtain ⟨acc, startTime⟩ := st
      obtain ⟨m, endTime⟩ := me
      by_cases h : m.length = names.length
      · simp [h]
      · simp [h, assertionErr]
        rfl

/-! ### `Builder._remove_transient_demes` -/

theorem guard_ms_post_has_demes_meaning {α} (xs : List α) :
    Generated.guard_ms_post_has_demes (len_v0 := xs.length) = !xs.isEmpty := by
  unfold Generated.guard_ms_post_has_demes
  cases xs <;> simp

theorem guard_ms_post_skip_meaning (t : ETime) :
    Generated.guard_ms_post_skip (v3_start_time := Num.ofETime t)
      = match t with | .inf => true | .fin st => decide (st = 0) := by
  unfold Generated.guard_ms_post_skip
  cases t <;> guard_close

theorem guard_ms_post_transient_meaning (st e : Q) :
    Generated.guard_ms_post_transient (v3_start_time := .fin st) (v3_epochs_1_end_time := .fin e) = decide (st = e) := by
  unfold Generated.guard_ms_post_transient
  guard_close

theorem guard_ms_post_pulse_source_meaning (s name : String) :
    Generated.guard_ms_post_pulse_source (v7 := s) (v3_name := name) = !(s == name) := by
  unfold Generated.guard_ms_post_pulse_source
  rfl

theorem guard_ms_post_pulse_dest_meaning (dest name : String) :
    Generated.guard_ms_post_pulse_dest (v6_dest := dest) (v3_name := name) = !decide (dest = name) := by
  unfold Generated.guard_ms_post_pulse_dest
  by_cases h : dest = name <;> simp [h]

theorem guard_ms_post_migration_source_meaning (name source : String) :
    Generated.guard_ms_post_migration_source (v3_name := name) (v8_get_source := source) = !decide (source = name) := by
  unfold Generated.guard_ms_post_migration_source
  by_cases h : source = name
  · simp [h]
  · have h' : ¬ name = source := fun e => h e.symm
    simp [h, h']

theorem guard_ms_post_migration_dest_meaning (name dest : String) :
    Generated.guard_ms_post_migration_dest (v3_name := name) (v8_get_dest := dest) = !decide (dest = name) := by
  unfold Generated.guard_ms_post_migration_dest
  by_cases h : dest = name
  · simp [h]
  · have h' : ¬ name = dest := fun e => h e.symm
    simp [h, h']

theorem guards_tie_remove_transient_demes : removeTransientDemes = removeTransientDemesWith
    (fun n => Generated.guard_ms_post_has_demes (len_v0 := n))
    (fun st => Generated.guard_ms_post_skip (v3_start_time := st))
    (fun st e => Generated.guard_ms_post_transient (v3_start_time := st) (v3_epochs_1_end_time := e))
    (fun s name => Generated.guard_ms_post_pulse_source (v7 := s) (v3_name := name))
    (fun dest name => Generated.guard_ms_post_pulse_dest (v6_dest := dest) (v3_name := name))
    (fun name source => Generated.guard_ms_post_migration_source (v3_name := name) (v8_get_source := source))
    (fun name dest => Generated.guard_ms_post_migration_dest (v3_name := name) (v8_get_dest := dest)) := by
  funext doc
  unfold removeTransientDemes removeTransientDemesWith
  simp only [guard_ms_post_has_demes_meaning, guard_ms_post_pulse_source_meaning, guard_ms_post_pulse_dest_meaning,
    guard_ms_post_migration_source_meaning, guard_ms_post_migration_dest_meaning, Bool.not_not]
  congr 2
  all_goals first
    | (funext _; refine congrArg (fun f => (List.foldlM f doc.demes doc.demes >>= _ : Except Err MsDoc)) ?_)
    | refine congrArg (fun f => List.foldlM f doc.demes doc.demes) ?_
  all_goals
    funext cur d
    cases hst : d.startTime with
    | inf => simp [guard_ms_post_skip_meaning]
    | fin st =>
      have hs : Generated.guard_ms_post_skip (v3_start_time := Num.fin st) = decide (st = 0) :=
        guard_ms_post_skip_meaning (.fin st)
      simp only [ofETime_fin, hs, guard_ms_post_transient_meaning, decide_eq_true_eq]
      by_cases h0 : st = 0
      · simp [h0]
      · simp [h0, List.contains_eq_any_beq]

/-! ### `Builder._sort_demes_by_ancestry` -/

theorem guard_ms_post_sort_le_meaning (a b : ETime) :
    Generated.guard_ms_post_sort_le (a_start_time := Num.ofETime a) (b_start_time := Num.ofETime b) = decide (b ≤ a) := by
  unfold Generated.guard_ms_post_sort_le
  cases a <;> cases b <;> guard_close

theorem guards_tie_sort_demes_by_ancestry : sortDemesByAncestry = sortDemesByAncestryWith
    (fun a b => Generated.guard_ms_post_sort_le (a_start_time := a) (b_start_time := b)) := by
  funext ds
  unfold sortDemesByAncestry sortDemesByAncestryWith
  simp only [guard_ms_post_sort_le_meaning]

/-! ### `from_ms` after `build_graph` -/

theorem guard_ms_post_names_given_meaning {α} (names : Option α) :
    Generated.guard_ms_post_names_given (deme_names_is_None := names.isNone) = names.isSome := by
  unfold Generated.guard_ms_post_names_given
  cases names <;> rfl

theorem guard_ms_post_names_count_meaning (a b : Nat) :
    Generated.guard_ms_post_names_count (len_set_deme_names := a) (len_v3_demes := b) = decide (a ≠ b) := by
  unfold Generated.guard_ms_post_names_count
  by_cases h : a = b <;> simp [h]

theorem guards_tie_from_ms : fromMs = fromMsWith
    (fun none => Generated.guard_ms_post_names_given (deme_names_is_None := none))
    (fun a b => Generated.guard_ms_post_names_count (len_set_deme_names := a) (len_v3_demes := b)) := by
  funext tokens N0 demeNames
  unfold fromMs fromMsWith
  simp only [guard_ms_post_names_given_meaning, guard_ms_post_names_count_meaning, decide_eq_true_eq]
  cases demeNames <;> rfl

/-! ### non-vacuity: each abstracted test matters (the `…With` form with that one test replaced differs on a concrete input) -/

section examples
private def mmOn : MM := [[.fin 0, .fin 1], [.fin 0, .fin 0]]
private def mmOff : MM := [[.fin 0, .fin 0], [.fin 0, .fin 0]]
private def mmTwo : MM := [[.fin 0, .fin 2], [.fin 0, .fin 0]]
/-- `addMigrationsFromMatricesWith` over the Model's own tests, except those given -/
private def sweep (gDiag : Num → Num → Bool := Num.eqIEEE) (gNone : Bool → Bool := id)
    (gNew : Num → Bool := fun r => !numEq r (.fin 0)) (gZero : Num → Bool := fun r => numEq r (.fin 0))
    (gSame : Num → Num → Bool := numEq) (ms : List MM) (ts : List Q) : Option (List (String × String × ETime × Q × Num)) :=
  (addMigrationsFromMatricesWith (fun a b => a == b) (fun n => decide (0 < n)) (fun a b => b == a) (fun a b => a == b)
    gDiag gNone gNew gZero gSame ["a", "b"] ms ts).toOption.map
      (List.map fun m => (m.source, m.dest, m.startTime, m.endTime, m.rate))

/-- on, off, on again: two migrations, the first one closed when the rate drops to 0 -/
example : (addMigrationsFromMatrices ["a", "b"] [mmOn, mmOff, mmOn] [2, 1, 0]).toOption.map
      (List.map fun m => (m.source, m.dest, m.startTime, m.endTime, m.rate))
    = some [("b", "a", .inf, 2, .fin 1), ("b", "a", .fin 1, 0, .fin 1)] := by decide +kernel
example : sweep (ms := [mmOn, mmOff, mmOn]) (ts := [2, 1, 0])
    = some [("b", "a", .inf, 2, .fin 1), ("b", "a", .fin 1, 0, .fin 1)] := by decide +kernel
/-- without the `rate == 0` arm the dropped rate is recorded as a migration of rate 0 -/
example : sweep (gZero := fun _ => false) (ms := [mmOn, mmOff, mmOn]) (ts := [2, 1, 0])
    ≠ sweep (ms := [mmOn, mmOff, mmOn]) (ts := [2, 1, 0]) := by decide +kernel
/-- without `rate != 0` every empty cell becomes a migration -/
example : sweep (gNew := fun _ => true) (ms := [mmOn]) (ts := [0]) ≠ sweep (ms := [mmOn]) (ts := [0]) := by decide +kernel
/-- without `migration_dict is None` a continuing rate starts a second migration -/
example : sweep (gNone := fun _ => true) (ms := [mmOn, mmOn]) (ts := [1, 0]) ≠ sweep (ms := [mmOn, mmOn]) (ts := [1, 0]) := by
  decide +kernel
/-- without `migration_dict["rate"] == rate` a changed rate extends the old migration -/
example : sweep (gSame := fun _ _ => true) (ms := [mmOn, mmTwo]) (ts := [1, 0]) ≠ sweep (ms := [mmOn, mmTwo]) (ts := [1, 0]) := by
  decide +kernel
/-- without `j == k` the diagonal is swept as well -/
example : sweep (gDiag := fun _ _ => false) (ms := [[[.fin 1, .fin 0], [.fin 0, .fin 0]]]) (ts := [0])
    ≠ sweep (ms := [[[.fin 1, .fin 0], [.fin 0, .fin 0]]]) (ts := [0]) := by decide +kernel

private def e0 : BEpoch := { endSize := Sz.ofQ 1, endTime := 0 }
private def e5 : BEpoch := { endSize := Sz.ofQ 1, endTime := 5 }
/-- `deme3` lives for no time at all (`-es 5 1 p -ej 5 3 2`), `deme2` from 7 to 0 -/
private def transientDoc : MsDoc :=
  { demes := [{ name := "deme1", startTime := .inf, epochs := [e0] }, { name := "deme2", startTime := .fin 7, epochs := [e0] },
              { name := "deme3", startTime := .fin 5, epochs := [e5] }, { name := "deme4", startTime := .fin 0, epochs := [e0] }],
    migrations := [{ source := "deme1", dest := "deme2", startTime := .fin 7, endTime := 0, rate := .fin 1 }],
    pulses := some [{ sources := ["deme2"], dest := "deme1", time := 5, proportions := [1 / 2] }] }
/-- `removeTransientDemesWith` over the Model's own tests, except those given -/
private def prune (doc : MsDoc) (gSkip : Num → Bool := fun t => Num.eqIEEE t (.fin 0) || Num.isInf t) (gTransient : Num → Num → Bool := Num.eqIEEE)
    (gSrc : String → String → Bool := fun a b => a != b) (gDest : String → String → Bool := fun a b => a != b)
    (gMigSrc : String → String → Bool := fun a b => a != b) (gMigDest : String → String → Bool := fun a b => a != b) : Option (List String) :=
  (removeTransientDemesWith (fun n => decide (0 < n)) gSkip gTransient gSrc gDest gMigSrc gMigDest doc).toOption.map (·.demes.map (·.name))

example : (removeTransientDemes transientDoc).toOption.map (·.demes.map (·.name)) = some ["deme1", "deme2", "deme4"] := by
  decide +kernel
example : prune transientDoc = some ["deme1", "deme2", "deme4"] := by decide +kernel
/-- `>=` for `==` selects `deme2` as well (used by a pulse and a migration: an assertion fires) -/
example : prune transientDoc (gTransient := fun s e => Num.le e s) = none := by decide +kernel
/-- without the skip test the deme that starts at 0 (and ends at 0) is removed -/
example : prune transientDoc (gSkip := fun _ => false) = some ["deme1", "deme2"] := by decide +kernel
private def pulseFrom : MsDoc := { transientDoc with pulses := some [{ sources := ["deme3"], dest := "deme1", time := 5, proportions := [1] }] }
private def pulseInto : MsDoc := { transientDoc with pulses := some [{ sources := ["deme1"], dest := "deme3", time := 5, proportions := [1] }] }
private def migFrom : MsDoc := { transientDoc with migrations := [{ source := "deme3", dest := "deme2", startTime := .fin 7, endTime := 0, rate := .fin 1 }] }
private def migInto : MsDoc := { transientDoc with migrations := [{ source := "deme2", dest := "deme3", startTime := .fin 7, endTime := 0, rate := .fin 1 }] }
/-- the four name tests each reject a document in which the transient deme is still referred to -/
example : prune pulseFrom = none ∧ prune pulseFrom (gSrc := fun _ _ => true) ≠ none
    ∧ prune pulseInto = none ∧ prune pulseInto (gDest := fun _ _ => true) ≠ none
    ∧ prune migFrom = none ∧ prune migFrom (gMigSrc := fun _ _ => true) ≠ none
    ∧ prune migInto = none ∧ prune migInto (gMigDest := fun _ _ => true) ≠ none := by
  decide +kernel

/-- the sort is descending in `start_time` and stable; ascending, or by another comparison, it is a different order -/
example : (sortDemesByAncestry transientDoc.demes).map (·.name) = ["deme1", "deme2", "deme3", "deme4"]
    ∧ (sortDemesByAncestry transientDoc.demes.reverse).map (·.name) = ["deme1", "deme2", "deme3", "deme4"]
    ∧ (sortDemesByAncestryWith Num.le transientDoc.demes).map (·.name) = ["deme4", "deme3", "deme2", "deme1"] := by decide +kernel

private def kindOf {α} : Except Err α → Option ErrKind
  | .error e => some e.kind
  | .ok _ => none
/-- `deme_names is not None` decides whether the names are applied; `len(set(deme_names)) != len(graph.demes)` is what turns a wrong
number of names into a `ValueError` (without it the `assert` of `remap_deme_names` fires instead) -/
example : (fromMs ["-I", "2", "1", "1"] 100 (some ["a", "b"])).toOption.map (·.graph.demes.map (·.name)) = some ["a", "b"]
    ∧ (fromMsWith (fun _ => false) (fun a b => a != b) ["-I", "2", "1", "1"] 100 (some ["a", "b"])).toOption.map
        (·.graph.demes.map (·.name)) = some ["deme1", "deme2"]
    ∧ kindOf (fromMs ["-I", "2", "1", "1"] 100 (some ["a", "b", "c"])) = some .value
    ∧ kindOf (fromMsWith (fun n => !n) (fun _ _ => false) ["-I", "2", "1", "1"] 100 (some ["a", "b", "c"])) = some .other := by
  decide +kernel
end examples

end Demes.Tables
