/-
  Proofs for C03, part 5 — `Spec.schemaOK` and `Value.wf` taken apart: what they say about the
  sections and lists of a document, in the form the loops of `resolve` need.
-/
import DemesVerif.Proofs.AcceptsBasic
namespace Demes.Proofs.Accepts
open Demes Demes.Obj Demes.Spec

/-! ### distinct keys -/

theorem wf_obj {o : Obj} : (Value.obj o).wf = true ↔ (keys o).Nodup ∧ Value.wfO o = true := by
  simp [Value.wf, keys]

theorem wfO_lookup {o : Obj} {k : String} {v : Value} (h : Value.wfO o = true)
    (hl : lookup k o = some v) : v.wf = true := by
  induction o with
  | nil => cases hl
  | cons kv o ih =>
    obtain ⟨k', v'⟩ := kv
    simp only [Value.wfO, Bool.and_eq_true] at h
    simp only [lookup] at hl
    split at hl
    · cases hl; exact h.1
    · exact ih h.2 hl

theorem wfL_mem {xs : List Value} {v : Value} (h : Value.wfL xs = true) (hv : v ∈ xs) : v.wf = true := by
  induction xs with
  | nil => cases hv
  | cons x xs ih =>
    simp only [Value.wfL, Bool.and_eq_true] at h
    rcases List.mem_cons.1 hv with rfl | hv
    · exact h.1
    · exact ih h.2 hv

theorem wf_list {xs : List Value} : (Value.list xs).wf = true ↔ Value.wfL xs = true := by
  simp [Value.wf]

theorem wf_nil : (Value.obj []).wf = true := by decide

/-- a section of a well-formed mapping is well-formed -/
theorem wf_section {o s : Obj} {k : String} (h : (Value.obj o).wf = true)
    (hs : sectionOf o k = some s) : (Value.obj s).wf = true := by
  unfold sectionOf at hs
  cases hl : lookup k o with
  | none =>
    rw [hl] at hs
    simp only [Option.getD_none, objOf, Option.some.injEq] at hs
    subst hs; exact wf_nil
  | some v =>
    rw [hl] at hs
    simp only [Option.getD_some] at hs
    rw [objOf_eq_some.1 hs] at hl
    exact wfO_lookup (wf_obj.1 h).2 hl

/-- the elements of a list-of-mappings field of a well-formed mapping are well-formed -/
theorem wf_objs {o : Obj} {k : String} {v : Value} {os : List Obj} (h : (Value.obj o).wf = true)
    (hl : lookup k o = some v) (hos : objsOf v = some os) : ∀ e ∈ os, (Value.obj e).wf = true := by
  have hv := wfO_lookup (wf_obj.1 h).2 hl
  unfold objsOf at hos
  obtain ⟨xs, hxs, hos⟩ := obind_some' hos
  rw [listOf_eq_some.1 hxs] at hv
  rw [mapOpt_objOf.1 hos] at hv
  intro e he
  exact wfL_mem (wf_list.1 hv) (List.mem_map_of_mem he)

/-- distinct keys in the deme-level `defaults.epoch` of a well-formed deme entry -/
theorem wf_deme_nodup {dd : Obj} (h : (Value.obj dd).wf = true) :
    ∀ ld L, sectionOf dd "defaults" = some ld → sectionOf ld "epoch" = some L → (keys L).Nodup :=
  fun _ _ h1 h2 => (wf_obj.1 (wf_section (wf_section h h1) h2)).1

/-! ### sections and lists of mappings -/

theorem optSection_iff {o : Obj} {k : String} {p : Obj → Bool} (hp : p [] = true) :
    optSection o k p = true ↔ ∃ s, sectionOf o k = some s ∧ p s = true := by
  unfold optSection optField sectionOf
  cases lookup k o with
  | none => simp [objOf, hp]
  | some v => cases v <;> simp [objOf, isObjWith]

theorem allObj_iff {xs : List Value} {p : Obj → Bool} :
    xs.all (isObjWith p) = true ↔ ∃ os, mapOpt objOf xs = some os ∧ ∀ e ∈ os, p e = true := by
  induction xs with
  | nil => simp [mapOpt]
  | cons x xs ih =>
    simp only [List.all_cons, Bool.and_eq_true, ih]
    constructor
    · rintro ⟨hx, os, hos, hall⟩
      cases x <;> simp only [isObjWith, Bool.false_eq_true] at hx
      rename_i o
      refine ⟨o :: os, mapOpt_cons_some.2 ⟨o, os, rfl, hos, rfl⟩, ?_⟩
      intro e he
      rcases List.mem_cons.1 he with rfl | he
      · exact hx
      · exact hall e he
    · rintro ⟨os, hos, hall⟩
      obtain ⟨o, os', h1, h2, rfl⟩ := mapOpt_cons_some.1 hos
      rw [objOf_eq_some.1 h1]
      exact ⟨hall o List.mem_cons_self, os', h2, fun e he => hall e (List.mem_cons_of_mem _ he)⟩

theorem isListOf_obj_iff {v : Value} {p : Obj → Bool} :
    isListOf (isObjWith p) v = true ↔ ∃ os, objsOf v = some os ∧ ∀ e ∈ os, p e = true := by
  unfold isListOf objsOf
  cases v with
  | list xs => simp only [listOf, Option.bind_some]; exact allObj_iff
  | _ => simp [listOf]

theorem isNonEmptyListOf_obj_iff {v : Value} {p : Obj → Bool} :
    isNonEmptyListOf (isObjWith p) v = true ↔
      ∃ os, objsOf v = some os ∧ os ≠ [] ∧ ∀ e ∈ os, p e = true := by
  unfold isNonEmptyListOf objsOf
  cases v with
  | list xs =>
    simp only [listOf, Option.bind_some, Bool.and_eq_true, Bool.not_eq_true', allObj_iff]
    constructor
    · rintro ⟨hne, os, hos, hall⟩
      refine ⟨os, hos, ?_, hall⟩
      rintro rfl
      have := mapOpt_length hos
      cases xs <;> simp at hne this
    · rintro ⟨os, hos, hne, hall⟩
      refine ⟨?_, os, hos, hall⟩
      cases xs with
      | nil => cases hos; exact (hne rfl).elim
      | cons x xs => rfl
  | _ => simp [listOf]

theorem optObjList_iff {o : Obj} {k : String} {p : Obj → Bool} :
    optObjList o k p = true ↔ ∃ os, objListOf o k = some os ∧ ∀ e ∈ os, p e = true := by
  unfold optObjList optField objListOf
  cases lookup k o with
  | none => simp
  | some v => exact isListOf_obj_iff

theorem onlyFields_nil (a : List String) : onlyFields a [] = true := rfl
theorem validFields_nil (f : String → Value → Bool) : validFields f [] = true := rfl

/-! ### one entry of `demes` -/

/-- the optional `epochs` field: `[{}]` when absent -/
def epochsOf (dd : Obj) : Option (List Obj) :=
  match lookup "epochs" dd with
  | none => some [[]]
  | some v => objsOf v

theorem demeSchemaOK_iff {dd : Obj} :
    demeSchemaOK dd = true ↔
      (lookup "name" dd).isSome = true ∧ onlyFields demeFields dd = true ∧
      ∃ ld L es,
        sectionOf dd "defaults" = some ld ∧ onlyFields demeDefaultsFields ld = true ∧
        sectionOf ld "epoch" = some L ∧ validFields validEpochDefault L = true ∧
        epochsOf dd = some es ∧ es ≠ [] ∧ ∀ e ∈ es, onlyFields epochFields e = true := by
  unfold demeSchemaOK
  have hep : optField dd "epochs" (isNonEmptyListOf (isObjWith (onlyFields epochFields))) = true ↔
      ∃ es, epochsOf dd = some es ∧ es ≠ [] ∧ ∀ e ∈ es, onlyFields epochFields e = true := by
    unfold epochsOf optField
    cases lookup "epochs" dd with
    | none =>
      simp only [Option.some.injEq, true_iff]
      refine ⟨[[]], rfl, by simp, ?_⟩
      intro e he
      simp only [List.mem_singleton] at he
      subst he; rfl
    | some v => exact isNonEmptyListOf_obj_iff
  simp only [Bool.and_eq_true, hep,
    optSection_iff (p := fun ld => onlyFields demeDefaultsFields ld
      && optSection ld "epoch" (validFields validEpochDefault)) rfl,
    optSection_iff (p := validFields validEpochDefault) rfl]
  constructor
  · rintro ⟨⟨⟨h1, h2⟩, ld, h3, h4, L, h5, h6⟩, es, h7, h8, h9⟩
    exact ⟨h1, h2, ld, L, es, h3, h4, h5, h6, h7, h8, h9⟩
  · rintro ⟨h1, h2, ld, L, es, h3, h4, h5, h6, h7, h8, h9⟩
    exact ⟨⟨⟨h1, h2⟩, ld, h3, h4, L, h5, h6⟩, es, h7, h8, h9⟩

/-! ### the whole document -/

theorem schemaOK_iff {d : Value} :
    schemaOK d = true ↔
      ∃ data defaults DD MD PD GE demes migs pulses,
        d = .obj data ∧ onlyFields topFields data = true ∧
        sectionOf data "defaults" = some defaults ∧ onlyFields defaultsFields defaults = true ∧
        sectionOf defaults "deme" = some DD ∧ validFields validDemeDefault DD = true ∧
        sectionOf defaults "migration" = some MD ∧ validFields validMigrationDefault MD = true ∧
        sectionOf defaults "pulse" = some PD ∧ validFields validPulseDefault PD = true ∧
        sectionOf defaults "epoch" = some GE ∧ validFields validEpochDefault GE = true ∧
        (lookup "time_units" data).isSome = true ∧
        (lookup "demes" data).bind objsOf = some demes ∧ demes ≠ [] ∧
        (∀ dd ∈ demes, demeSchemaOK dd = true) ∧
        objListOf data "migrations" = some migs ∧ (∀ m ∈ migs, onlyFields migrationFields m = true) ∧
        objListOf data "pulses" = some pulses ∧ (∀ p ∈ pulses, onlyFields pulseFields p = true) := by
  cases d with
  | obj data =>
    unfold schemaOK
    have hdemes : reqField data "demes" (isNonEmptyListOf (isObjWith demeSchemaOK)) = true ↔
        ∃ demes, (lookup "demes" data).bind objsOf = some demes ∧ demes ≠ [] ∧
          ∀ dd ∈ demes, demeSchemaOK dd = true := by
      unfold reqField
      cases lookup "demes" data with
      | none => simp
      | some v => exact isNonEmptyListOf_obj_iff
    simp only [Bool.and_eq_true, hdemes, optObjList_iff,
      optSection_iff (p := fun df => onlyFields defaultsFields df
        && optSection df "deme" (validFields validDemeDefault)
        && optSection df "migration" (validFields validMigrationDefault)
        && optSection df "pulse" (validFields validPulseDefault)
        && optSection df "epoch" (validFields validEpochDefault)) rfl,
      optSection_iff (p := validFields validDemeDefault) rfl,
      optSection_iff (p := validFields validMigrationDefault) rfl,
      optSection_iff (p := validFields validPulseDefault) rfl,
      optSection_iff (p := validFields validEpochDefault) rfl]
    constructor
    · rintro ⟨⟨⟨⟨⟨h1, defaults, h2, ⟨⟨⟨⟨h3, DD, h4, h5⟩, MD, h6, h7⟩, PD, h8, h9⟩, GE, h10, h11⟩⟩, h12⟩,
        demes, h13, h14, h15⟩, migs, h16, h17⟩, pulses, h18, h19⟩
      exact ⟨data, defaults, DD, MD, PD, GE, demes, migs, pulses, rfl, h1, h2, h3, h4, h5, h6, h7, h8, h9,
        h10, h11, h12, h13, h14, h15, h16, h17, h18, h19⟩
    · rintro ⟨data', defaults, DD, MD, PD, GE, demes, migs, pulses, hd, h1, h2, h3, h4, h5, h6, h7, h8, h9,
        h10, h11, h12, h13, h14, h15, h16, h17, h18, h19⟩
      cases hd
      exact ⟨⟨⟨⟨⟨h1, defaults, h2, ⟨⟨⟨⟨h3, DD, h4, h5⟩, MD, h6, h7⟩, PD, h8, h9⟩, GE, h10, h11⟩⟩, h12⟩,
        demes, h13, h14, h15⟩, migs, h16, h17⟩, pulses, h18, h19⟩
  | _ =>
    simp only [schemaOK, Bool.false_eq_true, false_iff]
    rintro ⟨data, _, _, _, _, _, _, _, _, hd, _⟩
    cases hd

end Demes.Proofs.Accepts
