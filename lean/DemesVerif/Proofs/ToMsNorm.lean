/-
  C07 — `toMs_sem` without the hypothesis `ExactProportions`: `toMs` does not see a common
  factor of a deme's ancestry proportions (it emits `p_k / sum(p[k:])`), so it emits the same
  command for `g` and for `normalizeProportions g`; the latter is valid with exact proportions,
  and `ToMs.toMs_sem` applies to it.
-/
import DemesVerif.Proofs.ToMsSem
import DemesVerif.Proofs.ToMsNormValid
set_option linter.unusedSimpArgs false
set_option linter.unusedVariables false
namespace Demes.Proofs.ToMsNorm
open Demes Demes.Ms Demes.Spec Demes.Spec.C07 Demes.Proofs.RV Demes.Proofs.ToMs
open Demes.Spec.MsSem
open Demes.Proofs.InGen (all_congr_mem all_map' any_map')

theorem expr_norm (g : Graph) : MsExpressible (normalizeProportions g) = MsExpressible g := by
  unfold MsExpressible
  rw [norm_demes, all_map', norm_pulses]
  rfl

theorem samplesOk_norm (g : Graph) (s : Option (List Int)) :
    samplesOk (normalizeProportions g) s = samplesOk g s := by
  cases s <;> simp [samplesOk]

/-! ### names, positions, start times -/

theorem demeId?_norm (g : Graph) (name : String) :
    (normalizeProportions g).demeId? name = g.demeId? name := by
  unfold Graph.demeId?
  simp only [norm_demes, List.length_map, List.getElem?_map, Option.map_map]
  rfl

theorem idOf_norm (g : Graph) (name : String) : idOf (normalizeProportions g) name = idOf g name := by
  unfold idOf
  rw [demeId?_norm]

theorem deme?_norm (g : Graph) (name : String) :
    (normalizeProportions g).deme? name = (g.deme? name).map normDeme := by
  unfold Graph.deme? Graph.indexLookup
  rw [norm_index]
  cases (g.index.find? (fun kv => kv.1 = name)).map (·.2) with
  | none => rfl
  | some i => simp only [norm_demes, List.getElem?_map]

theorem startOf_norm (g : Graph) (name : String) : startOf (normalizeProportions g) name = startOf g name := by
  unfold startOf
  rw [deme?_norm, Option.map_map]
  rfl

/-! ### the three generators -/

theorem sizeEvsAll_norm (N0 : Q) (g : Graph) :
    sizeEvsAll N0 (normalizeProportions g).demes.zipIdx = sizeEvsAll N0 g.demes.zipIdx := by
  unfold sizeEvsAll
  rw [norm_demes, List.zipIdx_map, List.flatMap_map]
  rfl

theorem migEvs_norm (N0 : Q) (g : Graph) : migEvs N0 (normalizeProportions g) = migEvs N0 g := by
  unfold migEvs migOffs migOns
  rw [norm_migrations]
  have h1 : offCond (normalizeProportions g) = offCond g := by
    funext m
    simp only [offCond, startOf_norm]
  have h2 : migOff (normalizeProportions g) = migOff g := by
    funext m
    simp only [migOff, idOf_norm]
  have h3 : migOn N0 (normalizeProportions g) = migOn N0 g := by
    funext m
    simp only [migOn, idOf_norm]
  rw [h1, h2, h3]

/-- the image of an element of `demes_and_pulses` -/
def normDP : DemeOrPulse → DemeOrPulse
  | .deme d => .deme (normDeme d)
  | .pulse p => .pulse p

theorem dps_norm (g : Graph) : dps (normalizeProportions g) = (dps g).map normDP := by
  unfold dps
  rw [← sortBy_map (le := fun a b : DemeOrPulse => decide (a.key ≤ b.key))
    (le' := fun a b : DemeOrPulse => decide (a.key ≤ b.key)) normDP
    (fun a b => by cases a <;> cases b <;> rfl)]
  congr 1
  rw [norm_demes, norm_pulses, List.map_append, List.map_map, List.map_map, List.map_map]
  rfl

theorem sumFrom_eq_qsumS (ps : List Q) (k : Nat) : sumFrom ps k = qsumS (ps.drop k) := by
  rw [← sumFrom_zero_eq]
  unfold sumFrom
  rw [List.drop_zero]

theorem sumFrom_map_div (ps : List Q) (s : Q) (k : Nat) :
    sumFrom (ps.map (fun p => p / s)) k = sumFrom ps k / s := by
  rw [sumFrom_eq_qsumS, sumFrom_eq_qsumS, ← List.map_drop, qsumS_map_div]

/-- `p_k / sum(p[k:])` does not see a common factor -/
theorem tailProp_norm (d : Deme) (h : d.proportions = [] ∨ qsumS d.proportions ≠ 0) (k : Nat) :
    tailProp (normDeme d) k = tailProp d k := by
  unfold tailProp
  rw [normDeme_proportions]
  rcases h with h | h
  · rw [h]; rfl
  · rw [sumFrom_map_div]
    have : (d.proportions.map (fun p => p / qsumS d.proportions)).getD k 0
        = d.proportions.getD k 0 / qsumS d.proportions := by
      rw [List.getD_eq_getElem?_getD, List.getD_eq_getElem?_getD, List.getElem?_map]
      cases d.proportions[k]? with
      | none => simp
      | some x => rfl
    rw [this, div_div_div_cancel _ _ _ h]

theorem ancDemeEvs_norm (g : Graph) (d : Deme) (h : d.proportions = [] ∨ qsumS d.proportions ≠ 0) :
    ∀ (aks : List (String × Nat)) (n : Nat),
      ancDemeEvs (normalizeProportions g) (normDeme d) n aks = ancDemeEvs g d n aks
  | [], _ => rfl
  | (a, k) :: r, n => by
    simp only [ancDemeEvs, normDeme_ancestors, normDeme_startTime, normDeme_name, idOf_norm,
      tailProp_norm d h, ancDemeEvs_norm g d h r]

theorem ancDemeCount_norm (d : Deme) :
    ∀ (aks : List (String × Nat)) (n : Nat), ancDemeCount (normDeme d) n aks = ancDemeCount d n aks
  | [], _ => rfl
  | (a, k) :: r, n => by
    simp only [ancDemeCount, normDeme_ancestors, ancDemeCount_norm d r]

theorem pulseEvs_norm (g : Graph) (p : Pulse) (n : Nat) :
    pulseEvs (normalizeProportions g) p n = pulseEvs g p n := by
  simp only [pulseEvs, idOf_norm]

theorem ancEvs_norm (g : Graph) :
    ∀ (xs : List DemeOrPulse) (n : Nat),
      (∀ d, DemeOrPulse.deme d ∈ xs → d.proportions = [] ∨ qsumS d.proportions ≠ 0) →
      ancEvs (normalizeProportions g) n (xs.map normDP) = ancEvs g n xs
  | [], _, _ => rfl
  | .deme d :: r, n, h => by
    have hd := h d List.mem_cons_self
    have ih := fun m => ancEvs_norm g r m (fun d' hd' => h d' (List.mem_cons_of_mem _ hd'))
    simp only [List.map_cons, normDP, ancEvs, normDeme_ancestors, ancDemeEvs_norm g d hd,
      ancDemeCount_norm, ih]
  | .pulse p :: r, n, h => by
    have ih := fun m => ancEvs_norm g r m (fun d' hd' => h d' (List.mem_cons_of_mem _ hd'))
    simp only [List.map_cons, normDP, ancEvs, pulseEvs_norm, ih]

/-- in a graph that passes V4 the proportions of a deme are empty or have a non-zero sum -/
theorem sum_ne_zero {g : Graph} (h4 : v4 g = true) {d : Deme} (hd : d ∈ g.demes) :
    d.proportions = [] ∨ qsumS d.proportions ≠ 0 := by
  obtain ⟨_, hp, _⟩ := v4_deme h4 hd
  by_cases hne : d.proportions = []
  · exact Or.inl hne
  · exact Or.inr (ne_of_gt (qsumS_pos (fun p hp' => (hp p hp').1) hne))

/-! ### the command -/

theorem rawEvs_norm {g : Graph} (h4 : v4 g = true) (N0 : Q) :
    rawEvs (normalizeProportions g) N0 = rawEvs g N0 := by
  unfold rawEvs
  rw [sizeEvsAll_norm, migEvs_norm, dps_norm, norm_demes, List.length_map,
    ancEvs_norm g (dps g) g.demes.length (fun d hd => sum_ne_zero h4 (mem_dps_deme hd))]

theorem cmdOf_norm {g : Graph} (h4 : v4 g = true) (N0 : Q) (samples : Option (List Int)) :
    cmdOf (normalizeProportions g) N0 samples = cmdOf g N0 samples := by
  unfold cmdOf finalEvs
  rw [rawEvs_norm h4, norm_demes, List.length_map]

/-- `toMs` emits the same command for a valid graph and for its normalisation -/
theorem toMs_norm {graph : Graph} (hv : validGraph graph = true) (hx : MsExpressible graph = true)
    {N0 : Q} (hN : 0 < N0) {samples : Option (List Int)} (hs : samplesOk graph samples = true) :
    toMs (normalizeProportions graph) N0 samples = toMs graph N0 samples := by
  have c := clauses_of_valid (InGen.inGenerations_valid graph hv)
  rw [toMs_ok_eq (validGraph_norm hv) (by rw [expr_norm]; exact hx) hN (by rw [samplesOk_norm]; exact hs),
    toMs_ok_eq hv hx hN hs, norm_inGen, cmdOf_norm c.h4]

/-! ### the theorem -/

/-- Statement of `Theorems.toMs_sem`. -/
theorem toMs_sem {graph : Graph} (hv : validGraph graph = true) (hx : MsExpressible graph = true)
    {N0 : Q} (hN : 0 < N0) {samples : Option (List Int)} (hs : samplesOk graph samples = true) :
    ∃ c cmd sem gs, toMs graph N0 samples = .ok c ∧ parseCmd c = some cmd ∧ msSemG cmd N0 = .ok sem
      ∧ graphSem (inGenerations (normalizeProportions graph)) none = .ok gs
      ∧ semMatches N0 sem gs = true := by
  have h := ToMs.toMs_sem (validGraph_norm hv) (by rw [expr_norm]; exact hx)
    (exact_norm (clauses_of_valid hv).h4) hN (samples := samples) (by rw [samplesOk_norm]; exact hs)
  rwa [toMs_norm hv hx hN hs] at h

/-- `toMs_sem_partial` is the case in which normalisation does nothing -/
theorem toMs_sem_of_exact {graph : Graph} (hv : validGraph graph = true) (hx : MsExpressible graph = true)
    (hex : ExactProportions graph = true)
    {N0 : Q} (hN : 0 < N0) {samples : Option (List Int)} (hs : samplesOk graph samples = true) :
    ∃ c cmd sem gs, toMs graph N0 samples = .ok c ∧ parseCmd c = some cmd ∧ msSemG cmd N0 = .ok sem
      ∧ graphSem (inGenerations graph) none = .ok gs ∧ semMatches N0 sem gs = true := by
  have h := toMs_sem hv hx hN hs
  rwa [normalizeProportions_exact hex] at h

end Demes.Proofs.ToMsNorm
