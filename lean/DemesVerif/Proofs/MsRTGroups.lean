/-
  C09, first sentence — the time groups of the two interpreters coincide on a time-sorted command
  of the growth-free fragment: `cmdGroups (prOf hdr evs) = (groupsByTime evs).map (List.map cmdOfG)`.
-/
import DemesVerif.Proofs.MsRTDefs
import DemesVerif.Proofs.FromMsSizeFold
namespace Demes.Proofs.MsRT
open Demes Demes.Ms Demes.Spec Demes.Spec.C07 Demes.Spec.C09
open Demes.Spec.MsSem (Cmd Parsed insertCmd)
open Demes.Spec.C08 (cmdGroups)

/-! ### `List.splitBy` as a right fold -/

/-- put `a` in front of the first group if it is related to its first element -/
def grp {α} (R : α → α → Bool) (a : α) : List (List α) → List (List α)
  | (h :: g) :: gs => if R a h then (a :: h :: g) :: gs else [a] :: (h :: g) :: gs
  | gs => [a] :: gs

theorem foldr_grp_cons {α} (R : α → α → Bool) (a : α) (l : List α) :
    ∃ g gs, (a :: l).foldr (grp R) [] = (a :: g) :: gs := by
  induction l generalizing a with
  | nil => exact ⟨[], [], rfl⟩
  | cons b l ih =>
    obtain ⟨g, gs, h⟩ := ih b
    rw [List.foldr_cons, h]
    unfold grp
    by_cases hr : R a b = true
    · exact ⟨b :: g, gs, by simp [hr]⟩
    · exact ⟨[], (b :: g) :: gs, by simp [hr]⟩

theorem splitByLoop_eq {α} (R : α → α → Bool) : ∀ (l : List α) (b : α) (r : List α) (acc : List (List α)),
    List.splitBy.loop R l b r acc
      = acc.reverse ++ (match (b :: l).foldr (grp R) [] with
                        | g :: gs => (r.reverse ++ g) :: gs
                        | [] => [])
  | [], b, r, acc => by
    simp [List.splitBy.loop, grp]
  | a :: as, b, r, acc => by
    obtain ⟨g', gs', h'⟩ := foldr_grp_cons R a as
    have hG : (b :: a :: as).foldr (grp R) [] = grp R b ((a :: g') :: gs') := by
      rw [List.foldr_cons, h']
    rw [hG]
    unfold List.splitBy.loop
    cases hr : R b a with
    | true =>
      simp only [grp, hr, if_true]
      rw [splitByLoop_eq R as a (b :: r) acc, h']
      simp
    | false =>
      simp only [grp, hr, Bool.false_eq_true, if_false]
      rw [splitByLoop_eq R as a [] ((b :: r).reverse :: acc), h']
      simp

theorem splitBy_eq_foldr {α} (R : α → α → Bool) (l : List α) : l.splitBy R = l.foldr (grp R) [] := by
  cases l with
  | nil => rfl
  | cons a l =>
    show List.splitBy.loop R l a [] [] = _
    rw [splitByLoop_eq]
    obtain ⟨g, gs, h⟩ := foldr_grp_cons R a l
    rw [h]
    simp

/-- `groupsByTime` is `splitBy` on equal times -/
theorem groupsByTime_eq (evs : List (Event Growth)) :
    groupsByTime evs = evs.splitBy (fun a b => evT a == evT b) := by
  rw [splitBy_eq_foldr]
  unfold groupsByTime
  congr 1
  funext e gs
  unfold groupEv grp
  split
  · next h g gs' =>
    by_cases he : evT h = evT e
    · simp [he]
    · have : ¬ evT e = evT h := fun x => he x.symm
      simp [he, this]
  · next hne =>
    split
    · next h g gs' => exact absurd rfl (hne h g gs')
    · rfl

/-! ### the commands of the fragment -/

theorem cmdOfG_t {e : Event Growth} (h : EvRT e) : (cmdOfG e).t = evT e := by
  cases e with
  | popSizeChange o t i x => obtain ⟨_, _, q, y, rfl, _, rfl, _⟩ := h; rfl
  | migEntryChange o t i j x => obtain ⟨_, _, _, q, y, rfl, _, rfl, _⟩ := h; rfl
  | split o t i p => obtain ⟨_, _, q, y, rfl, _, rfl, _⟩ := h; rfl
  | join o t i j => rfl
  | growthRateChange => exact h.elim
  | popGrowthRateChange => exact h.elim
  | sizeChange => exact h.elim
  | migRateChange => exact h.elim
  | migMatrixChange => exact h.elim

theorem evT_nonneg {e : Event Growth} (h : EvRT e) : 0 ≤ evT e := by
  cases e with
  | popSizeChange o t i x => obtain ⟨_, _, q, y, rfl, hq, rfl, _⟩ := h; exact hq
  | migEntryChange o t i j x => obtain ⟨_, _, _, q, y, rfl, hq, rfl, _⟩ := h; exact hq
  | split o t i p => obtain ⟨_, _, q, y, rfl, hq, rfl, _⟩ := h; exact Rat.le_of_lt hq
  | join o t i j => obtain ⟨_, _, _, q, rfl, hq⟩ := h; exact Rat.le_of_lt hq
  | growthRateChange => exact h.elim
  | popGrowthRateChange => exact h.elim
  | sizeChange => exact h.elim
  | migRateChange => exact h.elim
  | migMatrixChange => exact h.elim

theorem numPos_fin (q : Q) : numPos (.fin q) = decide (0 < q) := by
  simp [numPos, Num.lt, Num.zero]

/-- an initial-state option is at time 0, every other option at a positive time -/
theorem isInit_iff {e : Event Growth} (h : EvRT e) : isInit e = true ↔ evT e = 0 := by
  cases e with
  | popSizeChange o t i x =>
    obtain ⟨_, _, q, y, rfl, hq, rfl, _⟩ := h
    simp only [isInit, numPos_fin, evT, Event.t, Bool.not_eq_true', decide_eq_false_iff_not]
    grind
  | migEntryChange o t i j x =>
    obtain ⟨_, _, _, q, y, rfl, hq, rfl, _⟩ := h
    simp only [isInit, numPos_fin, evT, Event.t, Bool.not_eq_true', decide_eq_false_iff_not]
    grind
  | split o t i p =>
    obtain ⟨_, _, q, y, rfl, hq, rfl, _⟩ := h
    simp only [isInit, evT, Event.t]
    constructor
    · intro h; cases h
    · intro h; grind
  | join o t i j =>
    obtain ⟨_, _, _, q, rfl, hq⟩ := h
    simp only [isInit, evT, Event.t]
    constructor
    · intro h; cases h
    · intro h; grind
  | growthRateChange => exact h.elim
  | popGrowthRateChange => exact h.elim
  | sizeChange => exact h.elim
  | migRateChange => exact h.elim
  | migMatrixChange => exact h.elim

/-- in a time-sorted command the initial-state options form a prefix -/
theorem init_prefix : ∀ (evs : List (Event Growth)), (∀ e ∈ evs, EvRT e) →
    evs.Pairwise (fun a b => evT a ≤ evT b) →
    evs = evs.filter isInit ++ evs.filter (fun e => !isInit e)
  | [], _, _ => rfl
  | e :: r, he, hs => by
    have hr := init_prefix r (fun x hx => he x (List.mem_cons_of_mem _ hx)) (List.pairwise_cons.1 hs).2
    by_cases hi : isInit e = true
    · simp only [List.filter_cons, hi, if_true, Bool.not_true, Bool.false_eq_true, if_false, List.cons_append]
      rw [← hr]
    · -- `e` is at a positive time, so nothing after it is at time 0
      have hall : ∀ x ∈ r, isInit x = false := by
        intro x hx
        have h1 := (List.pairwise_cons.1 hs).1 x hx
        have h2 : evT e ≠ 0 := fun h => hi ((isInit_iff (he e List.mem_cons_self)).2 h)
        have h3 := evT_nonneg (he e List.mem_cons_self)
        cases hxi : isInit x with
        | false => rfl
        | true =>
          have := (isInit_iff (he x (List.mem_cons_of_mem _ hx))).1 hxi
          grind
      have hf1 : r.filter isInit = [] := List.filter_eq_nil_iff.2 (fun x hx => by simp [hall x hx])
      have hf2 : r.filter (fun e => !isInit e) = r := List.filter_eq_self.2 (fun x hx => by simp [hall x hx])
      simp only [List.filter_cons, hi, Bool.false_eq_true, if_false, Bool.not_false, if_true, hf1, hf2, List.nil_append]

theorem insertCmd_sorted (c : Cmd) (l : List Cmd) (h : ∀ d ∈ l.head?, c.t ≤ d.t) : insertCmd c l = c :: l := by
  cases l with
  | nil => rfl
  | cons d ds =>
    have := h d (by simp)
    simp [insertCmd, this]

theorem foldr_insertCmd_sorted : ∀ (l : List Cmd), l.Pairwise (fun a b => a.t ≤ b.t) → l.foldr insertCmd [] = l
  | [], _ => rfl
  | c :: l, h => by
    rw [List.foldr_cons, foldr_insertCmd_sorted l (List.pairwise_cons.1 h).2]
    apply insertCmd_sorted
    intro d hd
    exact (List.pairwise_cons.1 h).1 d (List.mem_of_mem_head? hd)

/-- the options in the order the string interpreter applies them are the options of the command -/
theorem cmds_prOf (hdr : Option (Nat × List String)) (evs : List (Event Growth)) (he : ∀ e ∈ evs, EvRT e)
    (hs : evs.Pairwise (fun a b => evT a ≤ evT b)) :
    (prOf hdr evs).initial ++ (prOf hdr evs).events.foldr insertCmd [] = evs.map cmdOfG := by
  have hsorted : ((evs.filter (fun e => !isInit e)).map cmdOfG).Pairwise (fun a b => a.t ≤ b.t) := by
    rw [List.pairwise_map]
    refine (hs.sublist List.filter_sublist).imp_of_mem ?_
    intro a b ha hb hab
    rw [cmdOfG_t (he a (List.mem_filter.1 ha).1), cmdOfG_t (he b (List.mem_filter.1 hb).1)]
    exact hab
  show (evs.filter isInit).map cmdOfG ++ ((evs.filter (fun e => !isInit e)).map cmdOfG).foldr insertCmd [] = _
  rw [foldr_insertCmd_sorted _ hsorted, ← List.map_append, ← init_prefix evs he hs]

/-- **the time groups of the two interpreters coincide** -/
theorem cmdGroups_prOf (hdr : Option (Nat × List String)) (evs : List (Event Growth)) (he : ∀ e ∈ evs, EvRT e)
    (hs : evs.Pairwise (fun a b => evT a ≤ evT b)) :
    cmdGroups (prOf hdr evs) = (groupsByTime evs).map (List.map cmdOfG) := by
  unfold cmdGroups
  rw [cmds_prOf hdr evs he hs, groupsByTime_eq]
  exact Demes.Proofs.FromMs.splitBy_map cmdOfG (fun a b => evT a == evT b) (fun a b => a.t == b.t) EvRT
    (fun x y hx hy => by rw [cmdOfG_t hx, cmdOfG_t hy]) evs he

end Demes.Proofs.MsRT
