"""C14 — predecessor, successor and discrete-event views are exact views of ancestry."""
from __future__ import annotations

from fractions import Fraction

from props.common import *  # noqa: F401,F403

RULE = ("valid graphs from the generator, whose ancestry DAGs favour the coincidence 'descendant start == ancestor "
        "end'; a case is one graph; non-trivial = at least one deme has ancestors; distinct by ancestry structure. "
        "Second stream: Split / Branch / Merge / Admix records constructed directly over a grid of valid and invalid "
        "field values; a case is one constructor call; non-trivial = every one; distinct by class and fields. "
        "Third stream: ordered pairs (record, perturbed copy) of real Split / Branch / Merge / Admix objects (renamed parent / "
        "child, children or (parent, proportion) pairs permuted together or separately, a time or proportion moved by 1/2x or "
        ">= 2x the tolerance, other lengths, other class, records only attribute assignment can produce), default and custom "
        "tolerances, both orders; a case is one ordered pair with its tolerances; non-trivial = the copy differs")
ASSUMPTIONS = ["children of a Split come out of a Python set: compared as sorted lists",
               "record grid: proportions are dyadic, so Python's float sum is the exact sum the Model computes; "
               "names are ASCII; a field outside the wire typing (non-str name, non-list, non-number) counts as refused",
               "closeness of records: perturbation factors are a factor >= 2 away from the tolerance, so the double evaluation "
               "of math.isclose cannot disagree with the exact one; tolerances are non-negative (math.isclose raises ValueError "
               "on negative ones); a non-record `other` is checked on the real code only"]
EXPLANATION = ("Theorems pred_is_ancestors, succ_is_transpose, pred_succ_total, events_spec(_ordered), events_partition(_count), "
               "events_records_valid, events_checked_total/_spec, the record-predicate lemmas and (closeness of the records) "
               "record_isclose_refl/_symm/_sound, record_assert_iff_isclose, record_assert_value, split_/branch_isclose_iff, "
               "merge_isclose_matched/_same_parents/_perm_pairs and the *_isclose_detects_* lemmas "
               "over the Lean Model; Model tied to the code by exact comparison (views, events, the validating events "
               "function, and accept/reject of every record class over a field grid); the classification rules re-evaluated "
               "on the code's own output.")


def spec_check(g, pred, succ, ev):
    names = [d.name for d in g.demes]
    if list(pred) != names or list(succ) != names:
        return "pred/succ keys are not the deme names in order"
    for d in g.demes:
        if pred[d.name] != d.ancestors:
            return f"predecessors[{d.name}] != ancestors"
        want = [c.name for c in g.demes if d.name in c.ancestors]
        if succ[d.name] != want:
            return f"successors[{d.name}] is not the transpose"
    if ev["pulses"] != g.pulses:
        return "pulse list changed"
    # one split event per parent (a deme ends once; `Spec.specSplits`, theorem events_spec): all children of a parent
    # that start at its end are grouped in it, however the demes are listed
    parents = [s.parent for s in ev["splits"]]
    if len(set(parents)) != len(parents):
        return f"several split events for one parent: {sorted(p for p in set(parents) if parents.count(p) > 1)}"
    seen = {}
    for s in ev["splits"]:
        for c in s.children:
            seen.setdefault(c, []).append(("split", s.parent, s.time))
    for b in ev["branches"]:
        seen.setdefault(b.child, []).append(("branch", b.parent, b.time))
    for m in ev["mergers"]:
        seen.setdefault(m.child, []).append(("merger", tuple(m.parents), m.time, tuple(m.proportions)))
    for m in ev["admixtures"]:
        seen.setdefault(m.child, []).append(("admixture", tuple(m.parents), m.time, tuple(m.proportions)))
    for d in g.demes:
        got = seen.get(d.name, [])
        if not d.ancestors:
            if got:
                return f"{d.name} has no ancestors but appears in {got}"
            continue
        if len(got) != 1:
            return f"{d.name} classified {len(got)} times"
        ends = [g[a].end_time for a in d.ancestors]
        if len(d.ancestors) == 1:
            want = ("split" if ends[0] == d.start_time else "branch", d.ancestors[0], d.start_time)
        else:
            kind = "merger" if all(e == d.start_time for e in ends) else "admixture"
            want = (kind, tuple(d.ancestors), d.start_time, tuple(d.proportions))
        if got[0] != want:
            return f"{d.name}: event {got[0]} but expected {want}"
    return None


def record_fields(kind, rec):
    """the constructor arguments of a real record object"""
    if kind == "split":
        return {"parent": rec.parent, "children": rec.children, "time": rec.time}
    if kind == "branch":
        return {"parent": rec.parent, "child": rec.child, "time": rec.time}
    return {"parents": rec.parents, "proportions": rec.proportions, "child": rec.child, "time": rec.time}


RECORD_CLASS = {"split": "Split", "branch": "Branch", "merge": "Merge", "admix": "Admix"}
EVENT_KIND = {"splits": "split", "branches": "branch", "mergers": "merge", "admixtures": "admix"}


def record_request(kind, fields):
    return {"op": "record_ok", "kind": kind, "fields": enc(fields)}


def real_record_accepts(kind, fields):
    """does demes.demes.<Class>(**fields) return?  (any exception = the record is refused)"""
    import demes.demes as dd
    try:
        getattr(dd, RECORD_CLASS[kind])(**copy.deepcopy(fields))
        return True, None
    except Exception as e:  # noqa: BLE001
        return False, type(e).__name__


def record_repro(kind, fields):
    return ("/venv/bin/python -c \"import demes.demes as dd, math; inf=math.inf; nan=math.nan; "
            f"print(dd.{RECORD_CLASS[kind]}(**{fields!r}))\"")


def record_grid(ctx):
    """(kind, fields) over a grid of valid and invalid field values (see RULE)"""
    e31, e29 = 2.0 ** -31, 2.0 ** -29
    times = [-1, -0.0, 0, 1.5, 100, math.inf, -math.inf, math.nan, True]
    out = []
    for parent in ["A", "1a", "", 3]:
        for children in [[], ["B"], ["B", "C"], ["B", "B"], ["A", "B"], ["B", "1a"], ["B", ""], ["_b", "C9"], "B", ["B", 7]]:
            for time in times + ["1", None]:
                out.append(("split", {"parent": parent, "children": children, "time": time}))
    for parent in ["A", "1a", "a b"]:
        for child in ["B", "A", "a b", "", None]:
            for time in times:
                out.append(("branch", {"parent": parent, "child": child, "time": time}))
    props = [[], [1], [0.5, 0.5], [0.5, 0.5 + e31], [0.5, 0.5 - e31], [0.5, 0.5 + e29], [0.5, 0.5 - e29],
             [1, 0], [0, 1], [1.5, -0.5], [0.25, 0.25, 0.5], [0.5, 0.5, 0.5], [0.25, 0.75 + e31, 0.0], [0.5, math.nan],
             [math.inf, 0.5], [math.inf, -math.inf], [0.125, 0.875], [0.25, 0.25, 0.25, 0.25], ["0.5", 0.5], 1.0]
    for kind in ("merge", "admix"):
        for parents in [[], ["A"], ["A", "B"], ["A", "A"], ["A", "B", "C"], ["A", "C"], ["A", "1a"], ["A", "B", "D", "E"], "AB"]:
            for proportions in props:
                for child in ["Z", "C", "1a"]:
                    for time in [0, 10, -1, math.inf, math.nan]:
                        out.append((kind, {"parents": parents, "proportions": proportions, "child": child, "time": time}))
    if ctx.tier != "quick":
        names = ["A", "B", "C", "D", "_e", "f1", "1a", "", "a-b"]
        tms = times + [2.0 ** -40, 1e300, -1e-300]
        dy = [0, 0.125, 0.25, 0.375, 0.5, 0.625, 0.75, 1, 1 + e31, 0.5 + e31, 0.5 - e29, -0.25, 1.25, math.nan, math.inf]
        for _ in range(30000):
            k = ctx.rng.choice(["split", "branch", "merge", "admix"])
            if k == "split":
                f = {"parent": ctx.rng.choice(names), "children": [ctx.rng.choice(names) for _ in range(ctx.rng.randint(0, 3))],
                     "time": ctx.rng.choice(tms)}
            elif k == "branch":
                f = {"parent": ctx.rng.choice(names), "child": ctx.rng.choice(names), "time": ctx.rng.choice(tms)}
            elif ctx.rng.random() < 0.5:
                # near a valid record: distinct parents, positive eighths summing to 1 (± a perturbation), a child outside
                kk = ctx.rng.randint(2, 4)
                ps = ctx.rng.sample(names[:6], kk)
                cuts = sorted(ctx.rng.sample(range(1, 8), kk - 1))
                pr = [(b - a) / 8 for a, b in zip([0] + cuts, cuts + [8])]
                pr[-1] += ctx.rng.choice([0, 0, 0, e31, -e31, e29, -e29])
                f = {"parents": ps, "proportions": pr, "child": ctx.rng.choice([x for x in names[:6] if x not in ps] + ["1a"]),
                     "time": ctx.rng.choice(tms)}
                if ctx.rng.random() < 0.3:
                    f["parents"] = ps[:-1] + [ctx.rng.choice(ps)]
                if ctx.rng.random() < 0.15:
                    f["child"] = ctx.rng.choice(ps)
            else:
                f = {"parents": [ctx.rng.choice(names[:6]) for _ in range(ctx.rng.randint(0, 4))],
                     "proportions": [ctx.rng.choice(dy[:9]) if ctx.rng.random() < 0.9 else ctx.rng.choice(dy)
                                     for _ in range(ctx.rng.randint(0, 4))],
                     "child": ctx.rng.choice(names), "time": ctx.rng.choice(tms)}
            out.append((k, f))
    return out


def run_records(ctx):
    """second stream: accept / reject of directly constructed records, real class against the Model's predicate"""
    grid = record_grid(ctx)
    reps = ctx.driver.batch([record_request(k, f) for k, f in grid])
    for (kind, fields), r in zip(grid, reps):
        real, exc = real_record_accepts(kind, fields)
        model = r.get("ok")
        ctx.count({"record": kind, "fields": fields}, True,
                  tags=[f"record:{kind}:{'accepted' if real else 'refused'}"])
        ctx.compared += 1
        if model is not real:
            ctx.disagreement("record_ok", {"kind": kind, "fields": fields, "reproduce": record_repro(kind, fields)},
                             {"accepts": real, "exception": exc}, r)


CLOSE_TOLS = [(None, None), (2.0 ** -20, 0.0), (0.0, 0.0), (0.0, 2.0 ** -10)]


def real_record(kind, fields, ctx=None):
    """a real record with these fields: through the constructor when it accepts them, else a valid record of the class
    whose attributes are then assigned (attrs does not validate on assignment) -> (record, 'constructed' | 'assigned')"""
    import demes.demes as dd
    cls = getattr(dd, RECORD_CLASS[kind])
    try:
        return cls(**copy.deepcopy(fields)), "constructed"
    except Exception:  # noqa: BLE001
        base = {"split": {"parent": "a", "children": ["b"], "time": 1},
                "branch": {"parent": "a", "child": "b", "time": 1},
                "merge": {"parents": ["a", "b"], "proportions": [0.5, 0.5], "child": "c", "time": 1},
                "admix": {"parents": ["a", "b"], "proportions": [0.5, 0.5], "child": "c", "time": 1}}[kind]
        rec = cls(**base)
        for k, v in copy.deepcopy(fields).items():
            setattr(rec, k, v)
        return rec, "assigned"


def close_bases(ctx):
    names = ["A", "B", "C", "D", "E", "F", "_g", "h1"]
    times = [0, 1.5, 50, 100, 2.0 ** -40, 1e6]
    props = [[0.25, 0.75], [0.5, 0.5], [0.125, 0.875], [0.25, 0.25, 0.5], [0.125, 0.375, 0.5], [0.125, 0.125, 0.25, 0.5]]
    out = [("split", {"parent": "A", "children": ["B", "C"], "time": 100}),
           ("split", {"parent": "X", "children": ["Y"], "time": 0}),
           ("branch", {"parent": "B", "child": "D", "time": 80}),
           ("merge", {"parents": ["C", "D"], "proportions": [0.25, 0.75], "child": "E", "time": 50}),
           ("admix", {"parents": ["B", "E"], "proportions": [0.25, 0.75], "child": "F", "time": 20})]
    n = 40 if ctx.tier == "quick" else 1500
    for _ in range(n):
        k = ctx.rng.choice(["split", "branch", "merge", "admix"])
        pool = ctx.rng.sample(names, len(names))
        t = ctx.rng.choice(times)
        if k == "split":
            out.append((k, {"parent": pool[0], "children": pool[1:1 + ctx.rng.randint(1, 4)], "time": t}))
        elif k == "branch":
            out.append((k, {"parent": pool[0], "child": pool[1], "time": t}))
        else:
            pr = list(ctx.rng.choice(props))
            ctx.rng.shuffle(pr)
            out.append((k, {"parents": pool[1:1 + len(pr)], "proportions": pr, "child": pool[0], "time": t}))
    return out


def close_variants(kind, f, rel, ab, rng):
    """[(perturbation, kind', fields', expected)]: expected True close / False not close / None not predicted"""
    rel = 1e-9 if rel is None else rel
    ab = 1e-12 if ab is None else ab
    out = [("same", kind, copy.deepcopy(f), True)]

    def var(name, exp, k2=None, **changes):
        g = copy.deepcopy(f)
        g.update(changes)
        out.append((name, k2 or kind, g, exp))

    t = f["time"]
    if t == 0:
        if ab > 0:
            var("time_small", True, time=ab / 2)
        var("time_big", False, time=max(4 * ab, 2.0 ** -35))
    else:
        if rel > 0:
            var("time_small", True, time=t * (1 + rel / 2))
        elif ab > 0 and t + ab / 2 != t:
            var("time_small", True, time=t + ab / 2)
        big = t * (1 + max(2 * rel, 2.0 ** -20))
        var("time_big", False if abs(big - t) > 2 * ab else None, time=big)
    var("parent_or_child_renamed", False, **({"parent": f["parent"] + "_q"} if "parent" in f else {"child": f["child"] + "_q"}))
    if kind == "split":
        ch = f["children"]
        if len(ch) > 1:
            sh = ch[1:] + ch[:1]
            var("children_permuted", True, children=sh)
            var("child_dropped", False, children=ch[:-1])
        var("child_added", False, children=ch + ["zz"])
        var("child_renamed", False, children=ch[:-1] + [ch[-1] + "_q"])
        var("child_repeated", False, children=ch + [ch[0]])            # only by assignment
        out.append(("other_class", "branch", {"parent": f["parent"], "child": ch[0], "time": t}, False))
    elif kind == "branch":
        var("child_renamed", False, child=f["child"] + "_q")
        out.append(("other_class", "split", {"parent": f["parent"], "children": [f["child"]], "time": t}, False))
    else:
        ps, pr = f["parents"], f["proportions"]
        rot = lambda xs: xs[1:] + xs[:1]
        distinct = max(pr) - min(pr) > 1e-3 and rot(pr) != pr
        var("pairs_permuted", True, parents=rot(ps), proportions=rot(pr))
        var("parents_permuted_only", (False if sorted(zip(rot(ps), pr)) != sorted(zip(ps, pr)) and distinct else None), parents=rot(ps))
        var("proportions_permuted_only", (False if sorted(zip(ps, rot(pr))) != sorted(zip(ps, pr)) and distinct else None), proportions=rot(pr))
        i, j = pr.index(min(pr)), pr.index(max(pr))
        if i != j:
            if rel > 0 or ab > 0:
                d = pr[i] * rel / 2 if rel > 0 else ab / 2
                q = list(pr); q[i] += d; q[j] -= d
                var("proportion_small", True, proportions=q)
            d = pr[i] * max(2 * rel, 2.0 ** -20) if ab < 2.0 ** -22 else 4 * ab
            q = list(pr); q[i] += d; q[j] -= d
            var("proportion_big", False if d > 2 * ab else None, proportions=q)
        var("parent_renamed", False, parents=ps[:-1] + [ps[-1] + "_q"])
        var("parent_added", False, parents=ps + ["zz"], proportions=[x / 2 for x in pr] + [0.5])
        var("other_class", False, k2=("admix" if kind == "merge" else "merge"))
        # records no constructor returns (reachable by assigning to attributes only)
        var("fewer_proportions_than_parents", None, proportions=pr[:-1])
        var("parent_repeated", None, parents=[ps[0]] + ps[:-1])
    return out


def assert_outcome(a, b, kw):
    try:
        r = a.assert_close(b, **kw)
    except AssertionError:
        return "raises"
    return "True" if r is True else "None" if r is None else repr(r)


def close_request(ka, fa, kb, fb, rel, ab):
    from wire import num_str
    req = {"op": "record_isclose", "a": {"kind": ka, "fields": enc(fa)}, "b": {"kind": kb, "fields": enc(fb)}}
    if rel is not None:
        req["rel"] = num_str(rel); req["abs"] = num_str(ab)
    return req


def close_repro(ka, fa, kb, fb, kw):
    return ("/venv/bin/python -c \"import demes.demes as dd; "
            f"a = dd.{RECORD_CLASS[ka]}(**{fa!r}); b = dd.{RECORD_CLASS[kb]}(**{fb!r}); kw = {kw!r}; "
            "print(a.isclose(b, **kw), b.isclose(a, **kw))\"   # (a record the constructor refuses: build a valid one and assign the attributes)")


def run_records_close(ctx):
    """third stream: closeness of the event records, real `isclose` / `assert_close` against the Model's"""
    cases = []
    for kind, f in close_bases(ctx):
        for rel, ab in ([ctx.rng.choice(CLOSE_TOLS)] if ctx.tier == "quick" and len(cases) > 400 else CLOSE_TOLS):
            for name, k2, f2, exp in close_variants(kind, f, rel, ab, ctx.rng):
                ra, how_a = real_record(kind, f)
                rb, how_b = real_record(k2, f2)
                cases.append((name, kind, f, ra, k2, f2, rb, rel, ab, exp, how_b))
                cases.append((name, k2, f2, rb, kind, f, ra, rel, ab, exp, how_b))
    reps = ctx.driver.batch([close_request(ka, fa, kb, fb, rel, ab) for (_n, ka, fa, _ra, kb, fb, _rb, rel, ab, _e, _h) in cases])
    notes = set()
    seen_exp = set()
    returns = {}
    for (name, ka, fa, ra, kb, fb, rb, rel, ab, exp, how), r in zip(cases, reps):
        kw = {} if rel is None else {"rel_tol": rel, "abs_tol": ab}
        v = ra.isclose(rb, **kw)
        w = assert_outcome(ra, rb, kw)
        ctx.count({"a": [ka, fa], "b": [kb, fb], "tol": [rel, ab]}, name != "same",
                  tags=[f"close:{ka}:{name}", f"close={v}", f"close:copy_{how}"])
        ctx.compared += 1
        case = {"perturbation": name, "a": {"kind": ka, "fields": fa}, "b": {"kind": kb, "fields": fb}, "tolerances": [rel, ab],
                "reproduce": close_repro(ka, fa, kb, fb, kw)}
        m = r.get("ok")
        if m is None or m.get("isclose") is not v or m.get("assert") != w:
            ctx.disagreement("record_isclose", case, {"isclose": v, "assert_close": w}, r)
        if w != "raises":
            returns.setdefault(RECORD_CLASS[ka], set()).add(w)
        # the real code against itself and against the independent expectation: C14 / C10 do not name these methods,
        # so an oddity is a NOTE (and, the Model proving the law, also a disagreement above for one of the two orders)
        if v is not (w != "raises"):
            notes.add(f"{RECORD_CLASS[ka]}: isclose and assert_close disagree ({name})")
        if v is not rb.isclose(ra, **kw):
            notes.add(f"{RECORD_CLASS[ka]} / {RECORD_CLASS[kb]}: isclose is not symmetric ({name})")
        if not ra.isclose(ra, **kw):
            notes.add(f"{RECORD_CLASS[ka]}: isclose is not reflexive")
        if exp is not None and v is not exp and (ka, name) not in seen_exp:
            seen_exp.add((ka, name))           # one example per class and perturbation
            notes.add(f"{RECORD_CLASS[ka]}: isclose is {v} after '{name}' (expected {exp}), tolerances {[rel, ab]}, a={fa}, b={fb}")
    # a non-record `other` (real code only): the class assert fails, nothing else is read
    import demes.demes as dd
    rec = dd.Branch(parent="a", child="b", time=1)
    for other in ("a string", None, 3, dd.Pulse(sources=["a"], dest="b", time=1, proportions=[0.5])):
        ctx.compared += 1
        ctx.count({"non_record_other": repr(type(other))}, True, tags=["close:non_record_other"])
        try:
            if rec.isclose(other) is not False or assert_outcome(rec, other, {}) != "raises":
                notes.add(f"a record is close to {other!r}")
        except Exception as e:  # noqa: BLE001
            notes.add(f"Branch.isclose({other!r}) raises {type(e).__name__}")
    if {k: sorted(v) for k, v in returns.items()} != {"Split": ["True"], "Branch": ["None"], "Merge": ["None"], "Admix": ["None"]}:
        notes.add(f"assert_close return values: { {k: sorted(v) for k, v in returns.items()} }")
    else:
        notes.add("Split.assert_close returns True where Branch / Merge / Admix.assert_close return None (as the Model says)")
    ctx.extra["notes"] = sorted(set(ctx.extra.get("notes", [])) | notes)


def near_one_corpus():
    """valid graphs whose merger / admixture proportions sum to 1 only within the tolerance of the validators
    (1 ± 2⁻³¹, exactly representable): the record classes must accept what `Deme` accepted"""
    out = []
    for e in (2.0 ** -31, -(2.0 ** -31)):
        for b_end in (50, 20):                      # B ends when C starts (merger) / later (admixture)
            for props, anc in (([0.5, 0.5 + e], ["A", "B"]), ([0.25, 0.25, 0.5 + e], ["A", "B", "X"])):
                doc = {"time_units": "generations",
                       "demes": [{"name": "A", "epochs": [{"start_size": 100, "end_time": 50}]},
                                 {"name": "B", "epochs": [{"start_size": 100, "end_time": b_end}]},
                                 {"name": "X", "epochs": [{"start_size": 100, "end_time": 50}]},
                                 {"name": "C", "ancestors": anc, "proportions": props, "start_time": 50,
                                  "epochs": [{"start_size": 100, "end_time": 0}]}]}
                c = impl.resolve(doc)
                if c[0] == "ok":
                    out.append((doc, c[2], ["corpus:near_one"]))
    return out


def run(ctx):
    run_records(ctx)
    run_records_close(ctx)
    n = 1200 if ctx.tier == "quick" else 20000
    done = 0
    first = True
    while done < n and ctx.time_left() > 5:
        batch = gen_valid_graphs(ctx, min(300, n - done), corpus=True, max_demes=7 if ctx.tier == "quick" else 10)
        if first:
            batch = near_one_corpus() + batch
            first = False
        done += len(batch)
        reqs = []
        for doc, g, _ in batch:
            ga = enc(g.asdict())
            reqs.append({"op": "pred_succ", "graph": ga})
            reqs.append({"op": "events", "graph": ga})
            reqs.append({"op": "events_checked", "graph": ga})
        reps = ctx.driver.batch(reqs)
        recs = []          # (document, kind, fields) of every record the real call returned
        for i, (doc, g, _) in enumerate(batch):
            r1, r2, r3 = reps[3 * i], reps[3 * i + 1], reps[3 * i + 2]
            try:
                pred, succ, ev = g.predecessors(), g.successors(), g.discrete_demographic_events()
            except Exception as e:  # noqa: BLE001  a view of a valid graph must exist
                ctx.count({"names": [d.name for d in g.demes], "raised": True}, True, tags=["view_raised"])
                ctx.violation(f"ancestry views: a view of a valid graph raises {type(e).__name__} ({str(e)[:80]})", {"document": doc},
                              python=py_repro(doc, "g.predecessors(), g.successors(), g.discrete_demographic_events()"))
                continue
            struct = [[d.ancestors, d.start_time in [g[a].end_time for a in d.ancestors]] for d in g.demes]
            ctx.count({"ancestry": struct, "names": [d.name for d in g.demes]}, any(d.ancestors for d in g.demes),
                      tags=[f"splits={len(ev['splits'])}", f"branches={len(ev['branches'])}",
                            f"mergers={len(ev['mergers'])}", f"admixtures={len(ev['admixtures'])}"])
            ctx.compared += 1
            ok = [[k, v] for k, v in pred.items()] == r1["ok"]["pred"] and [[k, v] for k, v in succ.items()] == r1["ok"]["succ"]
            mine = r2.get("ok")
            if mine is None:
                ok = False
            else:
                ok = ok and [canon({"sources": p.sources, "dest": p.dest, "time": p.time, "proportions": p.proportions}) for p in ev["pulses"]] == [dec(p) for p in mine["pulses"]]
                ok = ok and [(s.parent, sorted(s.children), Fraction(s.time)) for s in ev["splits"]] == [(s["parent"], sorted(s["children"]), dec(s["time"])) for s in mine["splits"]]
                ok = ok and [(b.parent, b.child, canon(b.time)) for b in ev["branches"]] == [(b["parent"], b["child"], dec(b["time"])) for b in mine["branches"]]
                for key in ("mergers", "admixtures"):
                    ok = ok and [(b.parents, canon(b.proportions), b.child, canon(b.time)) for b in ev[key]] == [(b["parents"], dec(b["proportions"]), b["child"], dec(b["time"])) for b in mine[key]]
            if not ok:
                ctx.disagreement("pred_succ/events", {"document": doc}, None, [r1, r2])
            if r3 != r2:
                # the Model's validating function: on a valid graph it returns what the unchecked one returns
                ctx.disagreement("events_checked", {"document": doc}, "the real call returned", [r2, r3])
            for key, kind in EVENT_KIND.items():
                for rec in ev[key]:
                    recs.append((doc, kind, record_fields(kind, rec)))
            why = spec_check(g, pred, succ, ev)
            if why is None and i % 4 == 0 and len(g.demes) > 1:
                # the views of a RENAMED copy of a graph whose views have just been computed (a swap of two names
                # plus a fresh name) must be the views of that copy, not remembered ones
                names = [d.name for d in g.demes]
                mp = {names[0]: names[1], names[1]: names[0]}
                if len(names) > 2:
                    mp[names[2]] = names[2] + "_r"
                try:
                    g2 = g.rename_demes(mp)
                    why2 = spec_check(g2, g2.predecessors(), g2.successors(), g2.discrete_demographic_events())
                except Exception as e:  # noqa: BLE001
                    why2 = f"a view of the renamed graph raises {type(e).__name__}"
                ctx.count({"renamed_views": [d.name for d in g.demes], "map": mp}, True, tags=["views_after_rename"])
                if why2:
                    ctx.violation("ancestry views after rename_demes: " + why2, {"document": doc, "rename": mp},
                                  python=py_repro(doc, f"(lambda h: (h.predecessors(), h.successors(), h.discrete_demographic_events()))((g.predecessors(), g.rename_demes({mp!r}))[1])"))
            if why:
                ctx.violation("ancestry views: " + why, {"document": doc},
                              python=py_repro(doc, "g.predecessors(), g.successors(), g.discrete_demographic_events()"))
        # every record the real call returned passes the Model's validation of its class
        rreps = ctx.driver.batch([record_request(kind, fields) for _, kind, fields in recs])
        for (doc, kind, fields), r in zip(recs, rreps):
            ctx.compared += 1
            if r.get("ok") is not True:
                ctx.disagreement("record_ok(returned record)", {"document": doc, "kind": kind, "fields": fields},
                                 "returned by discrete_demographic_events()", r)


def replay(ctx, payload):
    import demes
    inp = payload["input"]
    if "perturbation" in inp:           # a pair of records compared for closeness
        rel, ab = inp["tolerances"]
        kw = {} if rel is None else {"rel_tol": rel, "abs_tol": ab}
        a, b = inp["a"], inp["b"]
        ra, _ = real_record(a["kind"], a["fields"]); rb, _ = real_record(b["kind"], b["fields"])
        print("real isclose:", ra.isclose(rb, **kw), "reverse:", rb.isclose(ra, **kw), "assert_close:", assert_outcome(ra, rb, kw),
              "Model:", ctx.driver.batch([close_request(a["kind"], a["fields"], b["kind"], b["fields"], rel, ab)]))
        return 0
    if "document" not in inp:          # a directly constructed record
        print(inp["kind"], inp["fields"], "real class:", real_record_accepts(inp["kind"], inp["fields"]),
              "Model:", ctx.driver.batch([record_request(inp["kind"], inp["fields"])]))
        return 0
    g = demes.Graph.fromdict(inp["document"])
    print(g.predecessors(), g.successors(), g.discrete_demographic_events())
    print(spec_check(g, g.predecessors(), g.successors(), g.discrete_demographic_events()))
    return 0
