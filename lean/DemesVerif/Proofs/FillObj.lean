/-
  Proofs for C02, part 1 — lookups in `insertDefaults` / `update` / `set` / `erase`
  (the precedence of explicit fields over deme-level over top-level defaults).
-/
import DemesVerif.Spec.C02
namespace Demes.Proofs
open Demes Demes.Obj Demes.Spec

/-! ### `Except` basics -/

theorem bind_ok {α β} {x : Except Err α} {f : α → Except Err β} {r : β}
    (h : (x >>= f) = .ok r) : ∃ a, x = .ok a ∧ f a = .ok r := by
  cases x with
  | error e => cases h
  | ok a => exact ⟨a, rfl, h⟩

theorem ok_bind {α β} (a : α) (f : α → Except Err β) : (Except.ok a >>= f) = f a := rfl

theorem foldlM_congr' {ε α β} {f g : β → α → Except ε β} {l : List α}
    (h : ∀ b, ∀ x ∈ l, f b x = g b x) (b : β) : l.foldlM f b = l.foldlM g b := by
  induction l generalizing b with
  | nil => rfl
  | cons a l ih =>
    rw [List.foldlM_cons, List.foldlM_cons, h b a List.mem_cons_self]
    congr 1
    funext b'
    exact ih (fun b x hx => h b x (List.mem_cons_of_mem _ hx)) b'

/-! ### `lookup` basics -/

theorem lookup_nil (k : String) : lookup k [] = none := rfl

theorem lookup_cons (k k' : String) (v : Value) (d : Obj) :
    lookup k ((k', v) :: d) = if k' = k then some v else lookup k d := rfl

theorem lookup_append (k : String) (a b : Obj) :
    lookup k (a ++ b) = (lookup k a <|> lookup k b) := by
  induction a with
  | nil => simp [lookup_nil]
  | cons kv a ih =>
    obtain ⟨k', v⟩ := kv
    simp only [List.cons_append, lookup_cons]
    split
    · simp
    · exact ih

theorem lookup_eq_none_iff (k : String) (d : Obj) : lookup k d = none ↔ k ∉ keys d := by
  induction d with
  | nil => simp [lookup_nil, keys]
  | cons kv d ih =>
    obtain ⟨k', v⟩ := kv
    simp only [lookup_cons, keys, List.map_cons, List.mem_cons, not_or] at *
    split
    · rename_i h; simp [h]
    · rename_i h
      rw [ih]
      constructor
      · intro h2; exact ⟨fun e => h e.symm, h2⟩
      · intro h2; exact h2.2

theorem contains_eq (k : String) (d : Obj) : contains k d = (lookup k d).isSome := rfl

theorem contains_iff (k : String) (d : Obj) : contains k d = true ↔ k ∈ keys d := by
  rw [contains_eq]
  by_cases h : k ∈ keys d
  · have : lookup k d ≠ none := fun e => (lookup_eq_none_iff k d).1 e h
    cases hl : lookup k d with
    | none => exact (this hl).elim
    | some v => simp [h]
  · rw [(lookup_eq_none_iff k d).2 h]; simp [h]

theorem lookupNN_eq_notNull (k : String) (d : Obj) : lookupNN k d = notNull (lookup k d) := rfl

/-! ### `set` -/

theorem lookup_set (k k' : String) (v : Value) (d : Obj) :
    lookup k (Obj.set k' v d) = if k' = k then some v else lookup k d := by
  induction d with
  | nil => simp [Obj.set, lookup_cons, lookup_nil]
  | cons kv d ih =>
    obtain ⟨k'', v''⟩ := kv
    simp only [Obj.set]
    by_cases h1 : k'' = k'
    · subst h1
      simp only [if_true, lookup_cons]
      by_cases h2 : k'' = k <;> simp [h2]
    · simp only [h1, if_false, lookup_cons, ih]
      by_cases h2 : k'' = k
      · subst h2; simp [Ne.symm h1]
      · simp [h2]

theorem set_eq_append {k : String} {d : Obj} (h : lookup k d = none) (v : Value) :
    Obj.set k v d = d ++ [(k, v)] := by
  induction d with
  | nil => rfl
  | cons kv d ih =>
    obtain ⟨k', v'⟩ := kv
    rw [lookup_cons] at h
    by_cases hk : k' = k
    · simp [hk] at h
    · simp only [hk, if_false] at h
      simp [Obj.set, hk, ih h]

/-! ### `insertDefaults` — no hypothesis on either object is needed -/

/-- **C02 (1)** A field of `insert_defaults(data, defaults)` is the field of `data` if `data`
has it, else the field of `defaults`. -/
theorem lookup_insertDefaults (k : String) (d D : Obj) :
    lookup k (insertDefaults d D) = (lookup k d <|> lookup k D) := by
  unfold insertDefaults
  induction D generalizing d with
  | nil => simp [lookup_nil]
  | cons kv D ih =>
    obtain ⟨k', v⟩ := kv
    rw [List.foldl_cons, ih]
    simp only [lookup_cons]
    split
    · rename_i hc
      rw [contains_eq] at hc
      by_cases hk : k' = k
      · subst hk
        cases hl : lookup k' d with
        | none => simp [hl] at hc
        | some w => simp
      · simp [hk]
    · rename_i hc
      rw [contains_eq] at hc
      rw [lookup_append, lookup_cons, lookup_nil]
      by_cases hk : k' = k
      · subst hk
        cases hl : lookup k' d with
        | none => simp
        | some w => simp [hl] at hc
      · simp [hk]

theorem contains_insertDefaults (k : String) (d D : Obj) :
    contains k (insertDefaults d D) = (contains k d || contains k D) := by
  simp only [contains_eq, lookup_insertDefaults]
  cases lookup k d <;> simp

/-- `lookupNN` after `insertDefaults`: the value in force, `null` counting as absent. -/
theorem lookupNN_insertDefaults (k : String) (d D : Obj) :
    lookupNN k (insertDefaults d D) = effectiveNN d D [] k := by
  simp only [lookupNN, effectiveNN, notNull, effective, lookup_insertDefaults, lookup_nil]
  cases lookup k d <;> cases lookup k D <;> rfl

theorem lookup_insertDefaults_eff (k : String) (d D : Obj) :
    lookup k (insertDefaults d D) = effective d D [] k := by
  simp only [effective, lookup_insertDefaults, lookup_nil]
  cases lookup k d <;> cases lookup k D <;> simp

/-! ### `update` -/

/-- In `a.copy().update(b)` the **last** entry of `b` for a key wins (hence `b.reverse`). -/
theorem lookup_update_reverse (k : String) (a b : Obj) :
    lookup k (update a b) = (lookup k b.reverse <|> lookup k a) := by
  unfold update
  induction b generalizing a with
  | nil => simp [lookup_nil]
  | cons kv b ih =>
    obtain ⟨k', v⟩ := kv
    rw [List.foldl_cons, ih, List.reverse_cons, lookup_append, lookup_set, lookup_cons, lookup_nil]
    cases lookup k b.reverse with
    | some w => simp
    | none => by_cases hk : k' = k <;> simp [hk]

theorem lookup_reverse_of_nodup (k : String) (b : Obj) (hb : (keys b).Nodup) :
    lookup k b.reverse = lookup k b := by
  induction b with
  | nil => rfl
  | cons kv b ih =>
    obtain ⟨k', v⟩ := kv
    simp only [keys, List.map_cons, List.nodup_cons] at hb
    rw [List.reverse_cons, lookup_append, ih hb.2, lookup_cons, lookup_cons, lookup_nil]
    by_cases hk : k' = k
    · subst hk
      have : lookup k' b = none := (lookup_eq_none_iff _ _).2 hb.1
      simp [this]
    · simp only [hk, if_false]
      cases lookup k b <;> simp

/-- **C02 (2)** With pairwise distinct keys in `b` (every JSON/YAML/Python mapping), a field of
`a.copy().update(b)` is the field of `b` if `b` has it, else the field of `a`. -/
theorem lookup_update (k : String) (a b : Obj) (hb : (keys b).Nodup) :
    lookup k (update a b) = (lookup k b <|> lookup k a) := by
  rw [lookup_update_reverse, lookup_reverse_of_nodup k b hb]

/-- Without distinct keys the statement fails: the last duplicate wins in `update`, the first in
`lookup`. -/
theorem lookup_update_counterexample :
    ∃ (k : String) (a b : Obj), lookup k (update a b) ≠ (lookup k b <|> lookup k a) :=
  ⟨"x", [], [("x", .null), ("x", .bool true)], by
    simp [update, Obj.set, lookup_cons, lookup_nil]⟩

/-- **C02 (2)** Precedence: explicit epoch field > deme-level `defaults.epoch` > top-level
`defaults.epoch`. -/
theorem epoch_default_precedence (k : String) (e demeLevel topLevel : Obj)
    (hl : (keys demeLevel).Nodup) :
    lookup k (insertDefaults e (update topLevel demeLevel)) = effective e demeLevel topLevel k := by
  rw [lookup_insertDefaults, lookup_update k _ _ hl]; rfl

theorem epoch_default_precedenceNN (k : String) (e demeLevel topLevel : Obj)
    (hl : (keys demeLevel).Nodup) :
    lookupNN k (insertDefaults e (update topLevel demeLevel))
      = effectiveNN e demeLevel topLevel k := by
  simp only [lookupNN, effectiveNN, notNull, epoch_default_precedence k e demeLevel topLevel hl]
  rfl

/-! ### `erase` -/

theorem lookup_erase (k k' : String) (d : Obj) :
    lookup k (erase k' d) = if k' = k then none else lookup k d := by
  induction d with
  | nil => simp [erase, lookup_nil]
  | cons kv d ih =>
    obtain ⟨k'', v⟩ := kv
    simp only [erase, List.filter_cons] at ih ⊢
    by_cases h1 : k'' = k'
    · subst h1
      simp only [ne_eq, not_true_eq_false, decide_false, Bool.false_eq_true, if_false, ih,
        lookup_cons]
      by_cases h2 : k'' = k <;> simp [h2]
    · simp only [ne_eq, h1, not_false_eq_true, decide_true, if_true, lookup_cons, ih]
      by_cases h2 : k'' = k
      · subst h2; simp [Ne.symm h1]
      · simp [h2]

/-! ### `checkAllowed` -/

theorem checkAllowed_nil (a : List String) : checkAllowed [] a = .ok () := rfl

theorem checkAllowed_cons (kv : String × Value) (d : Obj) (a : List String) :
    checkAllowed (kv :: d) a =
      if a.contains kv.1 = true then checkAllowed d a
      else keyErr s!"unexpected field: '{kv.1}'" := by
  unfold checkAllowed
  show ((if a.contains kv.1 = true then pure ()
      else keyErr s!"unexpected field: '{kv.1}'") >>= fun _ => List.forM d _) = _
  split <;> rfl

theorem checkAllowed_ok_iff (d : Obj) (a : List String) :
    checkAllowed d a = .ok () ↔ ∀ k ∈ keys d, k ∈ a := by
  induction d with
  | nil => simp [checkAllowed_nil, keys]
  | cons kv d ih =>
    rw [checkAllowed_cons]
    simp only [keys, List.map_cons, List.mem_cons, forall_eq_or_imp] at ih ⊢
    by_cases h : a.contains kv.1 = true
    · simp only [h, if_true, ih]
      exact ⟨fun h2 => ⟨List.contains_iff_mem.1 h, h2⟩, fun h2 => h2.2⟩
    · simp only [h]
      constructor
      · intro h2; cases h2
      · intro h2; exact (h (List.contains_iff_mem.2 h2.1)).elim

theorem checkAllowed_erase {k : String} {a : List String} (hk : k ∈ a) (d : Obj) :
    checkAllowed (erase k d) a = checkAllowed d a := by
  induction d with
  | nil => rfl
  | cons kv d ih =>
    simp only [erase, List.filter_cons] at ih ⊢
    by_cases h : kv.1 = k
    · have : a.contains kv.1 = true := List.contains_iff_mem.2 (h ▸ hk)
      simp only [h, ne_eq, not_true_eq_false, decide_false, Bool.false_eq_true, if_false, ih]
      rw [checkAllowed_cons, h, List.contains_iff_mem.2 hk, if_pos rfl]
    · simp only [ne_eq, h, not_false_eq_true, decide_true, if_true]
      rw [checkAllowed_cons, checkAllowed_cons, ih]

theorem keys_set (k : String) (v : Value) (d : Obj) :
    keys (Obj.set k v d) = if k ∈ keys d then keys d else keys d ++ [k] := by
  induction d with
  | nil => simp [Obj.set, keys]
  | cons kv d ih =>
    obtain ⟨k', v'⟩ := kv
    simp only [keys, List.map_cons, List.mem_cons] at ih ⊢
    by_cases h : k' = k
    · subst h
      simp [Obj.set]
    · have h' : ¬ k = k' := fun e => h e.symm
      simp only [Obj.set, h, if_false, List.map_cons, ih, h', false_or]
      split <;> simp [*]

theorem keys_set_nodup {k : String} {v : Value} {d : Obj} (h : (keys d).Nodup) :
    (keys (Obj.set k v d)).Nodup := by
  rw [keys_set]
  split
  · exact h
  · rename_i hk
    rw [List.nodup_append]
    refine ⟨h, by simp, ?_⟩
    intro a ha b hb
    rw [List.mem_singleton] at hb
    subst hb
    intro e; subst e; exact hk ha

theorem checkAllowed_set {k : String} {v : Value} {d : Obj} {a : List String} (hk : k ∈ a)
    (h : checkAllowed d a = .ok ()) : checkAllowed (Obj.set k v d) a = .ok () := by
  rw [checkAllowed_ok_iff] at h ⊢
  intro k' hk'
  rw [keys_set] at hk'
  split at hk'
  · exact h k' hk'
  · rcases List.mem_append.1 hk' with h1 | h1
    · exact h k' h1
    · rw [List.mem_singleton] at h1; subst h1; exact hk

end Demes.Proofs
