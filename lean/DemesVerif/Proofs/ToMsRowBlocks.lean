/-
  C07 — what a pulse and a birth do to one row: the `-es` / `-ej` options of `toMs` on the ms
  side, `graphSem`'s row steps on the graph side.
-/
import DemesVerif.Proofs.ToMsRowFold
set_option linter.unusedSimpArgs false
set_option linter.unusedVariables false
namespace Demes.Proofs.ToMs
open Demes Demes.Ms Demes.Spec Demes.Spec.C07 Demes.Proofs.RV
open Demes.Spec.MsSem

/-! ### the graph side -/

def pulseRow (g : Graph) (p : Pulse) (r : Row) : Row :=
  if r.get (pidOf g p.dest) = 0 then r else
    ((p.sources.map (pidOf g)).zip p.proportions).foldl (fun (r' : Row) sp => r'.add sp.1 (r.get (pidOf g p.dest) * sp.2))
      (r.set (pidOf g p.dest) (r.get (pidOf g p.dest) * (1 - p.proportions.foldl (· + ·) 0)))

def bornRow (g : Graph) (d : Deme) (r : Row) : Row :=
  if r.get (pidOf g d.name) = 0 then r else
    ((d.ancestors.map (pidOf g)).zip d.proportions).foldl (fun (r' : Row) ap => r'.add ap.1 (r.get (pidOf g d.name) * ap.2))
      (r.set (pidOf g d.name) 0)

theorem pulseRowStep_eq (g : Graph) (L : List (Nat × Row)) (p : Pulse) :
    pulseRowStep g L p = L.map (fun ir => (ir.1, pulseRow g p ir.2)) := by
  unfold pulseRowStep pulseRow
  apply List.map_congr_left
  intro ir _
  by_cases h : ir.2.get (pidOf g p.dest) = 0 <;> simp [h]

theorem bornRowStep_eq (g : Graph) (L : List (Nat × Row)) (d : Deme) :
    bornRowStep g L d = L.map (fun ir => (ir.1, bornRow g d ir.2)) := by
  unfold bornRowStep bornRow
  apply List.map_congr_left
  intro ir _
  by_cases h : ir.2.get (pidOf g d.name) = 0 <;> simp [h]

theorem get_pulseRow (g : Graph) (p : Pulse) (r : Row) (k : Nat) :
    (pulseRow g p r).get k
      = (if k = pidOf g p.dest then r.get (pidOf g p.dest) * (1 - p.proportions.foldl (· + ·) 0) else r.get k)
        + r.get (pidOf g p.dest) * contrib g p.sources p.proportions k := by
  unfold pulseRow
  by_cases hm : r.get (pidOf g p.dest) = 0
  · rw [if_pos hm, hm]
    by_cases hk : k = pidOf g p.dest
    · subst hk; rw [if_pos rfl, hm, Arith.zero_mul', Arith.zero_mul']; grind
    · rw [if_neg hk, Arith.zero_mul']; grind
  · rw [if_neg hm, get_foldl_add, get_set]

theorem get_bornRow (g : Graph) (d : Deme) (r : Row) (k : Nat) :
    (bornRow g d r).get k
      = (if k = pidOf g d.name then 0 else r.get k) + r.get (pidOf g d.name) * contrib g d.ancestors d.proportions k := by
  unfold bornRow
  by_cases hm : r.get (pidOf g d.name) = 0
  · rw [if_pos hm, hm]
    by_cases hk : k = pidOf g d.name
    · subst hk; rw [if_pos rfl, hm, Arith.zero_mul']; grind
    · rw [if_neg hk, Arith.zero_mul']; grind
  · rw [if_neg hm, get_foldl_add, get_set]

theorem keys_pulseRow (g : Graph) (p : Pulse) (r : Row) (h : (Keys r).Nodup) : (Keys (pulseRow g p r)).Nodup := by
  unfold pulseRow
  split
  · exact h
  · exact keys_foldl_add g _ _ _ (keys_set _ _ _ h)

theorem keys_bornRow (g : Graph) (d : Deme) (r : Row) (h : (Keys r).Nodup) : (Keys (bornRow g d r)).Nodup := by
  unfold bornRow
  split
  · exact h
  · exact keys_foldl_add g _ _ _ (keys_set _ _ _ h)

/-! ### the ms side: a pulse -/

/-- rows vanish beyond the `n0` graph populations -/
def RowZ (n0 : Nat) (r : Row) : Prop := ∀ k, n0 < k → r.get k = 0

theorem toNat_idOf (g : Graph) (name : String) : (idOf g name).toNat = pidOf g name := by
  rw [idOf_eq_pidOf]; simp

theorem rowFold_pulse {g : Graph} {n0 : Nat} {p : Pulse} {s : String} {q0 : Q} (hs : p.sources = [s])
    (hq : p.proportions.headD 0 = q0) {n : Nat} (hn : n0 ≤ n)
    (hD : pidOf g p.dest ≤ n0) (hS : pidOf g s ≤ n0) (hDS : pidOf g p.dest ≠ pidOf g s) (r : Row) (k : Nat) :
    (rowFold n r (pulseEvs g p n)).get k
      = if k = pidOf g s then r.get (pidOf g s) + r.get (pidOf g p.dest) * q0
        else if k = n + 1 then 0
        else if k = pidOf g p.dest then r.get (pidOf g p.dest) * (1 - q0)
        else r.get k := by
  have hN1 : n + 1 ≠ pidOf g p.dest := by omega
  have hN2 : n + 1 ≠ pidOf g s := by omega
  simp only [pulseEvs, rowFold, rowStep, countStep, toNat_idOf, hs, List.headD_cons, hq]
  have hcast : (((n + 1 : Nat) : Int)).toNat = n + 1 := by simp
  rw [hcast, get_add]
  by_cases hkS : k = pidOf g s
  · subst hkS
    rw [if_pos rfl, if_pos rfl, get_set, if_neg (fun h => hN2 h.symm), get_set, if_neg (fun h => hN2 h.symm), get_set,
      if_neg (fun h => hDS h.symm), get_set, if_pos rfl, Arith.one_sub_one_sub]
  · rw [if_neg hkS, if_neg hkS, get_set]
    by_cases hkN : k = n + 1
    · rw [if_pos hkN, if_pos hkN]
    · rw [if_neg hkN, if_neg hkN, get_set, if_neg hkN, get_set]

/-! ### the ms side: a birth (the telescoping of `p_k / sum(p[k:])`) -/

theorem foldl_add_shift : ∀ (l : List Q) (a : Q), l.foldl (· + ·) a = a + l.foldl (· + ·) 0
  | [], a => by simp
  | x :: l, a => by
    simp only [List.foldl_cons]
    rw [foldl_add_shift l (a + x), foldl_add_shift l (0 + x)]
    grind

theorem sumFrom_succ {ps : List Q} {k : Nat} (hk : k < ps.length) : sumFrom ps k = ps[k] + sumFrom ps (k + 1) := by
  unfold sumFrom
  rw [List.drop_eq_getElem_cons hk, List.foldl_cons, foldl_add_shift]
  grind

theorem sumFrom_pos {ps : List Q} (hp : ∀ x ∈ ps, 0 < x) {k : Nat} (hk : k < ps.length) : 0 < sumFrom ps k := by
  have := sumFrom_ge hp (List.getElem?_eq_getElem hk)
  have := hp _ (List.getElem_mem hk)
  grind

theorem rowFold_ancDeme {g : Graph} {d : Deme} {n0 : Nat} (hM : pidOf g d.name ≤ n0)
    (hlenp : d.proportions.length = d.ancestors.length) (hpos : ∀ p ∈ d.proportions, 0 < p) :
    ∀ (l : List String) (k0 n : Nat) (r : Row),
      l ≠ [] → k0 + l.length = d.ancestors.length → n0 ≤ n → RowZ n0 r →
      (∀ a ∈ l, pidOf g a ≤ n0 ∧ pidOf g a ≠ pidOf g d.name) →
      ∀ k, (rowFold n r (ancDemeEvs g d n (l.zipIdx k0))).get k
        = if k = pidOf g d.name then 0 else if n0 < k then 0
          else r.get k + r.get (pidOf g d.name) * contrib g l (d.proportions.drop k0) k / sumFrom d.proportions k0
  | [], _, _, _, h, _, _, _, _ => absurd rfl h
  | [a], k0, n, r, _, hlen, hn, hz, ha => by
    intro k
    obtain ⟨hA, hAM⟩ := ha a List.mem_cons_self
    have hk0 : k0 = d.ancestors.length - 1 := by simp at hlen; omega
    have hk0p : k0 < d.proportions.length := by rw [hlenp]; simp at hlen; omega
    have hdrop : d.proportions.drop k0 = [d.proportions[k0]] := by
      rw [List.drop_eq_getElem_cons hk0p]
      have : d.proportions.drop (k0 + 1) = [] := by apply List.drop_eq_nil_of_le; omega
      rw [this]
    have hsum : sumFrom d.proportions k0 = d.proportions[k0] :=
      sumFrom_last (List.getElem?_eq_getElem hk0p) (by rw [hlenp]; exact hk0)
    have hp0 : d.proportions[k0] ≠ 0 := by have := hpos _ (List.getElem_mem hk0p); grind
    simp only [List.zipIdx_cons, List.zipIdx_nil, ancDemeEvs, if_pos hk0, rowFold, rowStep, toNat_idOf]
    rw [get_add, hdrop, hsum]
    simp only [contrib]
    by_cases hkM : k = pidOf g d.name
    · subst hkM
      rw [if_pos rfl, if_neg (fun h => hAM h.symm), get_set, if_pos rfl]
    · rw [if_neg hkM]
      by_cases hkA : k = pidOf g a
      · subst hkA
        have : ¬ n0 < pidOf g a := by omega
        rw [if_pos rfl, if_neg this, if_pos rfl, get_set, if_neg hAM]
        exact Arith.last1 _ _ _ hp0
      · have hkA' : ¬ pidOf g a = k := fun h => hkA h.symm
        rw [if_neg hkA, get_set, if_neg hkM, if_neg hkA']
        by_cases hkn : n0 < k
        · rw [if_pos hkn]; exact hz k hkn
        · rw [if_neg hkn]; exact Arith.last0 _ _ _
  | a :: b :: l', k0, n, r, _, hlen, hn, hz, ha => by
    intro k
    obtain ⟨hA, hAM⟩ := ha a List.mem_cons_self
    have hk0 : ¬ k0 = d.ancestors.length - 1 := by simp at hlen; omega
    have hk0p : k0 < d.proportions.length := by rw [hlenp]; simp at hlen; omega
    have hk1p : k0 + 1 < d.proportions.length := by rw [hlenp]; simp at hlen; omega
    have hdrop : d.proportions.drop k0 = d.proportions[k0] :: d.proportions.drop (k0 + 1) :=
      List.drop_eq_getElem_cons hk0p
    have hsum := sumFrom_succ hk0p
    have hS : sumFrom d.proportions k0 ≠ 0 := by have := sumFrom_pos hpos hk0p; grind
    have hS' : sumFrom d.proportions (k0 + 1) ≠ 0 := by have := sumFrom_pos hpos hk1p; grind
    have hgetD : d.proportions.getD k0 0 = d.proportions[k0] := by
      simp [List.getD, List.getElem?_eq_getElem hk0p]
    have hN1 : n + 1 ≠ pidOf g d.name := by omega
    have hN2 : n + 1 ≠ pidOf g a := by omega
    have hcast : (((n + 1 : Nat) : Int)).toNat = n + 1 := by simp
    -- the row after the split and the join of the first ancestor
    obtain ⟨r2, hr2⟩ : ∃ r2, r2 = rowStep (n + 1) (rowStep n r (.split "" (Num.ofETime d.startTime) (idOf g d.name) (.fin (1 - tailProp d k0))))
        (.join "" (Num.ofETime d.startTime) ((n + 1 : Nat) : Int) (idOf g a)) := ⟨_, rfl⟩
    have hg2 : ∀ k', r2.get k' = if k' = pidOf g a then r.get (pidOf g a) + r.get (pidOf g d.name) * (1 - (1 - tailProp d k0))
        else if k' = n + 1 then 0
        else if k' = pidOf g d.name then r.get (pidOf g d.name) * (1 - tailProp d k0) else r.get k' := by
      intro k'
      rw [hr2]
      simp only [rowStep, toNat_idOf, hcast]
      rw [get_add]
      by_cases h1 : k' = pidOf g a
      · subst h1
        rw [if_pos rfl, if_pos rfl, get_set, if_neg (fun h => hN2 h.symm), get_set, if_neg (fun h => hN2 h.symm), get_set,
          if_neg hAM, get_set, if_pos rfl]
      · rw [if_neg h1, if_neg h1, get_set]
        by_cases h2 : k' = n + 1
        · rw [if_pos h2, if_pos h2]
        · rw [if_neg h2, if_neg h2, get_set, if_neg h2, get_set]
    have hz2 : RowZ n0 r2 := by
      intro k' hk'
      rw [hg2]
      have h1 : ¬ k' = pidOf g a := by omega
      have h3 : ¬ k' = pidOf g d.name := by omega
      rw [if_neg h1, if_neg h3]
      by_cases h2 : k' = n + 1
      · rw [if_pos h2]
      · rw [if_neg h2]; exact hz k' hk'
    have ih := rowFold_ancDeme hM hlenp hpos (b :: l') (k0 + 1) (n + 1) r2 (by simp)
      (by simp at hlen ⊢; omega) (by omega) hz2 (fun x hx => ha x (List.mem_cons_of_mem _ hx)) k
    have hfold : rowFold n r (ancDemeEvs g d n ((a :: b :: l').zipIdx k0))
        = rowFold (n + 1) r2 (ancDemeEvs g d (n + 1) ((b :: l').zipIdx (k0 + 1))) := by
      rw [hr2]
      simp only [List.zipIdx_cons, ancDemeEvs, hk0, if_false, rowFold, countStep]
    rw [hfold, ih]
    by_cases hkM : k = pidOf g d.name
    · rw [if_pos hkM, if_pos hkM]
    · rw [if_neg hkM, if_neg hkM]
      by_cases hkn : n0 < k
      · rw [if_pos hkn, if_pos hkn]
      · rw [if_neg hkn, if_neg hkn, hdrop]
        simp only [contrib]
        have hkN : ¬ k = n + 1 := by omega
        have hMa : ¬ pidOf g d.name = pidOf g a := fun h => hAM h.symm
        have e1 : r2.get (pidOf g d.name) = r.get (pidOf g d.name) * (1 - tailProp d k0) := by
          rw [hg2, if_neg hMa, if_neg (fun h => hN1 h.symm), if_pos rfl]
        rw [e1]
        by_cases hkA : k = pidOf g a
        · subst hkA
          have e3 : r2.get (pidOf g a) = r.get (pidOf g a) + r.get (pidOf g d.name) * (1 - (1 - tailProp d k0)) := by
            rw [hg2, if_pos rfl]
          rw [e3, if_pos rfl]
          unfold tailProp
          rw [hgetD]
          exact Arith.step_hit _ _ _ _ _ _ hS hS' hsum
        · have hkA' : ¬ pidOf g a = k := fun h => hkA h.symm
          have e2 : r2.get k = r.get k := by rw [hg2, if_neg hkA, if_neg hkN, if_neg hkM]
          rw [e2, if_neg hkA']
          unfold tailProp
          rw [hgetD]
          exact Arith.step_miss _ _ _ _ _ _ hS hS' hsum

end Demes.Proofs.ToMs
