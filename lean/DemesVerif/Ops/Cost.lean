/-
  Driver op for C20: the tick counts (Model/Cost.lean) of each public operation on a graph.
    {"op": "cost", "graph": <asdict>, "simplify": true|false}
  `simplify: false` skips the (possibly exponential, F9) symmetric-group search.
-/
import DemesVerif.Ops.Core
import DemesVerif.Model.Cost
namespace Demes.Ops.Cost
open Lean Demes Demes.Wire Demes.Ops.Core

def natJ (n : Nat) : Json := .num n

def dispatch? (op : String) (j : Json) : Option Json :=
  if op = "cost" then some <|
    withGraph j "graph" (fun g =>
      let simp := match j.getObjValAs? Bool "simplify" with | .ok b => b | _ => true
      okJ (Json.mkObj (
        [("matrices", natJ (Demes.Cost.costMatrices g)),
         ("resolve", natJ (Demes.Cost.costResolve g)),
         ("asdict", natJ (Demes.Cost.costAsdict g)),
         ("in_generations", natJ (Demes.Cost.costInGenerations g))]
        ++ (if simp then
              [("simplify", natJ (Demes.Cost.costSimplify g)),
               ("search", natJ (Demes.Cost.costSearch g))]
            else []))))
  else none

end Demes.Ops.Cost
