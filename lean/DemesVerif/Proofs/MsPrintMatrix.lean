/-
  Proofs for C09, part 4 — print → parse for `-ema t npop M11 … Mnn` (with `x` on the
  diagonal): the matrix `M` of the parsed record is entrywise `numClose` to the original.
-/
import DemesVerif.Proofs.MsPrintParse
namespace Demes.Proofs.MsPrint
open Demes Demes.Ms Demes.Spec.C09


theorem pyFloat_close (c : NumCodec) (x : Num) (hx : c.ok x) :
    ∃ y, pyFloat (c.str x) = some y ∧ numClose x y := by
  cases hlt : Num.lt x Num.zero
  · exact ⟨x, c.nonneg_parse x hx.1 hlt, numClose_self x hlt⟩
  · rcases lt_zero_cases x hlt with h | ⟨q, hq, hq0⟩
    · exact absurd h hx.2
    · subst hq
      obtain ⟨b, hb, hb0, hbd⟩ := c.neg_parse q hx.1 hq0
      refine ⟨.fin b, hb, ⟨?_, ?_⟩⟩
      · intro h; rw [hlt] at h; cases h
      · intro a ha _
        cases ha
        exact ⟨b, rfl, hb0, hbd⟩

/-! ### an `n × n` grid laid out row by row -/

theorem grid_length {α β} (l : List α) (n : Nat) (f : α → Nat → β) :
    (l.flatMap (fun a => (List.range n).map (f a))).length = l.length * n := by
  induction l with
  | nil => simp
  | cons a t ih => simp [List.flatMap_cons, ih, Nat.add_mul, Nat.add_comm]

theorem grid_getElem? {α β} (l : List α) (n : Nat) (f : α → Nat → β) (j k : Nat) (hk : k < n) :
    (l.flatMap (fun a => (List.range n).map (f a)))[j * n + k]? = l[j]?.map (fun a => f a k) := by
  induction l generalizing j with
  | nil => simp
  | cons a t ih =>
    rw [List.flatMap_cons]
    cases j with
    | zero =>
      rw [List.getElem?_append_left (by simp; exact hk)]
      simp [hk]
    | succ j' =>
      rw [List.getElem?_append_right (by simp [Nat.add_mul]; omega)]
      have : (j' + 1) * n + k - ((List.range n).map (f a)).length = j' * n + k := by
        simp [Nat.add_mul]; omega
      rw [this, ih]
      simp

theorem grid_range_getD {β} (n : Nat) (f : Nat → Nat → β) (j k : Nat) (hj : j < n) (hk : k < n) (d : β) :
    ((List.range n).flatMap (fun a => (List.range n).map (f a))).getD (j * n + k) d = f j k := by
  rw [List.getD_eq_getElem?_getD, grid_getElem? _ _ _ _ _ hk]
  simp [hj]

theorem matrix_entry {β} (n : Nat) (f : Nat → Nat → β) (j k : Nat) (hj : j < n) (hk : k < n) (d : β) :
    ((((List.range n).map (fun j => (List.range n).map (f j))).getD j [])).getD k d = f j k := by
  simp [List.getD_eq_getElem?_getD, hj, hk]


/-! ### `-ema t npop M11 … Mnn` -/

def matFn (n : Nat) (mm : List String) (j k : Nat) : Num :=
  if j = k then Num.fin 0 else (pyFloat (mm.getD (j * n + k) "")).getD .nan

theorem matrixOf_eq (npop : Int) (mm : List String) (m : List (List Num)) (h : matrixOf npop mm = .ok m) :
    mm.length = npop.toNat * npop.toNat ∧
    m = (List.range npop.toNat).map (fun j => (List.range npop.toNat).map (matFn npop.toNat mm j)) := by
  unfold matrixOf at h
  simp only at h
  split at h
  · cases h
  · next hlen =>
    refine ⟨by simpa using hlen, ?_⟩
    cases h
    rfl

theorem matrixOf_ok (npop : Int) (mm : List String) (hlen : mm.length = npop.toNat * npop.toNat) :
    matrixOf npop mm = .ok ((List.range npop.toNat).map (fun j => (List.range npop.toNat).map (matFn npop.toNat mm j))) := by
  unfold matrixOf
  simp only
  rw [if_neg (by simpa using hlen)]
  rfl

/-- the token printed at row `j`, column `k` -/
def entryTok (m : List (List Num)) (j k : Nat) : Tok Num :=
  if j = k then Tok.raw "x" else Tok.num ((m.getD j []).getD k .nan)

theorem print_ema (o : String) (t : Num) (npop : Int) (mm : List String) (toks : List (Tok Num))
    (hp : numPos t = true) (h : (Event.migMatrixChange o t npop mm).print = .ok toks) :
    ∃ m, matrixOf npop mm = .ok m ∧
      toks = .flag "-ema" :: .num t :: .int npop ::
        (List.range npop.toNat).flatMap (fun j => (List.range npop.toNat).map (entryTok m j)) := by
  simp only [Event.print, bind, Except.bind] at h
  split at h
  · cases h
  · next m hm =>
    refine ⟨m, hm, ?_⟩
    simp only [pure, Except.pure, hp, if_true, Except.ok.injEq] at h
    rw [← h]
    rfl

theorem map_flatMap_grid {β γ} (g : β → γ) (l : List Nat) (n : Nat) (f : Nat → Nat → β) :
    (l.flatMap (fun a => (List.range n).map (f a))).map g = l.flatMap (fun a => (List.range n).map (fun k => g (f a k))) := by
  induction l with
  | nil => rfl
  | cons a t ih => simp [List.flatMap_cons, ih]

theorem mem_grid {β} (l : List Nat) (n : Nat) (f : Nat → Nat → β) (x : β)
    (h : x ∈ l.flatMap (fun a => (List.range n).map (f a))) : ∃ j k, j ∈ l ∧ k < n ∧ x = f j k := by
  rw [List.mem_flatMap] at h
  obtain ⟨j, hj, hx⟩ := h
  rw [List.mem_map] at hx
  obtain ⟨k, hk, hxk⟩ := hx
  exact ⟨j, k, hj, List.mem_range.1 hk, hxk.symm⟩

theorem pp_ema (c : NumCodec) (o : String) (t : Num) (npop : Int) (mm : List String)
    (e : Event Num) (he : e = .migMatrixChange o t npop mm) (hv : validEvent e) (hc : codecEvent c e)
    (hp : numPos t = true) (toks : List (Tok Num)) (hprint : e.print = .ok toks) :
    ∃ mm', parseKnownArgs (render c toks) = .ok (Args.single .demographicEvents (.migMatrixChange "-ema" t npop mm')) ∧
      ∃ m m', matrixOf npop mm = .ok m ∧ matrixOf npop mm' = .ok m' ∧ matClose npop.toNat m m' := by
  subst he
  obtain ⟨hvt, hn0⟩ := hv
  obtain ⟨hct, hnan, hcm⟩ := hc
  obtain ⟨m, hm, htoks⟩ := print_ema o t npop mm toks hp hprint
  obtain ⟨hlen, hmeq⟩ := matrixOf_eq npop mm m hm
  have hcm' := hcm m hm
  generalize hn : npop.toNat = n at *
  have ht := cFloat_exact c t hct (vNonNeg_lt t hvt)
  -- every entry of `m` is a number the codec prints
  have hentry : ∀ j k, j < n → k < n → c.ok ((m.getD j []).getD k .nan) := by
    intro j k hj hk
    apply hcm' ((List.range n).map (matFn n mm j))
    · rw [hmeq]; exact List.mem_map.2 ⟨j, List.mem_range.2 hj, rfl⟩
    · rw [hmeq, matrix_entry n _ j k hj hk]
      exact List.mem_map.2 ⟨k, List.mem_range.2 hk, rfl⟩
  let mm' : List String := (List.range n).flatMap (fun j => (List.range n).map (fun k => renderTok c (entryTok m j k)))
  have hrender : render c toks = "-ema" :: c.str t :: toString npop :: mm' := by
    rw [htoks]
    simp only [render, List.map_cons, renderTok, map_flatMap_grid]
    rfl
  have hargs : ∀ s ∈ mm', classify s = .ok .arg := by
    intro s hs
    obtain ⟨j, k, hj, hk, hsjk⟩ := mem_grid _ _ _ _ hs
    rw [hsjk]
    unfold entryTok
    by_cases hjk : j = k
    · rw [if_pos hjk]; exact classify_x
    · rw [if_neg hjk]; exact classify_num c _ (hentry j k (List.mem_range.1 hj) hk)
  refine ⟨mm', ?_, m, _, hm, matrixOf_ok npop mm' (by rw [hn]; exact (grid_length _ _ _).trans (by simp)), ?_⟩
  · rw [hrender]
    apply parse_single "-ema" _ .plus _ rfl rfl (by simp)
    · intro s hs
      rcases List.mem_cons.1 hs with h | h
      · rw [h]; exact classify_num c t hct
      · rcases List.mem_cons.1 h with h | h
        · rw [h]; exact classify_toString_int _
        · exact hargs s h
    · exact act_ema _ _ t npop mm' ht (cInt_toString _) hvt hn0
  · intro j k hj hk
    rw [hn, matrix_entry n _ j k hj hk, hmeq, matrix_entry n _ j k hj hk]
    unfold matFn
    by_cases hjk : j = k
    · rw [if_pos hjk, if_pos hjk]
      exact numClose_self _ rfl
    · rw [if_neg hjk, if_neg hjk]
      have hmm' : mm'.getD (j * n + k) "" = c.str ((m.getD j []).getD k .nan) := by
        show ((List.range n).flatMap _).getD _ _ = _
        rw [grid_range_getD n _ j k hj hk]
        unfold entryTok
        rw [if_neg hjk]
        rfl
      rw [hmm']
      obtain ⟨y, hy, hcl⟩ := pyFloat_close c _ (hentry j k hj hk)
      rw [hy]
      have : (m.getD j []).getD k .nan = (pyFloat (mm.getD (j * n + k) "")).getD .nan := by
        rw [hmeq, matrix_entry n _ j k hj hk]
        unfold matFn
        rw [if_neg hjk]
      rw [← this]
      exact hcl


/-! ### `-ma`: what the parser makes of the printed form (F20) -/


theorem print_ma (o : String) (t : Num) (npop : Int) (mm : List String) (toks : List (Tok Num))
    (hp : numPos t = false) (h : (Event.migMatrixChange o t npop mm).print = .ok toks) :
    ∃ m, matrixOf npop mm = .ok m ∧
      toks = .flag "-ma" :: .int npop ::
        (List.range npop.toNat).flatMap (fun j => (List.range npop.toNat).map (entryTok m j)) := by
  simp only [Event.print, bind, Except.bind] at h
  split at h
  · cases h
  · next m hm =>
    refine ⟨m, hm, ?_⟩
    simp only [pure, Except.pure, hp, Bool.false_eq_true, if_false, Except.ok.injEq] at h
    rw [← h]
    rfl

/-- the strings of the printed matrix entries, and that all of them are arguments -/
theorem printed_entries_args (c : NumCodec) (npop : Int) (mm : List String) (m : List (List Num))
    (hm : matrixOf npop mm = .ok m) (hcm : ∀ row ∈ m, ∀ x ∈ row, c.ok x) :
    ∀ s ∈ (List.range npop.toNat).flatMap (fun j => (List.range npop.toNat).map (fun k => renderTok c (entryTok m j k))),
      classify s = .ok .arg := by
  obtain ⟨hlen, hmeq⟩ := matrixOf_eq npop mm m hm
  generalize npop.toNat = n at *
  have hentry : ∀ j k, j < n → k < n → c.ok ((m.getD j []).getD k .nan) := by
    intro j k hj hk
    apply hcm ((List.range n).map (matFn n mm j))
    · rw [hmeq]; exact List.mem_map.2 ⟨j, List.mem_range.2 hj, rfl⟩
    · rw [hmeq, matrix_entry n _ j k hj hk]
      exact List.mem_map.2 ⟨k, List.mem_range.2 hk, rfl⟩
  intro s hs
  obtain ⟨j, k, hj, hk, hsjk⟩ := mem_grid _ _ _ _ hs
  rw [hsjk]
  unfold entryTok
  by_cases hjk : j = k
  · rw [if_pos hjk]; exact classify_x
  · rw [if_neg hjk]; exact classify_num c _ (hentry j k (List.mem_range.1 hj) hk)

/-- what the parser makes of a printed `-ma` record -/
theorem parse_printed_ma (c : NumCodec) (o : String) (t : Num) (npop : Int) (mm : List String)
    (hc : codecEvent c (.migMatrixChange o t npop mm)) (hp : numPos t = false)
    (toks : List (Tok Num)) (hprint : (Event.migMatrixChange o t npop mm).print = .ok toks) :
    ∃ mm' : List String, mm'.length = npop.toNat * npop.toNat ∧
      parseKnownArgs (render c toks) =
        .ok { initialState := [.migMatrixChange "-ma" (.fin 0) 1 (toString npop :: mm')] } := by
  obtain ⟨hct, hnan, hcm⟩ := hc
  obtain ⟨m, hm, htoks⟩ := print_ma o t npop mm toks hp hprint
  have hargs := printed_entries_args c npop mm m hm (hcm m hm)
  refine ⟨(List.range npop.toNat).flatMap (fun j => (List.range npop.toNat).map (fun k => renderTok c (entryTok m j k))),
    (grid_length _ _ _).trans (by simp), ?_⟩
  have hrender : render c toks = "-ma" :: toString npop ::
      (List.range npop.toNat).flatMap (fun j => (List.range npop.toNat).map (fun k => renderTok c (entryTok m j k))) := by
    rw [htoks]
    simp only [render, List.map_cons, renderTok, map_flatMap_grid]
  rw [hrender]
  apply parse_single "-ma" _ .plus _ rfl rfl (by simp)
  · intro s hs
    rcases List.mem_cons.1 hs with h | h
    · rw [h]; exact classify_toString_int _
    · exact hargs s h
  · exact act_ma _

/-- **F20 in general**: no `MigrationMatrixChange` with `t = 0` parses back from its printed
form, whatever its size and entries. -/
theorem print_parse_ma_never (c : NumCodec) (o : String) (t : Num) (npop : Int) (mm : List String)
    (hc : codecEvent c (.migMatrixChange o t npop mm)) (hp : numPos t = false)
    (toks : List (Tok Num)) (hprint : (Event.migMatrixChange o t npop mm).print = .ok toks) :
    ¬ ∃ e', parseKnownArgs (render c toks) = .ok (Args.single .initialState e')
          ∧ sameOption "-ma" (.migMatrixChange o t npop mm) e' := by
  obtain ⟨mm', hlen, hparse⟩ := parse_printed_ma c o t npop mm hc hp toks hprint
  rintro ⟨e', hp', hsame⟩
  rw [hparse] at hp'
  have h1 : Args.single .initialState e' = { initialState := [.migMatrixChange "-ma" (.fin 0) 1 (toString npop :: mm')] } := by
    cases hp'; rfl
  simp only [Args.single] at h1
  injection h1 with _ h2 _ _
  injection h2 with h3 _
  subst h3
  simp only [sameOption] at hsame
  obtain ⟨_, _, hn, m, m', _, hm', _⟩ := hsame
  subst hn
  have := (matrixOf_eq 1 _ m' hm').1
  simp only [List.length_cons, hlen] at this
  revert this
  decide


end Demes.Proofs.MsPrint
