/-
  C08 — the migration step function of a graph (`graphSemWith`, `migs`) and the one of the ms
  interpreter (`migSegs`) are the same list when they describe the same rate function.

  Both sides produce, per ordered pair (dest, source), a *canonical* list of segments: sorted,
  pairwise disjoint, positive length, non-zero rate, and touching segments differ in rate.  A
  canonical list is determined by the rate function it denotes (`canon_unique`).
-/
import DemesVerif.Spec.C08
import DemesVerif.Proofs.FromMsSpecStep
namespace Demes.Proofs.FromMs
open Demes Demes.Spec.MsSem Demes.Spec.C08

/-! ## `ETime` order facts -/

namespace ET

theorem fin_le_fin {a b : Q} : (ETime.fin a ≤ ETime.fin b) ↔ a ≤ b := Iff.rfl
theorem fin_lt_fin {a b : Q} : (ETime.fin a < ETime.fin b) ↔ a < b := Iff.rfl
theorem le_inf_iff (x : ETime) : (x ≤ ETime.inf) ↔ True := by cases x <;> exact Iff.rfl
theorem fin_lt_inf_iff (a : Q) : (ETime.fin a < ETime.inf) ↔ True := Iff.rfl
theorem inf_le_fin_iff (a : Q) : (ETime.inf ≤ ETime.fin a) ↔ False := Iff.rfl
theorem inf_lt_iff (x : ETime) : (ETime.inf < x) ↔ False := by cases x <;> exact Iff.rfl

/-- case-split free normalisation of `ETime` comparisons between constructors -/
macro "et_norm" : tactic =>
  `(tactic| simp only [fin_le_fin, fin_lt_fin, le_inf_iff, fin_lt_inf_iff, inf_le_fin_iff, inf_lt_iff,
      ETime.fin.injEq, reduceCtorEq, imp_false, false_imp_iff, true_imp_iff, not_false_eq_true,
      not_true_eq_false, and_true, true_and, and_false, false_and] at *)

theorem le_trans {a b c : ETime} (h1 : a ≤ b) (h2 : b ≤ c) : a ≤ c := by
  cases a <;> cases b <;> cases c <;> et_norm <;> grind

theorem lt_of_le_of_lt {a b c : ETime} (h1 : a ≤ b) (h2 : b < c) : a < c := by
  cases a <;> cases b <;> cases c <;> et_norm <;> grind

theorem lt_of_lt_of_le {a b c : ETime} (h1 : a < b) (h2 : b ≤ c) : a < c := by
  cases a <;> cases b <;> cases c <;> et_norm <;> grind

theorem lt_trans {a b c : ETime} (h1 : a < b) (h2 : b < c) : a < c := by
  cases a <;> cases b <;> cases c <;> et_norm <;> grind

theorem le_of_lt {a b : ETime} (h : a < b) : a ≤ b := by
  cases a <;> cases b <;> et_norm <;> grind

theorem lt_irrefl (a : ETime) : ¬ a < a := by
  cases a <;> et_norm <;> grind

theorem not_lt_of_le {a b : ETime} (h : a ≤ b) : ¬ b < a := by
  cases a <;> cases b <;> et_norm <;> grind

theorem ne_of_lt {a b : ETime} (h : a < b) : a ≠ b := by
  intro e; subst e; exact lt_irrefl _ h

theorem le_of_eq {a b : ETime} (h : a = b) : a ≤ b := by
  subst h; cases a <;> et_norm <;> grind

theorem lt_trichotomy (a b : ETime) : a < b ∨ a = b ∨ b < a := by
  cases a <;> cases b <;> et_norm <;> grind

theorem lt_or_le (a b : ETime) : a < b ∨ b ≤ a := by
  cases a <;> cases b <;> et_norm <;> grind

end ET

/-! ## rate functions of segment lists; canonical lists -/

/-- the segment list `L` gives rate `r` at time `t` -/
def HasRate (L : List MigSeg) (t r : Q) : Prop :=
  ∃ s ∈ L, s.t0 ≤ t ∧ ETime.fin t < s.t1 ∧ s.rate = r

structure Good (d s : Nat) (a : MigSeg) : Prop where
  dest : a.dest = d
  source : a.source = s
  pos : ETime.fin a.t0 < a.t1
  rate : a.rate ≠ 0

/-- canonical: segments of the pair `(d, s)`, positive length, non-zero rate, in time order
without overlap, and touching segments differ in rate -/
structure Canon (d s : Nat) (L : List MigSeg) : Prop where
  good : ∀ a ∈ L, Good d s a
  ord : L.Pairwise (fun a b => a.t1 ≤ ETime.fin b.t0 ∧ (a.t1 = ETime.fin b.t0 → a.rate ≠ b.rate))

theorem hasRate_nil {t r : Q} : ¬ HasRate [] t r := by
  rintro ⟨s, hs, _⟩; cases hs

theorem hasRate_cons {a : MigSeg} {L : List MigSeg} {t r : Q} :
    HasRate (a :: L) t r ↔ (a.t0 ≤ t ∧ ETime.fin t < a.t1 ∧ a.rate = r) ∨ HasRate L t r := by
  constructor
  · rintro ⟨s, hs, h⟩
    rcases List.mem_cons.1 hs with rfl | hs
    · exact Or.inl h
    · exact Or.inr ⟨s, hs, h⟩
  · rintro (h | ⟨s, hs, h⟩)
    · exact ⟨a, List.mem_cons_self, h⟩
    · exact ⟨s, List.mem_cons_of_mem _ hs, h⟩

theorem hasRate_append {L₁ L₂ : List MigSeg} {t r : Q} :
    HasRate (L₁ ++ L₂) t r ↔ HasRate L₁ t r ∨ HasRate L₂ t r := by
  constructor
  · rintro ⟨s, hs, h⟩
    rcases List.mem_append.1 hs with hs | hs
    · exact Or.inl ⟨s, hs, h⟩
    · exact Or.inr ⟨s, hs, h⟩
  · rintro (⟨s, hs, h⟩ | ⟨s, hs, h⟩)
    · exact ⟨s, List.mem_append_left _ hs, h⟩
    · exact ⟨s, List.mem_append_right _ hs, h⟩

theorem hasRate_singleton {a : MigSeg} {t r : Q} :
    HasRate [a] t r ↔ (a.t0 ≤ t ∧ ETime.fin t < a.t1 ∧ a.rate = r) := by
  rw [hasRate_cons]; simp [hasRate_nil]

theorem canon_nil {d s : Nat} : Canon d s [] := ⟨fun _ h => (by cases h), List.Pairwise.nil⟩

theorem canon_cons {d s : Nat} {a : MigSeg} {L : List MigSeg} (h : Canon d s (a :: L)) :
    Good d s a ∧ (∀ b ∈ L, a.t1 ≤ ETime.fin b.t0 ∧ (a.t1 = ETime.fin b.t0 → a.rate ≠ b.rate)) ∧ Canon d s L := by
  have := List.pairwise_cons.1 h.ord
  exact ⟨h.good a List.mem_cons_self, this.1, ⟨fun b hb => h.good b (List.mem_cons_of_mem _ hb), this.2⟩⟩

theorem canon_head_has {d s : Nat} {a : MigSeg} {L : List MigSeg} (h : Canon d s (a :: L)) :
    HasRate (a :: L) a.t0 a.rate :=
  ⟨a, List.mem_cons_self, Rat.le_refl, (canon_cons h).1.pos, rfl⟩

theorem canon_head_min {d s : Nat} {a : MigSeg} {L : List MigSeg} (h : Canon d s (a :: L)) {t r : Q}
    (hr : HasRate (a :: L) t r) : a.t0 ≤ t := by
  obtain ⟨ga, hl, _⟩ := canon_cons h
  rcases hasRate_cons.1 hr with h1 | ⟨b, hb, h1, _⟩
  · exact h1.1
  · have h2 := ET.lt_of_lt_of_le ga.pos (hl b hb).1
    have h3 : a.t0 < b.t0 := h2
    grind

/-- a time covered by the head is covered by no later segment -/
theorem canon_head_excl {d s : Nat} {a : MigSeg} {L : List MigSeg} (h : Canon d s (a :: L)) {t r : Q}
    (ht : ETime.fin t < a.t1) : ¬ HasRate L t r := by
  rintro ⟨b, hb, h1, _⟩
  have h2 := ET.lt_of_lt_of_le ht ((canon_cons h).2.1 b hb).1
  have h3 : t < b.t0 := h2
  grind

theorem canon_fun {d s : Nat} : ∀ {L : List MigSeg}, Canon d s L → ∀ {t r r' : Q},
    HasRate L t r → HasRate L t r' → r = r'
  | [], _, _, _, _, h, _ => (hasRate_nil h).elim
  | a :: L, hc, t, r, r', h, h' => by
    rcases hasRate_cons.1 h with h1 | h1 <;> rcases hasRate_cons.1 h' with h2 | h2
    · exact h1.2.2.symm.trans h2.2.2
    · exact (canon_head_excl hc h1.2.1 h2).elim
    · exact (canon_head_excl hc h2.2.1 h1).elim
    · exact canon_fun (canon_cons hc).2.2 h1 h2

theorem migSeg_ext {a b : MigSeg} (h1 : a.dest = b.dest) (h2 : a.source = b.source) (h3 : a.t0 = b.t0)
    (h4 : a.t1 = b.t1) (h5 : a.rate = b.rate) : a = b := by
  cases a; cases b; simp_all

theorem canon_t0_le {d s : Nat} {a a' : MigSeg} {L L' : List MigSeg} (h : Canon d s (a :: L))
    (h' : Canon d s (a' :: L')) (heq : ∀ t r, HasRate (a :: L) t r → HasRate (a' :: L') t r) :
    a'.t0 ≤ a.t0 :=
  canon_head_min h' (heq _ _ (canon_head_has h))

theorem canon_t1_not_lt {d s : Nat} {a a' : MigSeg} {L L' : List MigSeg} (h : Canon d s (a :: L))
    (heq : ∀ t r, HasRate (a' :: L') t r → HasRate (a :: L) t r)
    (e0 : a.t0 = a'.t0) (er : a.rate = a'.rate) : ¬ a.t1 < a'.t1 := by
  intro hlt
  obtain ⟨ga, hl, _⟩ := canon_cons h
  rcases hu : a.t1 with u | _
  · rw [hu] at hlt
    have hpos : ETime.fin a.t0 < ETime.fin u := hu ▸ ga.pos
    have hpos' : a.t0 < u := hpos
    have h1 : HasRate (a' :: L') u a'.rate := ⟨a', List.mem_cons_self, by grind, hlt, rfl⟩
    rcases hasRate_cons.1 (heq _ _ h1) with h2 | ⟨b, hb, hb0, _, hbr⟩
    · rw [hu] at h2
      exact ET.lt_irrefl _ h2.2.1
    · have h3 := hl b hb
      rw [hu] at h3
      have h4 : u ≤ b.t0 := h3.1
      have h5 : u = b.t0 := by grind
      exact h3.2 (by rw [h5]) (er.trans hbr.symm)
  · rw [hu] at hlt
    exact (ET.inf_lt_iff _).1 hlt

theorem canon_head_eq {d s : Nat} {a a' : MigSeg} {L L' : List MigSeg} (h : Canon d s (a :: L))
    (h' : Canon d s (a' :: L')) (heq : ∀ t r, HasRate (a :: L) t r ↔ HasRate (a' :: L') t r) :
    a = a' := by
  have e0 : a.t0 = a'.t0 := by
    have h1 := canon_t0_le h h' (fun t r => (heq t r).1)
    have h2 := canon_t0_le h' h (fun t r => (heq t r).2)
    grind
  have er : a.rate = a'.rate := by
    have h1 := (heq _ _).1 (canon_head_has h)
    have h2 := canon_head_has h'
    rw [← e0] at h2
    exact canon_fun h' h1 h2
  have e1 : a.t1 = a'.t1 := by
    rcases ET.lt_trichotomy a.t1 a'.t1 with h1 | h1 | h1
    · exact (canon_t1_not_lt h (fun t r => (heq t r).2) e0 er h1).elim
    · exact h1
    · exact (canon_t1_not_lt h' (fun t r => (heq t r).1) e0.symm er.symm h1).elim
  have ga := (canon_cons h).1
  have ga' := (canon_cons h').1
  exact migSeg_ext (ga.dest.trans ga'.dest.symm) (ga.source.trans ga'.source.symm) e0 e1 er

/-- a canonical list is determined by its rate function -/
theorem canon_unique {d s : Nat} : ∀ {L L' : List MigSeg}, Canon d s L → Canon d s L' →
    (∀ t r, HasRate L t r ↔ HasRate L' t r) → L = L'
  | [], [], _, _, _ => rfl
  | [], a' :: L', _, h', heq => (hasRate_nil ((heq _ _).2 (canon_head_has h'))).elim
  | a :: L, [], h, _, heq => (hasRate_nil ((heq _ _).1 (canon_head_has h))).elim
  | a :: L, a' :: L', h, h', heq => by
    have e := canon_head_eq h h' heq
    subst e
    have hL : L = L' := by
      refine canon_unique (canon_cons h).2.2 (canon_cons h').2.2 (fun t r => ?_)
      constructor
      · intro hr
        rcases hasRate_cons.1 ((heq t r).1 (hasRate_cons.2 (Or.inr hr))) with h1 | h1
        · exact (canon_head_excl h h1.2.1 hr).elim
        · exact h1
      · intro hr
        rcases hasRate_cons.1 ((heq t r).2 (hasRate_cons.2 (Or.inr hr))) with h1 | h1
        · exact (canon_head_excl h' h1.2.1 hr).elim
        · exact h1
    rw [hL]

/-! ## the merging fold (shared by both sides) -/

/-- extend the last segment when the next one touches it with the same rate, else append -/
def mergeStep (acc : List MigSeg) (m : MigSeg) : List MigSeg :=
  match acc.getLast? with
  | some last => if last.t1 = ETime.fin m.t0 && last.rate = m.rate then acc.dropLast ++ [{ last with t1 := m.t1 }] else acc ++ [m]
  | none => [m]

theorem mergeStep_nil (m : MigSeg) : mergeStep [] m = [m] := rfl

theorem mergeStep_snoc (pre : List MigSeg) (last m : MigSeg) :
    mergeStep (pre ++ [last]) m =
      if last.t1 = ETime.fin m.t0 ∧ last.rate = m.rate then pre ++ [{ last with t1 := m.t1 }]
      else pre ++ [last] ++ [m] := by
  simp [mergeStep]

theorem list_snoc_cases {α} (l : List α) : l = [] ∨ ∃ pre x, l = pre ++ [x] := by
  rcases List.eq_nil_or_concat l with h | ⟨pre, x, h⟩
  · exact Or.inl h
  · exact Or.inr ⟨pre, x, by simpa using h⟩

theorem canon_snoc {d s : Nat} {pre : List MigSeg} {x : MigSeg} (h : Canon d s pre) (gx : Good d s x)
    (hx : ∀ a ∈ pre, a.t1 ≤ ETime.fin x.t0 ∧ (a.t1 = ETime.fin x.t0 → a.rate ≠ x.rate)) :
    Canon d s (pre ++ [x]) := by
  refine ⟨fun a ha => ?_, List.pairwise_append.2 ⟨h.ord, List.pairwise_singleton _ _, fun a ha b hb => ?_⟩⟩
  · rcases List.mem_append.1 ha with ha | ha
    · exact h.good a ha
    · rw [List.mem_singleton.1 ha]; exact gx
  · rw [List.mem_singleton.1 hb]; exact hx a ha

theorem canon_snoc_inv {d s : Nat} {pre : List MigSeg} {x : MigSeg} (h : Canon d s (pre ++ [x])) :
    Canon d s pre ∧ Good d s x ∧
      ∀ a ∈ pre, a.t1 ≤ ETime.fin x.t0 ∧ (a.t1 = ETime.fin x.t0 → a.rate ≠ x.rate) := by
  have ho := List.pairwise_append.1 h.ord
  exact ⟨⟨fun a ha => h.good a (List.mem_append_left _ ha), ho.1⟩,
    h.good x (List.mem_append_right _ List.mem_cons_self),
    fun a ha => ho.2.2 a ha x List.mem_cons_self⟩

/-- one merging step keeps the list canonical and adds the new segment to the rate function -/
theorem merge_step {d s : Nat} {acc : List MigSeg} {m : MigSeg} (hc : Canon d s acc) (gm : Good d s m)
    (hle : ∀ a ∈ acc, a.t1 ≤ ETime.fin m.t0) :
    Canon d s (mergeStep acc m)
    ∧ (∀ t r, HasRate (mergeStep acc m) t r ↔ HasRate acc t r ∨ HasRate [m] t r)
    ∧ (∀ b ∈ mergeStep acc m, b.t1 = m.t1 ∨ ∃ a ∈ acc, b.t1 = a.t1) := by
  rcases list_snoc_cases acc with rfl | ⟨pre, last, rfl⟩
  · rw [mergeStep_nil]
    refine ⟨canon_snoc canon_nil gm (fun a ha => by cases ha), fun t r => ?_, fun b hb => ?_⟩
    · simp [hasRate_nil]
    · exact Or.inl (by rw [List.mem_singleton.1 hb])
  · obtain ⟨hpre, gl, hpl⟩ := canon_snoc_inv hc
    have hlm : last.t1 ≤ ETime.fin m.t0 := hle last (List.mem_append_right _ List.mem_cons_self)
    rw [mergeStep_snoc]
    split
    · rename_i hm
      obtain ⟨ht, hr⟩ := hm
      have gl' : Good d s { last with t1 := m.t1 } :=
        ⟨gl.dest, gl.source, ET.lt_trans (ht ▸ gl.pos) gm.pos, gl.rate⟩
      refine ⟨canon_snoc hpre gl' hpl, fun t r => ?_, fun b hb => ?_⟩
      · rw [hasRate_append, hasRate_append, hasRate_singleton, hasRate_singleton, hasRate_singleton]
        have hpos : last.t0 < m.t0 := by
          have := gl.pos; rw [ht] at this; exact this
        show _ ∨ (last.t0 ≤ t ∧ ETime.fin t < m.t1 ∧ last.rate = r) ↔ _
        rw [ht, hr]
        have hcases : m.t0 ≤ t ∨ t < m.t0 := by grind
        constructor
        · rintro (h | ⟨h1, h2, h3⟩)
          · exact Or.inl (Or.inl h)
          · rcases hcases with hc' | hc'
            · exact Or.inr ⟨hc', h2, h3⟩
            · exact Or.inl (Or.inr ⟨h1, hc', h3⟩)
        · rintro ((h | ⟨h1, h2, h3⟩) | ⟨h1, h2, h3⟩)
          · exact Or.inl h
          · exact Or.inr ⟨h1, ET.lt_trans h2 gm.pos, h3⟩
          · exact Or.inr ⟨by grind, h2, h3⟩
      · rcases List.mem_append.1 hb with hb | hb
        · exact Or.inr ⟨b, List.mem_append_left _ hb, rfl⟩
        · rw [List.mem_singleton.1 hb]; exact Or.inl rfl
    · rename_i hm
      refine ⟨canon_snoc hc gm (fun a ha => ⟨hle a ha, fun hta => ?_⟩), fun t r => ?_, fun b hb => ?_⟩
      · rcases List.mem_append.1 ha with ha | ha
        · -- a strictly before last, which has positive length and ends by `m.t0`
          have h1 := (hpl a ha).1
          have h2 := ET.lt_of_lt_of_le (ET.lt_of_le_of_lt h1 gl.pos) hlm
          exact (ET.ne_of_lt h2 hta).elim
        · rw [List.mem_singleton.1 ha] at hta ⊢
          exact fun hr => hm ⟨hta, hr⟩
      · rw [hasRate_append]
      · rcases List.mem_append.1 hb with hb | hb
        · exact Or.inr ⟨b, hb, rfl⟩
        · rw [List.mem_singleton.1 hb]; exact Or.inl rfl

theorem merge_fold {d s : Nat} : ∀ (xs acc : List MigSeg), Canon d s acc → (∀ x ∈ xs, Good d s x) →
    xs.Pairwise (fun a b => a.t1 ≤ ETime.fin b.t0) → (∀ a ∈ acc, ∀ x ∈ xs, a.t1 ≤ ETime.fin x.t0) →
    Canon d s (xs.foldl mergeStep acc)
      ∧ ∀ t r, HasRate (xs.foldl mergeStep acc) t r ↔ HasRate acc t r ∨ HasRate xs t r
  | [], acc, hc, _, _, _ => ⟨hc, fun t r => by simp [hasRate_nil]⟩
  | x :: xs, acc, hc, hg, hp, hle => by
    obtain ⟨h1, h2, h3⟩ := merge_step hc (hg x List.mem_cons_self) (fun a ha => hle a ha x List.mem_cons_self)
    have hp' := List.pairwise_cons.1 hp
    have ih := merge_fold xs (mergeStep acc x) h1 (fun y hy => hg y (List.mem_cons_of_mem _ hy)) hp'.2
      (fun b hb y hy => by
        rcases h3 b hb with e | ⟨a, ha, e⟩
        · rw [e]; exact hp'.1 y hy
        · rw [e]; exact hle a ha y (List.mem_cons_of_mem _ hy))
    refine ⟨ih.1, fun t r => ?_⟩
    rw [List.foldl_cons, ih.2, h2, hasRate_singleton, hasRate_cons, or_assoc]

/-- the merging fold of a sorted, non-overlapping list of good segments -/
theorem merge_canon {d s : Nat} {xs : List MigSeg} (hg : ∀ x ∈ xs, Good d s x)
    (hp : xs.Pairwise (fun a b => a.t1 ≤ ETime.fin b.t0)) :
    Canon d s (xs.foldl mergeStep []) ∧ ∀ t r, HasRate (xs.foldl mergeStep []) t r ↔ HasRate xs t r := by
  have h := merge_fold xs [] canon_nil hg hp (fun a ha => by cases ha)
  exact ⟨h.1, fun t r => by rw [h.2]; simp [hasRate_nil]⟩

/-! ## the graph side -/

/-- the `migs` expression of `graphSemWith`, as a function of the raw segments -/
def graphMigs (raw : List MigSeg) (n : Nat) : List MigSeg :=
  (List.range n).flatMap (fun i => (List.range n).flatMap (fun j =>
    let mine := ((raw.filter (fun m => m.dest = i + 1 && m.source = j + 1 && m.rate ≠ 0)).foldr insertMig [])
    mine.foldl (fun (acc : List MigSeg) (m : MigSeg) =>
      match acc.getLast? with
      | some last => if last.t1 = ETime.fin m.t0 && last.rate = m.rate then acc.dropLast ++ [{ last with t1 := m.t1 }] else acc ++ [m]
      | none => [m]) []))

theorem graphMigs_eq (raw : List MigSeg) (n : Nat) :
    graphMigs raw n = (List.range n).flatMap (fun i => (List.range n).flatMap (fun j =>
      ((raw.filter (fun m => m.dest = i + 1 && m.source = j + 1 && m.rate ≠ 0)).foldr insertMig []).foldl
        mergeStep [])) := rfl

theorem insertMig_perm (x : MigSeg) : ∀ l : List MigSeg, (insertMig x l).Perm (x :: l)
  | [] => List.Perm.refl _
  | y :: ys => by
    simp only [insertMig]
    split
    · exact List.Perm.refl _
    · exact ((insertMig_perm x ys).cons y).trans (List.Perm.swap x y ys)

theorem sortMig_perm : ∀ l : List MigSeg, (l.foldr insertMig []).Perm l
  | [] => List.Perm.refl _
  | x :: l => by
    rw [List.foldr_cons]
    exact (insertMig_perm x _).trans ((sortMig_perm l).cons x)

theorem insertMig_sorted (x : MigSeg) : ∀ l : List MigSeg, l.Pairwise (fun a b => a.t0 ≤ b.t0) →
    (insertMig x l).Pairwise (fun a b => a.t0 ≤ b.t0)
  | [], _ => List.pairwise_singleton _ _
  | y :: ys, h => by
    have hy := List.pairwise_cons.1 h
    simp only [insertMig]
    split
    · rename_i hxy
      refine List.pairwise_cons.2 ⟨fun b hb => ?_, h⟩
      rcases List.mem_cons.1 hb with rfl | hb
      · exact hxy
      · exact Rat.le_trans hxy (hy.1 b hb)
    · rename_i hxy
      refine List.pairwise_cons.2 ⟨fun b hb => ?_, insertMig_sorted x ys hy.2⟩
      rcases List.mem_cons.1 ((insertMig_perm x ys).mem_iff.1 hb) with rfl | hb
      · grind
      · exact hy.1 b hb

theorem sortMig_sorted : ∀ l : List MigSeg, (l.foldr insertMig []).Pairwise (fun a b => a.t0 ≤ b.t0)
  | [] => List.Pairwise.nil
  | x :: l => by
    rw [List.foldr_cons]
    exact insertMig_sorted x _ (sortMig_sorted l)

/-- one ordered pair of the graph side -/
theorem graph_pair {raw : List MigSeg} (i j : Nat)
    (hpos : ∀ m ∈ raw, ETime.fin m.t0 < m.t1)
    (hdisj : raw.Pairwise (fun a b => a.dest = b.dest → a.source = b.source →
        ¬ (ETime.fin b.t0 < a.t1 ∧ ETime.fin a.t0 < b.t1))) :
    Canon (i + 1) (j + 1)
        (((raw.filter (fun m => m.dest = i + 1 && m.source = j + 1 && m.rate ≠ 0)).foldr insertMig []).foldl
          mergeStep [])
    ∧ ∀ t r, HasRate
        (((raw.filter (fun m => m.dest = i + 1 && m.source = j + 1 && m.rate ≠ 0)).foldr insertMig []).foldl
          mergeStep []) t r
        ↔ ∃ m ∈ raw, m.dest = i + 1 ∧ m.source = j + 1 ∧ m.rate ≠ 0 ∧ m.t0 ≤ t ∧ ETime.fin t < m.t1 ∧ m.rate = r := by
  generalize hF : raw.filter (fun m => m.dest = i + 1 && m.source = j + 1 && m.rate ≠ 0) = F
  have hmemF : ∀ m, m ∈ F ↔ m ∈ raw ∧ m.dest = i + 1 ∧ m.source = j + 1 ∧ m.rate ≠ 0 := by
    intro m
    rw [← hF, List.mem_filter]
    simp [and_assoc]
  have hperm := sortMig_perm F
  have hmem : ∀ m, m ∈ F.foldr insertMig [] ↔ m ∈ raw ∧ m.dest = i + 1 ∧ m.source = j + 1 ∧ m.rate ≠ 0 :=
    fun m => (hperm.mem_iff).trans (hmemF m)
  have hgood : ∀ m ∈ F.foldr insertMig [], Good (i + 1) (j + 1) m := by
    intro m hm
    obtain ⟨h1, h2, h3, h4⟩ := (hmem m).1 hm
    exact ⟨h2, h3, hpos m h1, h4⟩
  have hdF : F.Pairwise (fun a b => a.dest = b.dest → a.source = b.source →
        ¬ (ETime.fin b.t0 < a.t1 ∧ ETime.fin a.t0 < b.t1)) := by
    rw [← hF]; exact hdisj.filter _
  have hdS : (F.foldr insertMig []).Pairwise (fun a b => a.dest = b.dest → a.source = b.source →
        ¬ (ETime.fin b.t0 < a.t1 ∧ ETime.fin a.t0 < b.t1)) :=
    (hperm.pairwise_iff (fun {x y} h e1 e2 hh => h e1.symm e2.symm ⟨hh.2, hh.1⟩)).2 hdF
  have hord : (F.foldr insertMig []).Pairwise (fun a b => a.t1 ≤ ETime.fin b.t0) := by
    refine ((sortMig_sorted F).and hdS).imp_of_mem ?_
    intro a b ha hb h
    have ga := hgood a ha
    have gb := hgood b hb
    have h1 := h.2 (ga.dest.trans gb.dest.symm) (ga.source.trans gb.source.symm)
    rcases ET.lt_or_le (ETime.fin b.t0) a.t1 with h2 | h2
    · exact (h1 ⟨h2, ET.lt_of_le_of_lt (ET.fin_le_fin.2 h.1) gb.pos⟩).elim
    · exact h2
  obtain ⟨hc, hr⟩ := merge_canon hgood hord
  refine ⟨hc, fun t r => ?_⟩
  rw [hr]
  constructor
  · rintro ⟨m, hm, h1, h2, h3⟩
    obtain ⟨h4, h5, h6, h7⟩ := (hmem m).1 hm
    exact ⟨m, h4, h5, h6, h7, h1, h2, h3⟩
  · rintro ⟨m, h4, h5, h6, h7, h1, h2, h3⟩
    exact ⟨m, (hmem m).2 ⟨h4, h5, h6, h7⟩, h1, h2, h3⟩

/-! ## the ms side: the shape of `migSegs` -/

/-- keep the last matrix of every time -/
def dedupStep (acc : List (Q × Mat)) (tm : Q × Mat) : List (Q × Mat) :=
  match acc.getLast? with
  | some (t, _) => if t = tm.1 then acc.dropLast ++ [tm] else acc ++ [tm]
  | none => [tm]

/-- the intervals of `migSegs`, with the look-up list `full` separated from the traversed list -/
def ivsRawG (full l : List (Q × Mat)) (k0 : Nat) : List (Q × ETime × Mat) :=
  (l.zipIdx k0).map (fun (tm, k) =>
    (tm.1, (match full[k + 1]? with | some nx => ETime.fin nx.1 | none => ETime.inf), tm.2))

/-- the intervals, structurally -/
def ivsOf : List (Q × Mat) → List (Q × ETime × Mat)
  | [] => []
  | [a] => [(a.1, ETime.inf, a.2)]
  | a :: b :: rest => (a.1, ETime.fin b.1, a.2) :: ivsOf (b :: rest)

/-- the step of the per-pair fold of `migSegs` -/
def msStep (i j : Nat) (acc : List MigSeg) (iv : Q × ETime × Mat) : List MigSeg :=
  let r := matGet iv.2.2 i j
  if r = 0 then acc
  else match acc.getLast? with
    | some last =>
      if last.t1 = ETime.fin iv.1 && last.rate = r then acc.dropLast ++ [{ last with t1 := iv.2.1 }]
      else acc ++ [{ dest := i + 1, source := j + 1, t0 := iv.1, t1 := iv.2.1, rate := r }]
    | none => [{ dest := i + 1, source := j + 1, t0 := iv.1, t1 := iv.2.1, rate := r }]

/-- the segment of an interval (none when the rate is zero) -/
def segOf (i j : Nat) (iv : Q × ETime × Mat) : Option MigSeg :=
  if matGet iv.2.2 i j = 0 then none
  else some { dest := i + 1, source := j + 1, t0 := iv.1, t1 := iv.2.1, rate := matGet iv.2.2 i j }

theorem migSegs_eq0 (snaps : List (Q × Mat)) (n : Nat) :
    migSegs snaps n = (List.range n).flatMap (fun i => (List.range n).flatMap (fun j =>
      if i = j then [] else
        (ivsRawG (snaps.foldl dedupStep []) (snaps.foldl dedupStep []) 0).foldl (msStep i j) [])) := rfl

theorem ivsRawG_eq : ∀ (l pre : List (Q × Mat)), ivsRawG (pre ++ l) l pre.length = ivsOf l
  | [], _ => rfl
  | a :: l, pre => by
    have ih := ivsRawG_eq l (pre ++ [a])
    rw [List.append_assoc, List.singleton_append, List.length_append, List.length_singleton] at ih
    simp only [ivsRawG] at ih ⊢
    rw [List.zipIdx_cons, List.map_cons, ih]
    have hget : (pre ++ a :: l)[pre.length + 1]? = l[0]? := by
      rw [List.getElem?_append_right (by omega)]
      simp
    rw [hget]
    cases l with
    | nil => rfl
    | cons b rest => rfl

theorem msStep_eq (i j : Nat) (acc : List MigSeg) (iv : Q × ETime × Mat) :
    msStep i j acc iv = match segOf i j iv with | none => acc | some m => mergeStep acc m := by
  unfold msStep segOf
  by_cases h : matGet iv.2.2 i j = 0
  · simp [h]
  · simp only [h, if_false]
    rfl

theorem msFold_eq (i j : Nat) : ∀ (ivs : List (Q × ETime × Mat)) (acc : List MigSeg),
    ivs.foldl (msStep i j) acc = (ivs.filterMap (segOf i j)).foldl mergeStep acc
  | [], _ => rfl
  | iv :: ivs, acc => by
    rw [List.foldl_cons, msFold_eq i j ivs, msStep_eq, List.filterMap_cons]
    cases segOf i j iv <;> rfl

theorem migSegs_eq (snaps : List (Q × Mat)) (n : Nat) :
    migSegs snaps n = (List.range n).flatMap (fun i => (List.range n).flatMap (fun j =>
      if i = j then [] else
        ((ivsOf (snaps.foldl dedupStep [])).filterMap (segOf i j)).foldl mergeStep [])) := by
  rw [migSegs_eq0]
  have h := ivsRawG_eq (snaps.foldl dedupStep []) []
  rw [List.nil_append, List.length_nil] at h
  rw [h]
  simp only [msFold_eq]

/-! ## the ms side: de-duplication -/

/-- the last snapshot taken at or before `t` -/
def lastLE (l : List (Q × Mat)) (t : Q) : Option (Q × Mat) :=
  l.reverse.find? (fun s => decide (s.1 ≤ t))

theorem snapRateAt_eq (snaps : List (Q × Mat)) (i j : Nat) (t : Q) :
    snapRateAt snaps i j t = (lastLE snaps t).map (fun s => matGet s.2 i j) := rfl

theorem lastLE_nil (t : Q) : lastLE [] t = none := rfl

theorem lastLE_append (A B : List (Q × Mat)) (t : Q) :
    lastLE (A ++ B) t = (lastLE B t).or (lastLE A t) := by
  simp only [lastLE, List.reverse_append, List.find?_append]

theorem lastLE_singleton (a : Q × Mat) (t : Q) : lastLE [a] t = if a.1 ≤ t then some a else none := by
  simp only [lastLE, List.reverse_singleton, List.find?_cons, List.find?_nil]
  by_cases h : a.1 ≤ t <;> simp [h]

theorem lastLE_cons (a : Q × Mat) (l : List (Q × Mat)) (t : Q) :
    lastLE (a :: l) t = (lastLE l t).or (if a.1 ≤ t then some a else none) := by
  rw [← List.singleton_append, lastLE_append, lastLE_singleton]

theorem lastLE_snoc (l : List (Q × Mat)) (a : Q × Mat) (t : Q) :
    lastLE (l ++ [a]) t = if a.1 ≤ t then some a else lastLE l t := by
  rw [lastLE_append, lastLE_singleton]
  by_cases h : a.1 ≤ t <;> simp [h]

theorem lastLE_none {l : List (Q × Mat)} {t : Q} (h : ∀ x ∈ l, t < x.1) : lastLE l t = none := by
  rw [lastLE, List.find?_eq_none]
  intro x hx
  have := h x (List.mem_reverse.1 hx)
  simp only [decide_eq_true_eq]
  grind

theorem dedupStep_nil (x : Q × Mat) : dedupStep [] x = [x] := rfl

theorem dedupStep_snoc (pre : List (Q × Mat)) (last x : Q × Mat) :
    dedupStep (pre ++ [last]) x = if last.1 = x.1 then pre ++ [x] else pre ++ [last] ++ [x] := by
  simp [dedupStep]

theorem dedupStep_lastLE (acc : List (Q × Mat)) (x : Q × Mat) (t : Q) :
    lastLE (dedupStep acc x) t = lastLE (acc ++ [x]) t := by
  rcases list_snoc_cases acc with rfl | ⟨pre, last, rfl⟩
  · rfl
  · rw [dedupStep_snoc]
    split
    · rename_i h
      rw [lastLE_snoc, lastLE_snoc, lastLE_snoc, h]
      by_cases hx : x.1 ≤ t <;> simp [hx]
    · rfl

theorem dedup_lastLE (t : Q) : ∀ (xs acc : List (Q × Mat)),
    lastLE (xs.foldl dedupStep acc) t = lastLE (acc ++ xs) t
  | [], acc => by simp
  | x :: xs, acc => by
    rw [List.foldl_cons, dedup_lastLE t xs, lastLE_append, dedupStep_lastLE, ← lastLE_append,
      List.append_assoc, List.singleton_append]

theorem dedupStep_sorted {acc : List (Q × Mat)} {x : Q × Mat}
    (hs : acc.Pairwise (fun a b => a.1 < b.1)) (hle : ∀ a ∈ acc, a.1 ≤ x.1) :
    (dedupStep acc x).Pairwise (fun a b => a.1 < b.1) ∧ ∀ b ∈ dedupStep acc x, b.1 ≤ x.1 := by
  rcases list_snoc_cases acc with rfl | ⟨pre, last, rfl⟩
  · rw [dedupStep_nil]
    exact ⟨List.pairwise_singleton _ _, fun b hb => by rw [List.mem_singleton.1 hb]; exact Rat.le_refl⟩
  · have hs' := List.pairwise_append.1 hs
    have hl : last.1 ≤ x.1 := hle last (List.mem_append_right _ List.mem_cons_self)
    have hpre : ∀ a ∈ pre, a.1 < last.1 := fun a ha => hs'.2.2 a ha last List.mem_cons_self
    rw [dedupStep_snoc]
    split
    · rename_i h
      refine ⟨List.pairwise_append.2 ⟨hs'.1, List.pairwise_singleton _ _, fun a ha b hb => ?_⟩, fun b hb => ?_⟩
      · rw [List.mem_singleton.1 hb, ← h]; exact hpre a ha
      · rcases List.mem_append.1 hb with hb | hb
        · exact hle b (List.mem_append_left _ hb)
        · rw [List.mem_singleton.1 hb]; exact Rat.le_refl
    · rename_i h
      refine ⟨List.pairwise_append.2 ⟨hs, List.pairwise_singleton _ _, fun a ha b hb => ?_⟩, fun b hb => ?_⟩
      · rw [List.mem_singleton.1 hb]
        rcases List.mem_append.1 ha with ha | ha
        · have := hpre a ha; grind
        · rw [List.mem_singleton.1 ha]; grind
      · rcases List.mem_append.1 hb with hb | hb
        · exact hle b hb
        · rw [List.mem_singleton.1 hb]; exact Rat.le_refl

theorem dedup_sorted : ∀ (xs acc : List (Q × Mat)), acc.Pairwise (fun a b => a.1 < b.1) →
    xs.Pairwise (fun a b => a.1 ≤ b.1) → (∀ a ∈ acc, ∀ x ∈ xs, a.1 ≤ x.1) →
    (xs.foldl dedupStep acc).Pairwise (fun a b => a.1 < b.1)
  | [], _, hs, _, _ => hs
  | x :: xs, acc, hs, hp, hle => by
    have hp' := List.pairwise_cons.1 hp
    obtain ⟨h1, h2⟩ := dedupStep_sorted hs (fun a ha => hle a ha x List.mem_cons_self)
    exact dedup_sorted xs _ h1 hp'.2 (fun b hb y hy => Rat.le_trans (h2 b hb) (hp'.1 y hy))

/-! ## the ms side: the intervals -/

theorem ivsOf_t0_mem : ∀ {D : List (Q × Mat)} {iv : Q × ETime × Mat}, iv ∈ ivsOf D → ∃ x ∈ D, x.1 = iv.1
  | [a], iv, h => by
    rw [ivsOf, List.mem_singleton] at h
    exact ⟨a, List.mem_cons_self, by rw [h]⟩
  | a :: b :: rest, iv, h => by
    rw [ivsOf, List.mem_cons] at h
    rcases h with h | h
    · exact ⟨a, List.mem_cons_self, by rw [h]⟩
    · obtain ⟨x, hx, e⟩ := ivsOf_t0_mem h
      exact ⟨x, List.mem_cons_of_mem _ hx, e⟩

theorem ivsOf_pos : ∀ {D : List (Q × Mat)}, D.Pairwise (fun a b => a.1 < b.1) →
    ∀ iv ∈ ivsOf D, ETime.fin iv.1 < iv.2.1
  | [a], _, iv, h => by
    rw [ivsOf, List.mem_singleton] at h
    rw [h]; trivial
  | a :: b :: rest, hs, iv, h => by
    have hs' := List.pairwise_cons.1 hs
    rw [ivsOf, List.mem_cons] at h
    rcases h with h | h
    · rw [h]; exact hs'.1 b List.mem_cons_self
    · exact ivsOf_pos hs'.2 iv h

theorem ivsOf_ord : ∀ {D : List (Q × Mat)}, D.Pairwise (fun a b => a.1 < b.1) →
    (ivsOf D).Pairwise (fun x y => x.2.1 ≤ ETime.fin y.1)
  | [], _ => List.Pairwise.nil
  | [a], _ => List.pairwise_singleton _ _
  | a :: b :: rest, hs => by
    have hs' := List.pairwise_cons.1 hs
    have hb := List.pairwise_cons.1 hs'.2
    rw [ivsOf]
    refine List.pairwise_cons.2 ⟨fun iv hiv => ?_, ivsOf_ord hs'.2⟩
    obtain ⟨x, hx, e⟩ := ivsOf_t0_mem hiv
    show ETime.fin b.1 ≤ ETime.fin iv.1
    rw [← e]
    rcases List.mem_cons.1 hx with rfl | hx
    · exact Rat.le_refl
    · exact Rat.le_of_lt (hb.1 x hx)

theorem segOf_some {i j : Nat} {iv : Q × ETime × Mat} {m : MigSeg} (h : segOf i j iv = some m) :
    m.dest = i + 1 ∧ m.source = j + 1 ∧ m.t0 = iv.1 ∧ m.t1 = iv.2.1 ∧ m.rate = matGet iv.2.2 i j ∧ m.rate ≠ 0 := by
  unfold segOf at h
  split at h
  · cases h
  · rename_i hz
    cases h
    exact ⟨rfl, rfl, rfl, rfl, rfl, hz⟩

theorem hasRate_segs_cons (i j : Nat) (iv : Q × ETime × Mat) (ivs : List (Q × ETime × Mat)) (t r : Q) :
    HasRate ((iv :: ivs).filterMap (segOf i j)) t r ↔
      (iv.1 ≤ t ∧ ETime.fin t < iv.2.1 ∧ matGet iv.2.2 i j = r ∧ r ≠ 0) ∨ HasRate (ivs.filterMap (segOf i j)) t r := by
  rw [List.filterMap_cons]
  by_cases hz : matGet iv.2.2 i j = 0
  · have : segOf i j iv = none := by simp [segOf, hz]
    rw [this]
    constructor
    · exact Or.inr
    · rintro (h | h)
      · exact (h.2.2.2 (h.2.2.1.symm.trans hz)).elim
      · exact h
  · have : segOf i j iv = some { dest := i + 1, source := j + 1, t0 := iv.1, t1 := iv.2.1, rate := matGet iv.2.2 i j } := by
      simp [segOf, hz]
    rw [this]
    show HasRate (_ :: _) t r ↔ _
    rw [hasRate_cons]
    constructor
    · rintro (⟨h1, h2, h3⟩ | h)
      · exact Or.inl ⟨h1, h2, h3, fun e => hz (h3.trans e)⟩
      · exact Or.inr h
    · rintro (⟨h1, h2, h3, _⟩ | h)
      · exact Or.inl ⟨h1, h2, h3⟩
      · exact Or.inr h

/-- the rate function of the intervals of a strictly increasing snapshot list -/
theorem ms_hasRate (i j : Nat) : ∀ (D : List (Q × Mat)), D.Pairwise (fun a b => a.1 < b.1) → ∀ t r,
    (HasRate ((ivsOf D).filterMap (segOf i j)) t r ↔
      r ≠ 0 ∧ (lastLE D t).map (fun s => matGet s.2 i j) = some r)
  | [], _, t, r => by
    rw [ivsOf, List.filterMap_nil, lastLE_nil]
    simp [hasRate_nil]
  | [a], _, t, r => by
    rw [ivsOf, hasRate_segs_cons, List.filterMap_nil, lastLE_singleton]
    by_cases h : a.1 ≤ t
    · simp only [h, if_true, Option.map_some, Option.some.injEq, hasRate_nil, or_false, true_and]
      constructor
      · rintro ⟨_, h2, h3⟩; exact ⟨h3, h2⟩
      · rintro ⟨h3, h2⟩; exact ⟨trivial, h2, h3⟩
    · simp [h, hasRate_nil]
  | a :: b :: rest, hs, t, r => by
    have hs' := List.pairwise_cons.1 hs
    have hb := List.pairwise_cons.1 hs'.2
    have hab : a.1 < b.1 := hs'.1 b List.mem_cons_self
    have ih := ms_hasRate i j (b :: rest) hs'.2 t r
    rw [ivsOf, hasRate_segs_cons, ih, lastLE_cons a]
    by_cases htb : t < b.1
    · have hnone : lastLE (b :: rest) t = none := by
        refine lastLE_none (fun x hx => ?_)
        rcases List.mem_cons.1 hx with rfl | hx
        · exact htb
        · have := hb.1 x hx; grind
      rw [hnone]
      by_cases h : a.1 ≤ t
      · simp only [h, if_true, Option.none_or, Option.map_some, Option.some.injEq, Option.map_none,
          reduceCtorEq, and_false, or_false, true_and]
        constructor
        · rintro ⟨_, h2, h3⟩; exact ⟨h3, h2⟩
        · rintro ⟨h3, h2⟩; exact ⟨htb, h2, h3⟩
      · simp [h]
    · have hbt : b.1 ≤ t := by grind
      have hsome : ∃ y, lastLE (b :: rest) t = some y := by
        rw [lastLE_cons]
        cases lastLE rest t with
        | none => exact ⟨b, by simp [hbt]⟩
        | some y => exact ⟨y, by simp⟩
      obtain ⟨y, hy⟩ := hsome
      rw [hy, Option.some_or]
      constructor
      · rintro (⟨_, h2, _⟩ | h)
        · exact (htb h2).elim
        · exact h
      · exact Or.inr

/-- one ordered pair of the ms side -/
theorem ms_pair {snaps : List (Q × Mat)} (i j : Nat) (hchron : snaps.Pairwise (fun a b => a.1 ≤ b.1)) :
    Canon (i + 1) (j + 1) (((ivsOf (snaps.foldl dedupStep [])).filterMap (segOf i j)).foldl mergeStep [])
    ∧ ∀ t r, HasRate (((ivsOf (snaps.foldl dedupStep [])).filterMap (segOf i j)).foldl mergeStep []) t r
        ↔ r ≠ 0 ∧ snapRateAt snaps i j t = some r := by
  have hD : (snaps.foldl dedupStep []).Pairwise (fun a b => a.1 < b.1) :=
    dedup_sorted snaps [] List.Pairwise.nil hchron (fun a ha => by cases ha)
  have hgood : ∀ m ∈ (ivsOf (snaps.foldl dedupStep [])).filterMap (segOf i j), Good (i + 1) (j + 1) m := by
    intro m hm
    obtain ⟨iv, hiv, hs⟩ := List.mem_filterMap.1 hm
    obtain ⟨h1, h2, h3, h4, _, h6⟩ := segOf_some hs
    exact ⟨h1, h2, by rw [h3, h4]; exact ivsOf_pos hD iv hiv, h6⟩
  have hord : ((ivsOf (snaps.foldl dedupStep [])).filterMap (segOf i j)).Pairwise
      (fun a b => a.t1 ≤ ETime.fin b.t0) := by
    refine List.Pairwise.filterMap _ ?_ (ivsOf_ord hD)
    intro x y hxy m hm m' hm'
    rw [(segOf_some hm).2.2.2.1, (segOf_some hm').2.2.1]
    exact hxy
  obtain ⟨hc, hr⟩ := merge_canon hgood hord
  refine ⟨hc, fun t r => ?_⟩
  rw [hr, ms_hasRate i j _ hD, snapRateAt_eq, dedup_lastLE, List.nil_append]

/-! ## the two sides agree -/

theorem flatMap_congr_mem {α β} {l : List α} {f g : α → List β} (h : ∀ x ∈ l, f x = g x) :
    l.flatMap f = l.flatMap g := by
  induction l with
  | nil => rfl
  | cons a l ih =>
    rw [List.flatMap_cons, List.flatMap_cons, h a List.mem_cons_self,
      ih (fun x hx => h x (List.mem_cons_of_mem _ hx))]

/-- the migration step function of the graph side equals the one of the ms side when the raw
segments of the graph and the snapshots of the interpreter describe the same rate function -/
theorem migs_eq_of_rates {snaps : List (Q × Mat)} {raw : List MigSeg} {n : Nat}
    (hchron : snaps.Pairwise (fun a b => a.1 ≤ b.1))
    (hpos : ∀ m ∈ raw, ETime.fin m.t0 < m.t1)
    (hne : ∀ m ∈ raw, m.dest ≠ m.source)
    (hdisj : raw.Pairwise (fun a b => a.dest = b.dest → a.source = b.source →
        ¬ (ETime.fin b.t0 < a.t1 ∧ ETime.fin a.t0 < b.t1)))
    (hrate : ∀ i j, i < n → j < n → i ≠ j → ∀ t r, r ≠ 0 →
        ((∃ m ∈ raw, m.dest = i + 1 ∧ m.source = j + 1 ∧ m.t0 ≤ t ∧ ETime.fin t < m.t1 ∧ m.rate = r)
          ↔ snapRateAt snaps i j t = some r)) :
    graphMigs raw n = migSegs snaps n := by
  rw [graphMigs_eq, migSegs_eq]
  refine flatMap_congr_mem (fun i hi => flatMap_congr_mem (fun j hj => ?_))
  have hi' : i < n := List.mem_range.1 hi
  have hj' : j < n := List.mem_range.1 hj
  by_cases hij : i = j
  · subst hij
    rw [if_pos rfl]
    have hnil : raw.filter (fun m => m.dest = i + 1 && m.source = i + 1 && m.rate ≠ 0) = [] := by
      rw [List.filter_eq_nil_iff]
      intro m hm hp
      simp only [Bool.and_eq_true, decide_eq_true_eq] at hp
      exact hne m hm (hp.1.1.trans hp.1.2.symm)
    rw [hnil]
    rfl
  · rw [if_neg hij]
    obtain ⟨hcg, hrg⟩ := graph_pair (raw := raw) i j hpos hdisj
    obtain ⟨hcm, hrm⟩ := ms_pair (snaps := snaps) i j hchron
    refine canon_unique hcg hcm (fun t r => ?_)
    rw [hrg, hrm]
    by_cases hr0 : r = 0
    · subst hr0
      constructor
      · rintro ⟨m, _, _, _, h1, _, _, h2⟩; exact (h1 h2).elim
      · rintro ⟨h, _⟩; exact (h rfl).elim
    · rw [← hrate i j hi' hj' hij t r hr0]
      constructor
      · rintro ⟨m, h1, h2, h3, _, h5, h6, h7⟩
        exact ⟨hr0, m, h1, h2, h3, h5, h6, h7⟩
      · rintro ⟨_, m, h1, h2, h3, h5, h6, h7⟩
        exact ⟨m, h1, h2, h3, fun e => hr0 (h7.symm.trans e), h5, h6, h7⟩

/-! ## `graphSemWith` computes `graphMigs` -/

theorem graphSemWith_migs {sz : Q → Demes.Ms.Sz} {g : Graph} {names : Option (List String)} {D : DemogSem}
    (h : graphSemWith sz g names = .ok D) :
    ∃ raw, g.migrations.mapM (m := Except String) (fun m => do
        pure ({ dest := ← popId (names.getD (g.demes.map (·.name))) m.dest,
                source := ← popId (names.getD (g.demes.map (·.name))) m.source,
                t0 := m.endTime, t1 := m.startTime, rate := m.rate } : MigSeg)) = .ok raw
      ∧ D.migs = graphMigs raw (names.getD (g.demes.map (·.name))).length := by
  unfold graphSemWith at h
  obtain ⟨pops, _, h⟩ := sbind_ok.1 h
  obtain ⟨raw, hraw, h⟩ := sbind_ok.1 h
  obtain ⟨moves, _, h⟩ := sbind_ok.1 h
  rw [spure_ok] at h
  subst h
  exact ⟨raw, hraw, rfl⟩

/-! ## non-vacuity: the hypotheses of `migs_eq_of_rates` on a concrete instance -/

def exM0 : Mat := [[0, 0], [0, 0]]
def exM1 : Mat := [[0, 1], [0, 0]]
/-- snapshots with a repeated time and a repeated matrix -/
def exSnaps : List (Q × Mat) := [(0, exM0), (0, exM1), (5, exM1), (10, exM0)]
/-- raw graph segments, out of order -/
def exRaw : List MigSeg :=
  [{ dest := 1, source := 2, t0 := 3, t1 := .fin 10, rate := 1 }, { dest := 1, source := 2, t0 := 0, t1 := .fin 3, rate := 1 }]

theorem exSnapRate01 (t : Q) : snapRateAt exSnaps 0 1 t = if 10 ≤ t then some 0 else if 0 ≤ t then some 1 else none := by
  have e1 : matGet exM1 0 1 = 1 := by decide +kernel
  have e0 : matGet exM0 0 1 = 0 := by decide +kernel
  by_cases h10 : 10 ≤ t
  · simp [snapRateAt, exSnaps, h10, e0]
  · by_cases h5 : 5 ≤ t
    · have : 0 ≤ t := by grind
      simp [snapRateAt, exSnaps, List.find?, h10, h5, e1, this]
    · by_cases h0 : 0 ≤ t
      · simp [snapRateAt, exSnaps, List.find?, h10, h5, h0, e1]
      · simp [snapRateAt, exSnaps, List.find?, h10, h5, h0]

theorem exSnapRate10 (t : Q) : snapRateAt exSnaps 1 0 t = if 0 ≤ t then some 0 else none := by
  have e1 : matGet exM1 1 0 = 0 := by decide +kernel
  have e0 : matGet exM0 1 0 = 0 := by decide +kernel
  by_cases h10 : 10 ≤ t
  · have : 0 ≤ t := by grind
    simp [snapRateAt, exSnaps, h10, e0, this]
  · by_cases h5 : 5 ≤ t
    · have : 0 ≤ t := by grind
      simp [snapRateAt, exSnaps, List.find?, h10, h5, e1, this]
    · by_cases h0 : 0 ≤ t
      · simp [snapRateAt, exSnaps, List.find?, h10, h5, h0, e1]
      · simp [snapRateAt, exSnaps, List.find?, h10, h5, h0]

example : graphMigs exRaw 2 = migSegs exSnaps 2 := by
  refine migs_eq_of_rates (by decide +kernel) (by decide +kernel) (by decide +kernel) (by decide +kernel) ?_
  intro i j hi hj hij t r hr
  have : (i = 0 ∧ j = 1) ∨ (i = 1 ∧ j = 0) := by omega
  rcases this with ⟨rfl, rfl⟩ | ⟨rfl, rfl⟩
  · rw [exSnapRate01]
    simp only [exRaw, List.mem_cons, List.mem_nil_iff, or_false]
    constructor
    · rintro ⟨m, rfl | rfl, _, _, h1, h2, h3⟩
      · have h2' : t < 10 := h2
        have h1' : (3:Q) ≤ t := h1
        have h3' : (1:Q) = r := h3
        have : ¬ (10:Q) ≤ t := by grind
        have : (0:Q) ≤ t := by grind
        simp [*]
      · have h2' : t < 3 := h2
        have h1' : (0:Q) ≤ t := h1
        have h3' : (1:Q) = r := h3
        have : ¬ (10:Q) ≤ t := by grind
        simp [*]
    · intro h
      split at h
      · exact (hr (Option.some.inj h).symm).elim
      · split at h
        · rename_i h10 h0
          have hr1 := Option.some.inj h
          by_cases h3 : 3 ≤ t
          · exact ⟨_, Or.inl rfl, rfl, rfl, h3, (by show t < 10; grind), hr1⟩
          · exact ⟨_, Or.inr rfl, rfl, rfl, h0, (by show t < 3; grind), hr1⟩
        · cases h
  · rw [exSnapRate10]
    simp only [exRaw, List.mem_cons, List.mem_nil_iff, or_false]
    constructor
    · rintro ⟨m, rfl | rfl, h, _⟩ <;> cases h
    · intro h
      split at h
      · exact (hr (Option.some.inj h).symm).elim
      · cases h

example : migSegs exSnaps 2 = [{ dest := 1, source := 2, t0 := 0, t1 := .fin 10, rate := 1 }] := by decide +kernel

example : graphMigs exRaw 2 = [{ dest := 1, source := 2, t0 := 0, t1 := .fin 10, rate := 1 }] := by decide +kernel

end Demes.Proofs.FromMs
