/-
  C20, part 5: when no two migrations share `(rate, start, end)` the symmetric-group search is
  skipped and `asdict_simplified` is quadratic.
-/
import DemesVerif.Proofs.CostSearch
namespace Demes.Proofs
open Demes Demes.Cost Demes.Spec

theorem classesC_singletons_aux (ams0 : List AMig) :
    ∀ (classes : List (RateKey × List (String × String))) (acc : List SMig × List AMig) (t : Nat),
    (∀ kv ∈ classes, kv.2.length = 1) →
    classes.foldl (fun (acc : (List SMig × List AMig) × Nat) kv =>
      let k := kv.1
      let pairs := kv.2
      if pairs.length = 1 then (acc.1, acc.2 + 1)
      else
        let allDemes := collapseDemes pairs
        let r := searchLoopC k (pairs.length + allDemes.length + 2) allDemes allDemes.length
          { symmetric := acc.1.1, asymmetric := acc.1.2, pairs := pairs }
        ((r.1.symmetric, r.1.asymmetric), acc.2 + 1 + pairs.length + r.2)) (acc, t)
      = (acc, t + classes.length)
  | [], _, _, _ => by simp
  | kv :: classes, acc, t, h => by
    have hk := h kv (by simp)
    simp only [List.foldl_cons, hk, if_true, List.length_cons]
    rw [classesC_singletons_aux ams0 classes acc (t + 1) (fun kv' hkv => h kv' (by simp [hkv]))]
    congr 1; omega

/-- every class a singleton: nothing is searched, one tick per class -/
theorem classesC_singletons (classes : List (RateKey × List (String × String))) (ams : List AMig)
    (h : ∀ kv ∈ classes, kv.2.length = 1) : classesC classes ams = (([], ams), classes.length) := by
  unfold classesC
  rw [classesC_singletons_aux ams classes ([], ams) 0 h]; simp

theorem length_rateSets_aux : ∀ (ams : List AMig) (acc : List (RateKey × List (String × String))),
    (ams.foldl (fun (acc : List (RateKey × List (String × String))) a =>
      if acc.any (fun kv => kv.1 = a.key) then
        acc.map (fun kv => if kv.1 = a.key then (kv.1, kv.2 ++ [(a.source, a.dest)]) else kv)
      else acc ++ [(a.key, [(a.source, a.dest)])]) acc).length ≤ acc.length + ams.length
  | [], acc => by simp
  | a :: ams, acc => by
    simp only [List.foldl_cons, List.length_cons]
    split
    · have := length_rateSets_aux ams (acc.map (fun kv => if kv.1 = a.key then (kv.1, kv.2 ++ [(a.source, a.dest)]) else kv))
      simp only [List.length_map] at this; omega
    · have := length_rateSets_aux ams (acc ++ [(a.key, [(a.source, a.dest)])])
      simp only [List.length_append, List.length_cons, List.length_nil] at this; omega

/-- there are at most as many rate classes as migrations -/
theorem length_rateSets_le (ams : List AMig) : (rateSets ams).length ≤ ams.length := by
  have := length_rateSets_aux ams []
  simpa [rateSets] using this

theorem rateSets_singletons_aux : ∀ (ams : List AMig) (acc : List (RateKey × List (String × String))),
    (∀ kv ∈ acc, kv.2.length = 1) → (∀ a ∈ ams, ∀ kv ∈ acc, kv.1 ≠ a.key) → (ams.map AMig.key).Nodup →
    ∀ kv ∈ ams.foldl (fun (acc : List (RateKey × List (String × String))) a =>
      if acc.any (fun kv => kv.1 = a.key) then
        acc.map (fun kv => if kv.1 = a.key then (kv.1, kv.2 ++ [(a.source, a.dest)]) else kv)
      else acc ++ [(a.key, [(a.source, a.dest)])]) acc, kv.2.length = 1
  | [], acc, h1, _, _ => by simpa using h1
  | a :: ams, acc, h1, h2, h3 => by
    have hany : acc.any (fun kv => decide (kv.1 = a.key)) = false := by
      rw [List.any_eq_false]
      intro kv hkv
      simpa using h2 a (by simp) kv hkv
    simp only [List.foldl_cons, hany, Bool.false_eq_true, if_false]
    simp only [List.map_cons, List.nodup_cons, List.mem_map, not_exists, not_and] at h3
    apply rateSets_singletons_aux ams
    · intro kv hkv
      simp only [List.mem_append, List.mem_singleton] at hkv
      rcases hkv with hkv | rfl
      · exact h1 kv hkv
      · rfl
    · intro b hb kv hkv
      simp only [List.mem_append, List.mem_singleton] at hkv
      rcases hkv with hkv | rfl
      · exact h2 b (by simp [hb]) kv hkv
      · exact fun e => h3.1 b hb e.symm
    · exact h3.2

/-- pairwise distinct `(rate, start, end)` keys: every rate class is a singleton -/
theorem rateSets_singletons (ams : List AMig) (h : (ams.map AMig.key).Nodup) :
    ∀ kv ∈ rateSets ams, kv.2.length = 1 :=
  rateSets_singletons_aux ams [] (by simp) (by simp) h

theorem cost_simplify_singletons_poly (g : Graph)
    (h : ∀ kv ∈ rateSets (g.migrations.map (stripBounds g)), kv.2.length = 1) :
    costSimplify g ≤ polySimplifyDistinct (nDemes g) (nEpochs g) (nAncestors g) (nProportions g)
      (nMigrations g) (nPulses g) (nSources g) (nPulseProportions g) (nHeader g) := by
  have hc := classesC_singletons _ (g.migrations.map (stripBounds g)) h
  have hl := length_rateSets_le (g.migrations.map (stripBounds g))
  have ha := cost_asdict_eq g
  simp only [List.length_map] at hl
  simp only [nDemes, nMigrations] at ha
  simp only [costSimplify, simplifyMigrationsC, hc, polySimplifyDistinct, nDemes, nMigrations,
    List.length_nil, List.length_map]
  omega

theorem cost_simplify_distinct_rates_poly (g : Graph)
    (h : ((g.migrations.map (stripBounds g)).map AMig.key).Nodup) :
    costSimplify g ≤ polySimplifyDistinct (nDemes g) (nEpochs g) (nAncestors g) (nProportions g)
      (nMigrations g) (nPulses g) (nSources g) (nPulseProportions g) (nHeader g) :=
  cost_simplify_singletons_poly g (rateSets_singletons _ h)

end Demes.Proofs
