/-
  Vocabulary for the translator tie of C17 (DESIGN §4.1, group "GuardsHandles").  Nothing of the Model
  proper imports this file.

  `harness/extract_tables.py` turns the handle-relevant control flow of every entry point of
  `demes/load_dump.py` into a term of the statement language `Stmt` below, and the context manager
  `_open_file_polymorph` into a `Cm`.  The language is given a meaning here, in the Model's own monad
  (`Handles.M`) and with the Model's own primitives (`stage`, `fileStage`, `withPolymorph`,
  `withStringIO`, `openPolymorph`, `exitPolymorph`, `closeRef`):

  * `denote`   — a function that is called and returns or raises;
  * `denoteG`  — a generator function (`yield`): a resumable computation `Res` whose suspension carries
                 the rest of the body (`next`) and the `finally` clauses that are pending at the `yield`
                 (`close`, what `GeneratorExit` runs);
  * `cmEnter`, `cmExit` — the two halves of a `contextlib.contextmanager` generator.

  `Theorems/TablesGuardsHandles.lean` proves that the Model's functions are the meaning of the generated
  terms.
-/
import DemesVerif.Model.Handles
namespace Demes.Handles.Prog

/-- what a call passes as `filename` / `polymorph` -/
inductive Arg
  /-- the function's own `filename` parameter -/
  | param
  /-- the variable of the i-th enclosing `with io.StringIO(...) as …` (0 = innermost) -/
  | stream (i : Nat)
  /-- the callee takes a string, not a file (`loads_asdict(string, …)`) -/
  | noFile
deriving DecidableEq, Repr, Inhabited

/-- second argument of `_open_file_polymorph` -/
inductive Mode | r | w
deriving DecidableEq, Repr, Inhabited

/-- the functions of load_dump.py that are called by other functions of load_dump.py -/
inductive Fn | loadAsdict | loadsAsdict | load | loads | loadAll | dump | dumps | dumpAll
deriving DecidableEq, Repr, Inhabited

/-- handle-relevant control flow of a function body.  Variables bound by `with … as v` are de
Bruijn indices (0 = innermost): files (`with _open_file_polymorph(…) as f`) and streams
(`with io.StringIO(…) as stream`) are counted separately. -/
inductive Stmt
  | skip
  | seq (a b : Stmt)
  /-- a call that does not touch a file: `_no_null_values(data)`, `_unstringify_infinities(data)`,
  `demes.Graph.fromdict(data)`, `graph.asdict()` / `graph.asdict_simplified()` -/
  | stage (s : Stage)
  /-- a call that prepares the data of stage `s` and whose failure the Model counts as a failure of
  `s` (`_stringify_infinities(data)` before `json.dump`) -/
  | prep (s : Stage)
  /-- a call that reads from / writes to file variable `f`: `json.load(f)`, `_load_yaml_asdict(f)`,
  `json.dump(data, f, …)`, `_dump_yaml_fromdict(data, f, …)` -/
  | fileStage (s : Stage) (f : Nat)
  /-- `with _open_file_polymorph(a, mode) as f: body` -/
  | withPolymorph (a : Arg) (m : Mode) (body : Stmt)
  /-- `with io.StringIO(…) as stream: body` -/
  | withStringIO (body : Stmt)
  /-- `with ruamel.yaml.YAML(typ="safe") as yaml: body` (no file of ours is opened or closed) -/
  | withYaml (body : Stmt)
  /-- `if format == "json": json  elif format == "yaml": yaml  else: raise ValueError(…)` -/
  | onFormat (json yaml : Stmt)
  /-- a call of another function of the module with `format=format` forwarded -/
  | call (fn : Fn) (a : Arg)
  /-- `for graph in graphs: body` (`dump_all`) -/
  | forGraphs (body : Stmt)
  /-- `for data in yaml.load_all(f): body` (`load_all`) -/
  | forDocs (f : Nat) (body : Stmt)
  /-- `yield …` -/
  | yield
  /-- `f.close()` on a file variable -/
  | closeFile (f : Nat)
  /-- `.close()` on the `filename` parameter or a stream variable -/
  | closeArg (a : Arg)
deriving DecidableEq, Repr, Inhabited

structure Env where
  plan : Plan
  fmt : Format
  /-- number of graphs (`dump_all`) / documents (`load_all`) -/
  n : Nat
  /-- the graph / document the enclosing loop is at -/
  doc : Nat := 0
  /-- the `filename` argument -/
  param : Obj
  streams : List Obj := []
  files : List FileRef := []
  /-- the meaning of the other functions of the module (open recursion) -/
  callee : Fn → Obj → M Unit

def Env.obj (E : Env) : Arg → Obj
  | .param => E.param
  | .stream i => E.streams.getD i .other
  | .noFile => .other

def Env.file (E : Env) (i : Nat) : FileRef := E.files.getD i .other

/-- `.close()` on an object that is not known to be a file of the library -/
def closeObj (o : Obj) (s : State) : State :=
  match o.asRef with
  | some f => closeRef f s
  | none => s

/-- a statement that changes the state and cannot raise -/
def act (f : State → State) : M Unit := fun s => (.ok (), f s)

/-- `for graph in graphs: body` at graph `i` with `r` graphs left -/
def loopM (body : Nat → M Unit) : Nat → Nat → M Unit
  | _, 0 => pure ()
  | i, r + 1 => do
    body i
    loopM body (i + 1) r

/-- meaning of a function that is called (no `yield`) -/
def denote : Stmt → Env → M Unit
  | .skip, _ => pure ()
  | .seq a b, E => do denote a E; denote b E
  | .stage st, E => stage E.plan st E.doc
  | .prep _, _ => pure ()
  | .fileStage st f, E => fileStage E.plan (E.file f) st E.doc
  | .withPolymorph a _ body, E =>
    withPolymorph E.plan (E.obj a) (fun f => denote body { E with files := f :: E.files })
  | .withStringIO body, E =>
    withStringIO E.plan (fun o => denote body { E with streams := o :: E.streams })
  | .withYaml body, E => denote body E
  | .onFormat j y, E =>
    match E.fmt with
    | .json => denote j E
    | .yaml => denote y E
    | .unknown => raise .unknownFormat
  | .call fn a, E => E.callee fn (E.obj a)
  | .forGraphs body, E => loopM (fun i => denote body { E with doc := i }) 0 E.n
  | .forDocs _ _, _ => pure ()      -- generators only
  | .yield, _ => pure ()            -- generators only
  | .closeFile f, E => act (closeRef (E.file f))
  | .closeArg a, E => act (closeObj (E.obj a))

/-! ### generator functions -/

/-- a generator body run up to its end or to its next `yield` -/
inductive Res
  /-- the body is over: it returned (`.ok`) or raised -/
  | done (r : Except Exn Unit) (s : State)
  /-- suspended at a `yield` while the enclosing loop is at document `k`, with innermost file
  variable `f`; `next s` resumes the body from state `s`, `close s` is what throwing
  `GeneratorExit` into the `yield` does (the pending `finally` clauses, innermost first) -/
  | susp (f : FileRef) (k : Nat) (s : State) (next : State → Res) (close : State → State)

/-- run `m`; on an exception the pending `finally` clauses `fin` run and the generator is over -/
def liftG (m : M Unit) (fin : State → State) (K : State → Res) (s : State) : Res :=
  match m s with
  | (.ok (), s') => K s'
  | (.error e, s') => .done (.error e) (fin s')

/-- `for data in yaml.load_all(f): body` from document `i` (fuel `r`): ask the parser for document
`i` (`parse i` may raise); past the last document the loop ends -/
def loopDocs (n : Nat) (parse : Nat → M Unit) (body : Nat → (State → Res) → State → Res)
    (fin : State → State) (K : State → Res) : Nat → Nat → State → Res
  | _, 0, s => K s
  | i, r + 1, s =>
    liftG (parse i) fin
      (fun s' => if i < n then body i (fun s'' => loopDocs n parse body fin K (i + 1) r s'') s' else K s') s

/-- `for graph in graphs: body` inside a generator -/
def loopGraphs (body : Nat → (State → Res) → State → Res) (K : State → Res) : Nat → Nat → State → Res
  | _, 0, s => K s
  | i, r + 1, s => body i (fun s' => loopGraphs body K (i + 1) r s') s

/-- `with io.StringIO(…)`: the part before the body -/
def enterStringIO (p : Plan) : M Nat := do
  emit .newStringIO
  if p.hits .open 0 then raise (.at .open 0) else newHandle

/-- meaning of a generator body: `fin` = the `finally` clauses pending here (what an exception or
`GeneratorExit` runs on its way out), `K` = what follows -/
def denoteG : Stmt → Env → (State → State) → (State → Res) → State → Res
  | .skip, _, _, K, s => K s
  | .seq a b, E, fin, K, s => denoteG a E fin (denoteG b E fin K) s
  | .stage st, E, fin, K, s => liftG (stage E.plan st E.doc) fin K s
  | .prep _, _, _, K, s => K s
  | .fileStage st f, E, fin, K, s => liftG (fileStage E.plan (E.file f) st E.doc) fin K s
  | .withPolymorph a _ body, E, fin, K, s =>
    match openPolymorph E.plan (E.obj a) s with
    | (.error e, s') => .done (.error e) (fin s')
    | (.ok f, s') =>
      denoteG body { E with files := f :: E.files }
        (fun t => fin (exitPolymorph (E.obj a) f t)) (fun t => K (exitPolymorph (E.obj a) f t)) s'
  | .withStringIO body, E, fin, K, s =>
    match enterStringIO E.plan s with
    | (.error e, s') => .done (.error e) (fin s')
    | (.ok i, s') =>
      denoteG body { E with streams := .libStream i :: E.streams }
        (fun t => fin (closeRef (.handle i) t)) (fun t => K (closeRef (.handle i) t)) s'
  | .withYaml body, E, fin, K, s => denoteG body E fin K s
  | .onFormat j y, E, fin, K, s =>
    match E.fmt with
    | .json => denoteG j E fin K s
    | .yaml => denoteG y E fin K s
    | .unknown => .done (.error .unknownFormat) (fin s)
  | .call fn a, E, fin, K, s => liftG (E.callee fn (E.obj a)) fin K s
  | .forGraphs body, E, fin, K, s =>
    loopGraphs (fun i K' t => denoteG body { E with doc := i } fin K' t) K 0 E.n s
  | .forDocs f body, E, fin, K, s =>
    loopDocs E.n (fun i => fileStage E.plan (E.file f) .parse i)
      (fun i K' t => denoteG body { E with doc := i } fin K' t) fin K 0 (E.n + 1) s
  | .yield, E, fin, K, s => .susp (E.file 0) E.doc s K fin
  | .closeFile f, E, _, K, s => K (closeRef (E.file f) s)
  | .closeArg a, E, _, K, s => K (closeObj (E.obj a) s)

/-- a generator object -/
inductive GenR
  | notStarted
  /-- suspended at the `yield`, about to ask for document `i` -/
  | suspended (f : FileRef) (i : Nat) (next : State → Res) (close : State → State)
  | done (d : Done)

/-- what the Model keeps of a generator object -/
def GenR.toGen : GenR → Gen
  | .notStarted => .notStarted
  | .suspended f i _ _ => .suspended f i
  | .done d => .done d

/-- what `next(it)` answers once the body has stopped: the yielded document, StopIteration, or the
exception -/
def settle : Res → GenR × State
  | .done (.ok ()) s => (.done .exhausted, s.log .stop)
  | .done (.error e) s => (.done (.failed e), s.log (.raised e))
  | .susp f k s nx cl => (.suspended f (k + 1) nx cl, s.log (.yielded k))

/-- the generator's body from its first statement -/
def start (prog : Stmt) (c : Cfg) : State → Res :=
  denoteG prog { plan := c.plan, fmt := .yaml, n := c.n, param := c.obj, callee := fun _ _ => pure () }
    id (fun s => .done (.ok ()) s)

/-- `next(it)` -/
def genNextR (prog : Stmt) (c : Cfg) : GenR → State → GenR × State
  | .notStarted, s => settle (start prog c s)
  | .suspended _ _ nx _, s => settle (nx s)
  | .done d, s => (.done d, s.log .stop)

/-- `it.close()` -/
def genCloseR : GenR → State → GenR × State
  | .notStarted, s => (.done .closed, s)
  | .suspended _ _ _ cl, s => (.done .closed, cl s)
  | .done d, s => (.done d, s)

/-- `for _ in it: pass` with at most `fuel` calls of `next` -/
def genExhaustR (prog : Stmt) (c : Cfg) : Nat → GenR → State → GenR × State
  | 0, g, s => (g, s)
  | fuel + 1, g, s =>
    match genNextR prog c g s with
    | (.suspended f i nx cl, s') => genExhaustR prog c fuel (.suspended f i nx cl) s'
    | r => r

def genStepR (prog : Stmt) (c : Cfg) : Step → GenR → State → GenR × State
  | .next, g, s => genNextR prog c g s
  | .exhaust, g, s => genExhaustR prog c (c.n + 2) g s
  | .close, g, s => genCloseR g (s.log .genClose)
  | .collect, g, s => genCloseR g (s.log .collect)

def runScriptR (prog : Stmt) (c : Cfg) : List Step → GenR → State → GenR × State
  | [], g, s => (g, s)
  | st :: rest, g, s =>
    match genStepR prog c st g s with
    | (g', s') => runScriptR prog c rest g' s'

/-! ### `contextlib.contextmanager` generators of the shape
```python
try:
    f = open(polymorph, mode, encoding=…)
except <openFallback>:
    f = polymorph
try:
    yield f
except <class>: <acts>  …
else: <acts>
finally: <acts>
<acts>
``` -/

inductive ExcClass | typeError | osError | exception | baseException | bare
deriving DecidableEq, Repr, Inhabited

/-- the statements that occur in the clauses around the `yield` -/
inductive CmAct
  /-- `if f is not polymorph: f.close()` -/
  | closeIfOwned
  /-- `f.close()` -/
  | close
  /-- `polymorph.close()` -/
  | closeArg
  /-- `raise` -/
  | reraise
deriving DecidableEq, Repr, Inhabited

structure Cm where
  /-- the exception classes of `open(…)` under which `f = polymorph` -/
  openFallback : List ExcClass
  /-- `open` is given the `mode` parameter -/
  passesMode : Bool
  /-- the `encoding=` keyword of `open` -/
  encoding : String
  /-- `yield f` (the variable that `open` / the fallback assigned) -/
  yieldsFile : Bool
  /-- `except` clauses of the `try` around the `yield` -/
  handlers : List (ExcClass × List CmAct)
  orelse : List CmAct
  finally_ : List CmAct
  /-- statements after the `try` -/
  after : List CmAct
deriving DecidableEq, Repr, Inhabited

/-- how the body of the `with` statement ends -/
inductive ExitKind
  | normal
  /-- an exception of some subclass of `Exception` (nothing more is known about it) -/
  | error
  /-- `GeneratorExit` thrown into a generator suspended inside the `with` -/
  | generatorExit
deriving DecidableEq, Repr, Inhabited

def ExcClass.catchesTypeError : ExcClass → Bool
  | .osError => false
  | _ => true

def ExcClass.catchesOSError : ExcClass → Bool
  | .typeError => false
  | _ => true

/-- does `except <class>` catch EVERY way the body can end with kind `k`? -/
def ExcClass.catches (k : ExitKind) : ExcClass → Bool
  | .exception => k == .error
  | .baseException | .bare => k != .normal
  | .typeError | .osError => false

/-- the part before the `yield`: the file object handed to the body -/
def cmEnter (cm : Cm) (p : Plan) (o : Obj) : M FileRef := do
  emit .callOpen
  if o.isPath then
    -- `open` opens the path or raises OSError
    if p.hits .open 0 then
      (if cm.openFallback.any (·.catchesOSError) then pure .other else raise (.at .open 0))
    else do
      let i ← newHandle
      pure (.handle i)
  else
    -- not a path: `open` raises TypeError
    if cm.openFallback.any (·.catchesTypeError) then pure (o.asRef.getD .other) else raise (.at .open 0)

/-- a clause; the flag says whether an exception is propagating when it is over -/
def runActs (o : Obj) (f : FileRef) : List CmAct → State × Bool → State × Bool
  | [], r => r
  | .closeIfOwned :: as, (s, b) => runActs o f as (if o.asRef ≠ some f then closeRef f s else s, b)
  | .close :: as, (s, b) => runActs o f as (closeRef f s, b)
  | .closeArg :: as, (s, b) => runActs o f as (closeObj o s, b)
  | .reraise :: _, (s, _) => (s, true)

/-- the part after the `yield` when the body of the `with` ends in way `k`: the new state, and
whether an exception propagates out of the `with` statement -/
def cmExit (cm : Cm) (k : ExitKind) (o : Obj) (f : FileRef) (s : State) : State × Bool :=
  let r1 :=
    match k with
    | .normal => runActs o f cm.orelse (s, false)
    | _ =>
      match cm.handlers.find? (fun h => h.1.catches k) with
      | some h => runActs o f h.2 (s, false)
      | none => (s, true)
  let r2 := runActs o f cm.finally_ r1
  if r2.2 then r2 else runActs o f cm.after r2

end Demes.Handles.Prog
