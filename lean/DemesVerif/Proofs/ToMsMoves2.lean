/-
  C07 — one time group of the emitted command: its `-es` / `-ej` options, the state it starts
  from, and the graph's row steps at that time.
-/
import DemesVerif.Proofs.ToMsMoves1
set_option linter.unusedSimpArgs false
set_option linter.unusedVariables false
namespace Demes.Proofs.ToMs
open Demes Demes.Ms Demes.Spec Demes.Spec.C07 Demes.Proofs.RV
open Demes.Spec.MsSem

theorem mem_dpsOf {g : Graph} {T : Q} {x : DemeOrPulse} :
    (x ∈ dpsLt g T → x ∈ dps g) ∧ (x ∈ dpsEq g T → x ∈ dps g) ∧ (x ∈ dpsGt g T → x ∈ dps g) :=
  ⟨fun h => (List.mem_filter.1 h).1, fun h => (List.mem_filter.1 h).1, fun h => (List.mem_filter.1 h).1⟩

/-- non-`-es`/`-ej` options do not touch the rows -/
theorem rowFold_filter_sj : ∀ (evs : List (Event Growth)) (n : Nat) (r : Row),
    rowFold n r evs = rowFold n r (evs.filter isSplitJoin)
  | [], _, _ => rfl
  | e :: es, n, r => by
    cases hsj : isSplitJoin e with
    | true => simp only [List.filter_cons, hsj, if_true, rowFold]; exact rowFold_filter_sj es _ _
    | false =>
      have h1 : rowStep n r e = r := by cases e <;> simp [isSplitJoin] at hsj <;> rfl
      have h2 : countStep n e = n := by cases e <;> simp [isSplitJoin] at hsj <;> rfl
      simp only [List.filter_cons, hsj, Bool.false_eq_true, if_false, rowFold, h1, h2]
      exact rowFold_filter_sj es _ _

section
variable {g : Graph} (c : Clauses g) (hx : MsExpressible g = true) {N0 : Q} (hN : 0 < N0)
include c hx hN

/-- the time of a scaled ancestry option is the key of the element it comes from -/
theorem evT_anc_scaled {xs : List DemeOrPulse} {n : Nat} (hxs : ∀ x ∈ xs, x ∈ dps g) {a : Event Growth}
    (ha : a ∈ (ancEvs g n xs).map (scaleEv N0)) : ∃ x ∈ xs, ∃ q, x.key = .fin q ∧ evT a = q / (4 * N0) := by
  obtain ⟨ev, hev, rfl⟩ := List.mem_map.1 ha
  obtain ⟨x, hx', q, hk, ht⟩ := ancEvs_key xs n (fun y hy => dpOk_of_valid c hx y (hxs y hy)) hev
  exact ⟨x, hx', q, hk, evT_of_good (t_scale ht)⟩

/-- the `-es` / `-ej` options of the command, split at time `T` -/
theorem anc_parts (T : Q) :
    (ancEvs g g.demes.length (dps g)).map (scaleEv N0)
      = (ancEvs g g.demes.length (dpsLt g T)).map (scaleEv N0)
        ++ (ancEvs g (ancCount g.demes.length (dpsLt g T)) (dpsEq g T)).map (scaleEv N0)
        ++ (ancEvs g (ancCount (ancCount g.demes.length (dpsLt g T)) (dpsEq g T)) (dpsGt g T)).map (scaleEv N0) := by
  conv => lhs; rw [dps_three_way g T]
  rw [ancEvs_append, ancEvs_append, List.map_append, List.map_append]
  have : ancCount g.demes.length (dpsLt g T ++ dpsEq g T) = ancCount (ancCount g.demes.length (dpsLt g T)) (dpsEq g T) := by
    generalize g.demes.length = n
    generalize dpsLt g T = A
    induction A generalizing n with
    | nil => rfl
    | cons a A ih => cases a <;> simp only [List.cons_append, ancCount] <;> exact ih _
  rw [this]

theorem group_parts {pre grp post : List (Event Growth)} {T : Q} (hF : finalEvs g N0 = pre ++ grp ++ post)
    (hpre : ∀ a ∈ pre, evT a < T / (4 * N0)) (hgrp : ∀ a ∈ grp, evT a = T / (4 * N0))
    (hpost : ∀ a ∈ post, T / (4 * N0) < evT a) :
    pre.filter isSplitJoin = (ancEvs g g.demes.length (dpsLt g T)).map (scaleEv N0)
    ∧ grp.filter isSplitJoin = (ancEvs g (ancCount g.demes.length (dpsLt g T)) (dpsEq g T)).map (scaleEv N0) := by
  have h4 : (0 : Q) < 4 * N0 := by grind
  have hsj := finalEvs_filter_splitJoin c hx hN
  rw [hF, List.filter_append, List.filter_append, anc_parts c hx hN T] at hsj
  refine time_parts_unique hsj (fun a ha => hpre a (List.mem_filter.1 ha).1) (fun a ha => hgrp a (List.mem_filter.1 ha).1)
    (fun a ha => hpost a (List.mem_filter.1 ha).1) ?_ ?_ ?_
  · intro a ha
    obtain ⟨x, hx', q, hk, hev⟩ := evT_anc_scaled c hx hN (fun y hy => mem_dpsOf.1 hy) ha
    have := (List.mem_filter.1 hx').2
    simp only [decide_eq_true_eq, hk] at this
    rw [hev]; exact (InGen.div_lt_div h4).2 this
  · intro a ha
    obtain ⟨x, hx', q, hk, hev⟩ := evT_anc_scaled c hx hN (fun y hy => mem_dpsOf.2.1 hy) ha
    have := (List.mem_filter.1 hx').2
    simp only [decide_eq_true_eq, hk, ETime.fin.injEq] at this
    rw [hev, this]
  · intro a ha
    obtain ⟨x, hx', q, hk, hev⟩ := evT_anc_scaled c hx hN (fun y hy => mem_dpsOf.2.2 hy) ha
    have := (List.mem_filter.1 hx').2
    simp only [decide_eq_true_eq, hk] at this
    rw [hev]; exact (InGen.div_lt_div h4).2 this

/-- number of populations when the group of time `T` starts -/
theorem count_pre {pre grp post : List (Event Growth)} {T : Q} (hF : finalEvs g N0 = pre ++ grp ++ post)
    (hpre : ∀ a ∈ pre, evT a < T / (4 * N0)) (hgrp : ∀ a ∈ grp, evT a = T / (4 * N0))
    (hpost : ∀ a ∈ post, T / (4 * N0) < evT a) :
    (runP N0 (s0Of N0 g.demes.length) pre).pops.length = ancCount g.demes.length (dpsLt g T) := by
  obtain ⟨h1, _⟩ := group_parts c hx hN hF hpre hgrp hpost
  rw [runP_len]
  have hlen : (s0Of N0 g.demes.length).pops.length = g.demes.length := by simp [s0Of]
  have hsf : pre.filter isSplitFin = (pre.filter isSplitJoin).filter isSplitFin := by
    apply filter_filter_of
    intro x _
    cases x with
    | split o t i p => cases p <;> rfl
    | _ => rfl
  rw [hlen, hsf, h1, ← countFold_ancEvs g (dpsLt g T) g.demes.length, countFold_eq]
  congr 1
  rw [List.filter_map, List.length_map]
  congr 1
  apply List.filter_congr
  intro x _
  exact isSplitFin_scale N0 x

end

end Demes.Proofs.ToMs
