/-
  C08, link C (movements) — sparse rows: keys stay distinct and positive under `Row.set` /
  `Row.add`; the canonical form of a movement matrix (`canonRows`) only depends on the rows as
  functions and not on the order in which the rows are listed.
-/
import DemesVerif.Proofs.FromMsMoves
namespace Demes.Proofs.FromMs
open Demes Demes.Ms Demes.Spec.MsSem Demes.Spec.C08

/-! ## well-formed sparse rows -/

/-- keys are pairwise distinct and at least 1 -/
def RowOK (r : Row) : Prop := (r.map (·.1)).Nodup ∧ ∀ e ∈ r, 1 ≤ e.1

theorem rowOK_single (i : Nat) (v : Q) (hi : 1 ≤ i) : RowOK [(i, v)] := by
  refine ⟨by simp, ?_⟩
  intro e he
  simp only [List.mem_singleton] at he
  subst he
  exact hi

theorem map_replace_keys (r : Row) (k : Nat) (v : Q) :
    (r.map (fun e => if e.1 = k then (k, v) else e)).map (·.1) = r.map (·.1) := by
  induction r with
  | nil => rfl
  | cons e r ih =>
    simp only [List.map_cons, ih]
    by_cases h : e.1 = k
    · simp [h]
    · simp [h]

theorem Row.set_ok {r : Row} (h : RowOK r) (k : Nat) (v : Q) (hk : 1 ≤ k) : RowOK (Row.set r k v) := by
  unfold Row.set
  split
  · refine ⟨by rw [map_replace_keys]; exact h.1, ?_⟩
    intro e he
    obtain ⟨e0, he0, rfl⟩ := List.mem_map.mp he
    by_cases hc : e0.1 = k
    · simp only [hc, if_true]; exact hk
    · simp only [hc, if_false]; exact h.2 e0 he0
  · rename_i hany
    refine ⟨?_, ?_⟩
    · rw [List.map_append, List.nodup_append]
      refine ⟨h.1, by simp, ?_⟩
      intro a ha b hb
      simp only [List.map_cons, List.map_nil, List.mem_singleton] at hb
      subst hb
      obtain ⟨e, he, rfl⟩ := List.mem_map.mp ha
      intro heq
      apply hany
      simp only [List.any_eq_true, decide_eq_true_eq]
      exact ⟨e, he, heq⟩
    · intro e he
      rcases List.mem_append.mp he with he | he
      · exact h.2 e he
      · simp only [List.mem_singleton] at he
        subst he
        exact hk

theorem Row.add_ok {r : Row} (h : RowOK r) (k : Nat) (v : Q) (hk : 1 ≤ k) : RowOK (Row.add r k v) :=
  Row.set_ok h k _ hk

/-- in a row with distinct keys, `get` reads the entry -/
theorem Row.get_of_mem {r : Row} (h : (r.map (·.1)).Nodup) {k : Nat} {v : Q} (hm : (k, v) ∈ r) : Row.get r k = v := by
  unfold Row.get
  induction r with
  | nil => cases hm
  | cons e r ih =>
    obtain ⟨a, b⟩ := e
    simp only [List.map_cons, List.nodup_cons] at h
    rcases List.mem_cons.mp hm with hm1 | hm2
    · cases hm1
      simp [List.lookup]
    · have hne : ¬ k = a := by
        intro e
        apply h.1
        rw [← e]
        exact List.mem_map.mpr ⟨(k, v), hm2, rfl⟩
      have : (k == a) = false := by simpa using hne
      simp only [List.lookup, this]
      exact ih h.2 hm2

theorem Row.get_of_not_mem {r : Row} {k : Nat} (hm : ∀ v, (k, v) ∉ r) : Row.get r k = 0 := by
  unfold Row.get
  have : r.lookup k = none := by
    rw [List.lookup_eq_none_iff]
    intro e he
    simp only [bne_iff_ne, ne_eq]
    intro hk
    apply hm e.2
    rw [hk]
    exact he
  rw [this]
  rfl

/-- membership in the non-zero part of a well-formed row is determined by `get` -/
theorem mem_filter_iff {r : Row} (h : (r.map (·.1)).Nodup) (k : Nat) (v : Q) :
    (k, v) ∈ r.filter (fun e => e.2 ≠ 0) ↔ Row.get r k = v ∧ v ≠ 0 := by
  constructor
  · intro hm
    obtain ⟨h1, h2⟩ := List.mem_filter.mp hm
    exact ⟨Row.get_of_mem h h1, by simpa using h2⟩
  · intro ⟨hg, hv⟩
    rw [List.mem_filter]
    refine ⟨?_, by simpa using hv⟩
    by_cases hex : ∃ w, (k, w) ∈ r
    · obtain ⟨w, hw⟩ := hex
      have := Row.get_of_mem h hw
      rw [hg] at this
      rw [this]
      exact hw
    · have := Row.get_of_not_mem (r := r) (k := k) (fun w hw => hex ⟨w, hw⟩)
      rw [hg] at this
      exact (hv this).elim

/-! ## `sortKey` -/

theorem insertKey_permC {β} (x : Nat × β) (l : List (Nat × β)) : (insertKey x l).Perm (x :: l) := by
  induction l with
  | nil => exact List.Perm.refl _
  | cons y ys ih =>
    unfold insertKey
    split
    · exact List.Perm.refl _
    · exact (List.Perm.cons y ih).trans (List.Perm.swap x y ys)

theorem sortKey_permC {β} (l : List (Nat × β)) : (sortKey l).Perm l := by
  induction l with
  | nil => exact List.Perm.refl _
  | cons x xs ih => exact (insertKey_permC x _).trans (List.Perm.cons x ih)

theorem insertKey_sortedC {β} (x : Nat × β) (l : List (Nat × β)) (h : l.Pairwise (fun a b => a.1 ≤ b.1)) :
    (insertKey x l).Pairwise (fun a b => a.1 ≤ b.1) := by
  induction l with
  | nil => simp [insertKey]
  | cons y ys ih =>
    unfold insertKey
    split
    · rename_i hxy
      refine List.Pairwise.cons ?_ h
      intro b hb
      rcases List.mem_cons.mp hb with hb | hb
      · subst hb; exact hxy
      · exact Nat.le_trans hxy (List.rel_of_pairwise_cons h hb)
    · rename_i hxy
      refine List.Pairwise.cons ?_ (ih h.tail)
      intro b hb
      rcases List.mem_cons.mp ((insertKey_permC x ys).subset hb) with hb | hb
      · subst hb; omega
      · exact List.rel_of_pairwise_cons h hb

theorem sortKey_sortedC {β} (l : List (Nat × β)) : (sortKey l).Pairwise (fun a b => a.1 ≤ b.1) := by
  induction l with
  | nil => exact List.Pairwise.nil
  | cons x xs ih => exact insertKey_sortedC x _ ih

/-- lists with pairwise distinct keys that are permutations of each other sort to the same list -/
theorem sortKey_eq_of_permC {β} {l l' : List (Nat × β)} (hp : l.Perm l') (hn : (l.map (·.1)).Nodup) :
    sortKey l = sortKey l' := by
  have hp' : (sortKey l).Perm (sortKey l') := (sortKey_permC l).trans (hp.trans (sortKey_permC l').symm)
  apply List.Perm.eq_of_pairwise (le := fun a b => a.1 ≤ b.1) _ (sortKey_sortedC l) (sortKey_sortedC l') hp'
  intro a b ha hb h1 h2
  have hk : a.1 = b.1 := Nat.le_antisymm h1 h2
  have ha' : a ∈ l := (sortKey_permC l).subset ha
  have hb' : b ∈ l := hp.symm.subset ((sortKey_permC l').subset hb)
  -- distinct keys: same key, same element
  clear hp hp' ha hb h1 h2
  induction l with
  | nil => cases ha'
  | cons x xs ih =>
    simp only [List.map_cons, List.nodup_cons] at hn
    rcases List.mem_cons.mp ha' with ha1 | ha2 <;> rcases List.mem_cons.mp hb' with hb1 | hb2
    · rw [ha1, hb1]
    · exact (hn.1 (List.mem_map.mpr ⟨b, hb2, by rw [← hk, ha1]⟩)).elim
    · exact (hn.1 (List.mem_map.mpr ⟨a, ha2, by rw [hk, hb1]⟩)).elim
    · exact ih hn.2 ha2 hb2

/-! ## the canonical form only depends on the rows as functions -/

theorem canonRow_ext {r1 r2 : Row} (h1 : RowOK r1) (h2 : RowOK r2) (h : ∀ k, Row.get r1 k = Row.get r2 k) :
    sortKey (r1.filter (fun e => e.2 ≠ 0)) = sortKey (r2.filter (fun e => e.2 ≠ 0)) := by
  have hsub : ∀ (r : Row), (r.map (·.1)).Nodup → ((r.filter (fun e => e.2 ≠ 0)).map (·.1)).Nodup := by
    intro r hr
    exact List.Nodup.sublist (List.Sublist.map _ List.filter_sublist) hr
  have nd : ∀ (r : Row), (r.map (·.1)).Nodup → r.Nodup := by
    intro r hr
    unfold List.Nodup at hr ⊢
    rw [List.pairwise_map] at hr
    exact hr.imp (fun hab e => hab (by rw [e]))
  apply sortKey_eq_of_permC _ (hsub r1 h1.1)
  rw [List.perm_ext_iff_of_nodup (nd _ (hsub r1 h1.1)) (nd _ (hsub r2 h2.1))]
  intro e
  obtain ⟨k, v⟩ := e
  rw [mem_filter_iff h1.1, mem_filter_iff h2.1, h k]

/-- two listings of a movement matrix with the same row keys in the same order and the same rows
as functions have the same canonical form -/
theorem canonRows_congr {L L' : List (Nat × Row)}
    (h : List.Forall₂ (fun a b => a.1 = b.1 ∧ RowOK a.2 ∧ RowOK b.2 ∧ ∀ k, Row.get a.2 k = Row.get b.2 k) L L') :
    canonRows L = canonRows L' := by
  unfold canonRows
  congr 2
  induction h with
  | nil => rfl
  | cons hab _ ih =>
    rename_i a b l l'
    simp only [List.map_cons, ih]
    congr 1
    obtain ⟨e1, o1, o2, e2⟩ := hab
    rw [canonRow_ext o1 o2 e2, e1]

/-- the canonical form does not depend on the order of the rows (distinct row keys) -/
theorem canonRows_perm {L L' : List (Nat × Row)} (hp : L.Perm L') (hn : (L.map (·.1)).Nodup) :
    canonRows L = canonRows L' := by
  unfold canonRows
  apply sortKey_eq_of_permC
  · exact (hp.map _).filter _
  · have : (List.map (fun ir : Nat × Row => (ir.1, sortKey (List.filter (fun e => decide (e.2 ≠ 0)) ir.2))) L).map (·.1) = L.map (·.1) := by
      simp [List.map_map, Function.comp_def]
    exact List.Nodup.sublist (List.Sublist.map _ List.filter_sublist) (this ▸ hn)

end Demes.Proofs.FromMs
