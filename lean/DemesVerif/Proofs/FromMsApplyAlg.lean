/-
  C08, link C (movements) — rows as functions.  A move `(a, h, q)` sends the fraction `q` of what a
  row holds at `a` to `h`.  If no move has as source an earlier target, every row only ever feels
  the moves of its own population; this is what makes "pulses first, then ancestry" (the order in
  which a graph is read) agree with command order.
-/
import DemesVerif.Proofs.FromMsApplyRows
import Mathlib.Tactic.Ring
import Mathlib.Tactic.Linarith
import Mathlib.Algebra.Order.Field.Rat
namespace Demes.Proofs.FromMs
open Demes

abbrev RowF := Nat → Q
abbrev MOp := Nat × Nat × Q

def delta (r : Nat) : RowF := fun k => if k = r then 1 else 0

/-- the move `(a, h, q)` on a row -/
def opF (o : MOp) (f : RowF) : RowF := fun k =>
  if k = o.2.1 then (if o.2.1 = o.1 then f k else f k + f o.1 * o.2.2)
  else if k = o.1 then f o.1 * (1 - o.2.2) else f k

def foldOps (ops : List MOp) (f : RowF) : RowF := ops.foldl (fun f o => opF o f) f

theorem foldOps_nil (f : RowF) : foldOps [] f = f := rfl
theorem foldOps_cons (o : MOp) (ops : List MOp) (f : RowF) : foldOps (o :: ops) f = foldOps ops (opF o f) := rfl
theorem foldOps_append (a b : List MOp) (f : RowF) : foldOps (a ++ b) f = foldOps b (foldOps a f) := by
  unfold foldOps; rw [List.foldl_append]

/-- no move has as source the target of an earlier move -/
def NSAT (ops : List MOp) : Prop := ops.Pairwise (fun o1 o2 => o1.2.1 ≠ o2.1)

theorem opF_noop {o : MOp} {f : RowF} (h : f o.1 = 0) : opF o f = f := by
  funext k
  unfold opF
  by_cases h1 : k = o.2.1
  · by_cases h2 : o.2.1 = o.1
    · simp [h1, h2]
    · simp [h1, h2, h]
  · by_cases h2 : k = o.1
    · simp [h1, h2, h]
    · simp [h1, h2]

theorem opF_other {o : MOp} {f : RowF} {k : Nat} (h1 : k ≠ o.2.1) (h2 : k ≠ o.1) : opF o f k = f k := by
  unfold opF
  simp [h1, h2]

/-- a row that holds nothing at the sources of the other populations only feels its own moves -/
theorem foldOps_own (r : Nat) : ∀ (ops : List MOp) (f : RowF), NSAT ops →
    (∀ o ∈ ops, o.1 ≠ r → f o.1 = 0) →
    foldOps ops f = foldOps (ops.filter (fun o => o.1 = r)) f := by
  intro ops
  induction ops with
  | nil => intro f _ _; rfl
  | cons o rest ih =>
    intro f hn hz
    have hn' : NSAT rest := (List.pairwise_cons.mp hn).2
    have hrel := (List.pairwise_cons.mp hn).1
    by_cases ho : o.1 = r
    · rw [List.filter_cons_of_pos (by simpa using ho), foldOps_cons, foldOps_cons]
      apply ih _ hn'
      intro o' ho' hne
      have h1 : o'.1 ≠ o.2.1 := fun e => hrel o' ho' e.symm
      have h2 : o'.1 ≠ o.1 := by rw [ho]; exact hne
      rw [opF_other h1 h2]
      exact hz o' (List.mem_cons_of_mem _ ho') hne
    · rw [List.filter_cons_of_neg (by simpa using ho), foldOps_cons,
        opF_noop (hz o (List.mem_cons_self ..) ho)]
      exact ih f hn' (fun o' ho' => hz o' (List.mem_cons_of_mem _ ho'))

theorem delta_ne {r k : Nat} (h : k ≠ r) : delta r k = 0 := by simp [delta, h]
theorem delta_self (r : Nat) : delta r r = 1 := by simp [delta]

theorem foldOps_own_delta (r : Nat) (ops : List MOp) (hn : NSAT ops) :
    foldOps ops (delta r) = foldOps (ops.filter (fun o => o.1 = r)) (delta r) :=
  foldOps_own r ops _ hn (fun _ _ hne => delta_ne hne)

/-! ## the moves of one population -/

/-- all moves have source `r` and a fraction in `[0, 1]` -/
def OwnOps (r : Nat) (ops : List MOp) : Prop := ∀ o ∈ ops, o.1 = r ∧ 0 ≤ o.2.2 ∧ o.2.2 ≤ 1

theorem opF_nonneg {o : MOp} {f : RowF} (hq0 : 0 ≤ o.2.2) (hq1 : o.2.2 ≤ 1) (hf : ∀ k, 0 ≤ f k) :
    ∀ k, 0 ≤ opF o f k := by
  intro k
  unfold opF
  have ha := hf o.1
  have hk := hf k
  split
  · split
    · exact hk
    · have : 0 ≤ f o.1 * o.2.2 := Rat.mul_nonneg ha hq0
      linarith
  · split
    · exact Rat.mul_nonneg ha (by linarith)
    · exact hk

theorem foldOps_nonneg : ∀ (ops : List MOp) (f : RowF), (∀ o ∈ ops, 0 ≤ o.2.2 ∧ o.2.2 ≤ 1) → (∀ k, 0 ≤ f k) →
    ∀ k, 0 ≤ foldOps ops f k := by
  intro ops
  induction ops with
  | nil => intro f _ hf; exact hf
  | cons o rest ih =>
    intro f hq hf
    rw [foldOps_cons]
    exact ih _ (fun o' ho' => hq o' (List.mem_cons_of_mem _ ho'))
      (opF_nonneg (hq o (List.mem_cons_self ..)).1 (hq o (List.mem_cons_self ..)).2 hf)

/-- own moves never take anything away from the other columns -/
theorem foldOps_own_mono (r : Nat) : ∀ (ops : List MOp) (f : RowF), OwnOps r ops → (∀ k, 0 ≤ f k) →
    ∀ k, k ≠ r → f k ≤ foldOps ops f k := by
  intro ops
  induction ops with
  | nil => intro f _ _ k _; exact Rat.le_refl
  | cons o rest ih =>
    intro f ho hf k hk
    rw [foldOps_cons]
    obtain ⟨ha, hq0, hq1⟩ := ho o (List.mem_cons_self ..)
    have h1 : f k ≤ opF o f k := by
      unfold opF
      have hk' : ¬ k = o.1 := by rw [ha]; exact hk
      split
      · split
        · exact Rat.le_refl
        · have : 0 ≤ f o.1 * o.2.2 := Rat.mul_nonneg (hf _) hq0
          linarith
      · simp [hk']
    have h2 := ih (opF o f) (fun o' ho' => ho o' (List.mem_cons_of_mem _ ho')) (opF_nonneg hq0 hq1 hf) k hk
    linarith

/-- own moves with fractions below 1 leave something at home -/
theorem foldOps_own_pos (r : Nat) : ∀ (ops : List MOp) (f : RowF), OwnOps r ops → (∀ o ∈ ops, o.2.2 < 1) →
    0 < f r → 0 < foldOps ops f r := by
  intro ops
  induction ops with
  | nil => intro f _ _ h; exact h
  | cons o rest ih =>
    intro f ho hq hf
    rw [foldOps_cons]
    obtain ⟨ha, hq0, hq1⟩ := ho o (List.mem_cons_self ..)
    have hlt := hq o (List.mem_cons_self ..)
    apply ih _ (fun o' ho' => ho o' (List.mem_cons_of_mem _ ho')) (fun o' ho' => hq o' (List.mem_cons_of_mem _ ho'))
    unfold opF
    split
    · rename_i h1
      split
      · exact hf
      · rename_i h2
        exact (h2 (by rw [← h1, ha])).elim
    · rw [if_pos ha.symm, ha]
      exact Rat.mul_pos hf (by linarith)

/-- own moves with fractions below 1 that end with nothing more elsewhere than at the start have
moved nothing -/
theorem foldOps_own_fixed (r : Nat) : ∀ (ops : List MOp) (f : RowF), OwnOps r ops → (∀ o ∈ ops, o.2.2 < 1) →
    (∀ k, 0 ≤ f k) → 0 < f r → (∀ k, k ≠ r → foldOps ops f k ≤ f k) → foldOps ops f = f := by
  intro ops
  induction ops with
  | nil => intro f _ _ _ _ _; rfl
  | cons o rest ih =>
    intro f ho hq hf hr hle
    rw [foldOps_cons] at hle ⊢
    obtain ⟨ha, hq0, hq1⟩ := ho o (List.mem_cons_self ..)
    have ho' : OwnOps r rest := fun o' ho' => ho o' (List.mem_cons_of_mem _ ho')
    have hf' := opF_nonneg hq0 hq1 hf
    have hmono := foldOps_own_mono r rest (opF o f) ho' hf'
    have hstep : opF o f = f := by
      by_cases hh : o.2.1 = o.1
      · funext k
        unfold opF
        by_cases h1 : k = o.2.1
        · simp [h1, hh]
        · have : ¬ k = o.1 := by rw [← hh]; exact h1
          simp [h1, this]
      · have hhr : o.2.1 ≠ r := by rw [← ha]; exact hh
        have h1 := hmono o.2.1 hhr
        have h2 := hle o.2.1 hhr
        have h3 : opF o f o.2.1 = f o.2.1 + f o.1 * o.2.2 := by unfold opF; simp [hh]
        have h4 : f o.1 * o.2.2 ≤ 0 := by linarith
        have h5 : 0 ≤ f o.1 * o.2.2 := Rat.mul_nonneg (hf _) hq0
        have h6 : f o.1 * o.2.2 = 0 := Rat.le_antisymm h4 h5
        have h7 : o.2.2 = 0 := by
          rw [ha] at h6
          rcases Rat.mul_eq_zero.mp h6 with h | h
          · rw [h] at hr; exact (Rat.lt_irrefl hr).elim
          · exact h
        funext k
        unfold opF
        by_cases h1 : k = o.2.1
        · simp [h1, hh, h7]
        · by_cases h2 : k = o.1
          · simp [h1, h2, h7]
          · simp [h1, h2]
    rw [hstep] at hle ⊢
    exact ih f ho' (fun o' ho'' => hq o' (List.mem_cons_of_mem _ ho'')) hf hr hle

theorem delta_nonneg (r : Nat) : ∀ k, 0 ≤ delta r k := by
  intro k; unfold delta; split <;> decide

/-! ## ancestry read back -/

/-- the total weight of `k` in an ancestor list -/
def wsum : List (Nat × Q) → Nat → Q
  | [], _ => 0
  | (a, p) :: r, k => (if a = k then p else 0) + wsum r k

/-- the ancestry `ancs` of the deme `me` on a row -/
def bornF (me : Nat) (ancs : List (Nat × Q)) (f : RowF) : RowF := fun k =>
  if f me = 0 then f k else (if k = me then 0 else f k) + f me * wsum ancs k

def foldBorn (births : List (Nat × List (Nat × Q))) (f : RowF) : RowF :=
  births.foldl (fun f b => bornF b.1 b.2 f) f

theorem bornF_noop {me : Nat} {ancs : List (Nat × Q)} {f : RowF} (h : f me = 0) : bornF me ancs f = f := by
  funext k; unfold bornF; simp [h]

theorem foldBorn_noop : ∀ (births : List (Nat × List (Nat × Q))) (f : RowF), (∀ b ∈ births, f b.1 = 0) →
    foldBorn births f = f := by
  intro births
  induction births with
  | nil => intro f _; rfl
  | cons b rest ih =>
    intro f h
    show foldBorn rest (bornF b.1 b.2 f) = f
    rw [bornF_noop (h b (List.mem_cons_self ..))]
    exact ih f (fun b' hb' => h b' (List.mem_cons_of_mem _ hb'))

theorem foldBorn_append (a b : List (Nat × List (Nat × Q))) (f : RowF) :
    foldBorn (a ++ b) f = foldBorn b (foldBorn a f) := by
  unfold foldBorn; rw [List.foldl_append]

/-! ## the read-back equals the matrix -/

/-- what the Builder's `applyParams` knows about the final matrix `F`, stated on rows as
functions: `ops` are the moves of the group in order; `F r` is row `r`; `born` lists the populations
joined in the group with the ancestry `applyParams` wrote for them. -/
structure ReadBack (ops : List MOp) (F : Nat → RowF) (born : List (Nat × List (Nat × Q))) : Prop where
  nsat : NSAT ops
  frac : ∀ o ∈ ops, 0 ≤ o.2.2 ∧ o.2.2 ≤ 1
  bornNodup : (born.map (·.1)).Nodup
  /-- column `i` of the final matrix is zero for a joined population -/
  colZero : ∀ b ∈ born, ∀ r, F r b.1 = 0
  /-- the ancestry written for a joined population is the positive part of its row -/
  ancs : ∀ b ∈ born, ∀ k, wsum b.2 k = if k ≠ b.1 ∧ 0 < F b.1 k then F b.1 k else 0

/-- a pulse is emitted for the moves of population `a`: its row keeps something at home and has
something elsewhere -/
def Emits (F : Nat → RowF) (a : Nat) : Prop := F a a ≠ 0 ∧ ∃ k, k ≠ a ∧ 0 < F a k

theorem readBack_row {ops : List MOp} {F : Nat → RowF} {born : List (Nat × List (Nat × Q))}
    (h : ReadBack ops F born) (r : Nat) (hF : F r = foldOps ops (delta r))
    (hjoin : ∀ o ∈ ops, o.1 = r → o.2.2 = 1 → r ∈ born.map (·.1))
    (E : Nat → Bool) (hE : E r = true ↔ Emits F r) :
    foldBorn born (foldOps (ops.filter (fun o => E o.1)) (delta r)) = F r := by
  have hown : OwnOps r (ops.filter (fun o => o.1 = r)) := by
    intro o ho
    obtain ⟨h1, h2⟩ := List.mem_filter.mp ho
    exact ⟨by simpa using h2, h.frac o h1⟩
  have hFown : F r = foldOps (ops.filter (fun o => o.1 = r)) (delta r) := by
    rw [hF]; exact foldOps_own_delta r ops h.nsat
  have hFnn : ∀ k, 0 ≤ F r k := by
    rw [hF]; exact foldOps_nonneg ops _ h.frac (delta_nonneg r)
  -- the pulses the row feels
  have hpul : foldOps (ops.filter (fun o => E o.1)) (delta r) = if E r = true then F r else delta r := by
    rw [foldOps_own_delta r _ (List.Pairwise.sublist List.filter_sublist h.nsat), List.filter_filter]
    by_cases he : E r = true
    · rw [if_pos he, hFown]
      congr 1
      apply List.filter_congr
      intro o _
      by_cases ho : o.1 = r
      · simp [ho, he]
      · simp [ho]
    · rw [if_neg he]
      have hEr : E r = false := by simpa using he
      have : ops.filter (fun o => decide (o.1 = r) && E o.1) = [] := by
        rw [List.filter_eq_nil_iff]
        intro o _
        by_cases ho : o.1 = r
        · simp [ho, hEr]
        · simp [ho]
      rw [this]; rfl
  rw [hpul]
  by_cases hb : r ∈ born.map (·.1)
  · -- a joined population: no pulse, the ancestry is the row
    obtain ⟨b, hbm, hbr⟩ := List.mem_map.mp hb
    have hrr : F r r = 0 := by have := h.colZero b hbm r; rwa [hbr] at this
    have hne : ¬ E r = true := fun he => (hE.mp he).1 hrr
    rw [if_neg hne]
    obtain ⟨pre, post, hsplit⟩ := List.append_of_mem hbm
    have hnd := h.bornNodup
    rw [hsplit, List.map_append, List.map_cons, List.nodup_append] at hnd
    obtain ⟨_, hnd2, hnd3⟩ := hnd
    rw [hsplit, foldBorn_append]
    have hpre : foldBorn pre (delta r) = delta r := by
      apply foldBorn_noop
      intro b' hb'
      apply delta_ne
      intro e
      exact hnd3 b'.1 (List.mem_map.mpr ⟨b', hb', rfl⟩) b.1 (List.mem_cons_self ..) (by rw [e, hbr])
    rw [hpre]
    show foldBorn post (bornF b.1 b.2 (delta r)) = F r
    have hborn : bornF b.1 b.2 (delta r) = F r := by
      funext k
      unfold bornF
      rw [hbr, delta_self]
      simp only [show (1 : Q) ≠ 0 by decide, if_false, Rat.one_mul]
      have ha := h.ancs b hbm k
      rw [hbr] at ha
      rw [ha]
      by_cases hk : k = r
      · subst hk; simp [hrr]
      · rw [delta_ne hk]
        simp only [hk, if_false, ne_eq, not_false_eq_true, true_and, Rat.zero_add]
        have := hFnn k
        split
        · rfl
        · rename_i hp
          have : F r k ≤ 0 := Rat.not_lt.mp hp
          exact Rat.le_antisymm (hFnn k) this
    rw [hborn]
    apply foldBorn_noop
    intro b' hb'
    have hb'm : b' ∈ born := by rw [hsplit]; exact List.mem_append_right _ (List.mem_cons_of_mem _ hb')
    exact h.colZero b' hb'm r
  · -- not joined
    have hlt : ∀ o ∈ ops.filter (fun o => o.1 = r), o.2.2 < 1 := by
      intro o ho
      obtain ⟨h1, h2⟩ := List.mem_filter.mp ho
      have hor : o.1 = r := by simpa using h2
      have hle := (h.frac o h1).2
      rcases Rat.le_iff_lt_or_eq.mp hle with hl | he
      · exact hl
      · exact (hb (hjoin o h1 hor he)).elim
    by_cases he' : E r = true
    · rw [if_pos he']
      apply foldBorn_noop
      intro b hbm
      exact h.colZero b hbm r
    · rw [if_neg he']
      have he : ¬ Emits F r := fun hh => he' (hE.mpr hh)
      have hfix : F r = delta r := by
        rw [hFown]
        apply foldOps_own_fixed r _ _ hown hlt (delta_nonneg r) (by rw [delta_self]; decide)
        intro k hk
        rw [← hFown, delta_ne hk]
        have hpos : 0 < F r r := by
          rw [hFown]
          exact foldOps_own_pos r _ _ hown hlt (by rw [delta_self]; decide)
        apply Rat.not_lt.mp
        intro hkpos
        exact he ⟨fun e => by rw [e] at hpos; exact Rat.lt_irrefl hpos, k, hk, hkpos⟩
      rw [hfix]
      apply foldBorn_noop
      intro b hbm
      apply delta_ne
      intro e
      exact hb (List.mem_map.mpr ⟨b, hbm, e⟩)

/-! ## joins -/

theorem foldOps_other : ∀ (ops : List MOp) (f : RowF) (k : Nat), (∀ o ∈ ops, o.1 ≠ k ∧ o.2.1 ≠ k) →
    foldOps ops f k = f k := by
  intro ops
  induction ops with
  | nil => intro f k _; rfl
  | cons o rest ih =>
    intro f k h
    rw [foldOps_cons, ih _ k (fun o' ho' => h o' (List.mem_cons_of_mem _ ho'))]
    obtain ⟨h1, h2⟩ := h o (List.mem_cons_self ..)
    exact opF_other (fun e => h2 e.symm) (fun e => h1 e.symm)

/-- after a join of `a` that nothing refers to afterwards, column `a` is empty -/
theorem foldOps_col_zero (pre post : List MOp) (o : MOp) (hq : o.2.2 = 1) (hne : o.2.1 ≠ o.1)
    (hpost : ∀ o' ∈ post, o'.1 ≠ o.1 ∧ o'.2.1 ≠ o.1) (f : RowF) : foldOps (pre ++ o :: post) f o.1 = 0 := by
  rw [foldOps_append, foldOps_cons, foldOps_other post _ _ hpost]
  unfold opF
  rw [if_neg (fun e => hne e.symm), if_pos rfl, hq]
  ring

/-- a join of `b` (whose earlier moves are proper splits) leaves something at its target -/
theorem foldOps_join_pos (pre post : List MOp) (o : MOp) (hq : o.2.2 = 1) (hne : o.2.1 ≠ o.1)
    (hns : NSAT (pre ++ o :: post)) (hfr : ∀ o' ∈ pre ++ o :: post, 0 ≤ o'.2.2 ∧ o'.2.2 ≤ 1)
    (hpre : ∀ o' ∈ pre, o'.1 = o.1 → o'.2.2 < 1) (hpost : ∀ o' ∈ post, o'.1 ≠ o.1) :
    0 < foldOps (pre ++ o :: post) (delta o.1) o.2.1 := by
  rw [foldOps_own_delta o.1 _ hns, List.filter_append, List.filter_cons_of_pos (by simp)]
  have hpe : post.filter (fun o' => decide (o'.1 = o.1)) = [] := by
    rw [List.filter_eq_nil_iff]
    intro o' ho'
    simpa using hpost o' ho'
  rw [hpe, foldOps_append, foldOps_cons, foldOps_nil]
  have hown : OwnOps o.1 (pre.filter (fun o' => decide (o'.1 = o.1))) := by
    intro o' ho'
    obtain ⟨h1, h2⟩ := List.mem_filter.mp ho'
    exact ⟨by simpa using h2, hfr o' (List.mem_append_left _ h1)⟩
  have hlt : ∀ o' ∈ pre.filter (fun o' => decide (o'.1 = o.1)), o'.2.2 < 1 := by
    intro o' ho'
    obtain ⟨h1, h2⟩ := List.mem_filter.mp ho'
    exact hpre o' h1 (by simpa using h2)
  have hpos := foldOps_own_pos o.1 _ (delta o.1) hown hlt (by rw [delta_self]; decide)
  have hnn := foldOps_nonneg _ (delta o.1) (fun o' ho' => (hown o' ho').2) (delta_nonneg o.1) o.2.1
  unfold opF
  rw [if_pos rfl, if_neg hne, hq]
  linarith

end Demes.Proofs.FromMs
